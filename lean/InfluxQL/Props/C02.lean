import InfluxQL.Model.ParserStmt
import InfluxQL.Model.PrintStmt
import InfluxQL.Lemmas.Digits
import InfluxQL.Lemmas.ParserTok
import InfluxQL.Lemmas.StmtPieces
import InfluxQL.Lemmas.StmtExprPieces
import InfluxQL.Lemmas.SelectPieces
import InfluxQL.Lemmas.SelectClauses
import InfluxQL.Lemmas.SelectCQ
import InfluxQL.Lemmas.SelectRegexFamilies
import InfluxQL.Lemmas.ShowRegexSrc
import InfluxQL.Lemmas.IntLit
import InfluxQL.Lemmas.RegexRoundTrip
import InfluxQL.Lemmas.ShowPieces
import InfluxQL.Lemmas.AdminPieces
import InfluxQL.Lemmas.NumberRoundTrip
import InfluxQL.Props.C01
import InfluxQL.Props.C08
import InfluxQL.Props.C06
/-
C02 — printed statements re-parse to the same AST.

The model is `Model/PrintStmt.lean` ∘ `Model/ParserStmt.lean`. The statement-level theorem

  print_parse : Parsed a → NoPassword a → parseStatement (print a) = ok a

is *not yet proved* (see notes/C02.md); it is tied to the implementation by the stream
`print.stmt` (exact equality of `String()` with the model's printer on every parsed statement) and
by the double round trip run on the implementation. Proved here, for all values: the lexical core
of the round trip — what the printers write for integers, unsigned integers, durations and
regular expressions is read back as the same value by the literal parsers of the model — and the
round trip at text level for the administrative statement families (everything without
expressions, source lists and SELECT; see "statement families at text level" below and
`Lemmas/StmtPieces.lean`), including the dispatch on the printed keywords.
-/
namespace InfluxQL.C02
open InfluxQL Gen

/-! ## integers -/

/-- `IntegerLiteral.String()` of a non-negative value is read back by the INTEGER case of
`parseUnaryExpr` as the same `IntegerLiteral`. -/
theorem integer_print_parse (n : Nat) (h : (n : Int) ≤ maxInt64) (pos : Pos) (s : PState) :
    (parseIntegerLit (intDigits n) pos).run s = .ok (.integer n, s) := by
  have hd : intDigits (n : Int) = natDigits n := by
    unfold intDigits
    simp
  rw [hd]
  unfold parseIntegerLit
  rw [splitSign_natDigits]
  have h0 : minInt64 ≤ (n : Int) := by unfold minInt64; omega
  simp [allDigits_natDigits, digitsVal_natDigits, h, h0, StateT.run, pure, StateT.pure, Except.pure]

/-- `UnsignedLiteral.String()` (a value above `MaxInt64`) is read back as the same
`UnsignedLiteral`: `ParseInt` fails, `ParseUint` succeeds. -/
theorem unsigned_print_parse (n : Nat) (h1 : maxInt64 < (n : Int)) (h2 : (n : Int) ≤ maxUInt64) (pos : Pos) (s : PState) :
    (parseIntegerLit (natDigits n) pos).run s = .ok (.unsigned n, s) := by
  unfold parseIntegerLit
  rw [splitSign_natDigits]
  have hd := natDigits_all_digits n
  have hne := natDigits_ne_nil n
  have hh : (natDigits n).head? ≠ some '-' ∧ (natDigits n).head? ≠ some '+' := by
    match hx : natDigits n with
    | [] => exact absurd hx hne
    | c :: rest =>
      have hc : isDigit c = true := hd c (by rw [hx]; exact List.mem_cons_self)
      constructor
      · intro h; simp at h; rw [h] at hc; exact absurd hc (by decide)
      · intro h; simp at h; rw [h] at hc; exact absurd hc (by decide)
  have hnot : ¬ (minInt64 ≤ (n : Int) ∧ (n : Int) ≤ maxInt64) := by omega
  simp [allDigits_natDigits, digitsVal_natDigits, hnot, hh.1, hh.2, h2, StateT.run, pure, StateT.pure, Except.pure]

/-- The one negative value whose digits exceed `MaxInt64`: `-9223372036854775808` is printed as `-`
followed by these digits; they are read as the unsigned literal 2^63, which the unary-minus case
of `parseUnaryExpr` maps back to `MinInt64` (its `lit.Val == uint64(math.MaxInt64+1)` test). -/
theorem minInt64_digits_parse (pos : Pos) (s : PState) :
    (parseIntegerLit (natDigits minInt64.natAbs) pos).run s = .ok (.unsigned 9223372036854775808, s) :=
  unsigned_print_parse 9223372036854775808 (by decide) (by decide) pos s

/-! ## numbers -/

/-- `NumberLiteral.String()` of a non-negative finite value (`Dec.print`: integer part, point,
fraction digits without trailing zeros, `.0` for a whole number) is read back by the NUMBER case
of `parseUnaryExpr` as a number literal of the same value: `mant' / 10^scale' = mant / 10^scale`.
(The sign of a negative literal is a separate `-` token. In the model a number literal *is* its
exact decimal; that this coincides with `float64` formatting is the trusted-base assumption for
literals of at most 15 significant digits.) -/
theorem number_print_parse (d : Dec) (hneg : d.neg = false)
    (hfin : d.mant < (2 ^ 1024 - 2 ^ 970) * 10 ^ d.scale) (pos : Pos) (s : PState) :
    ∃ d' : Dec, (parseNumberLit d.print pos).run s = .ok (.number d', s) ∧ d'.neg = false ∧
      d'.mant * 10 ^ d.scale = d.mant * 10 ^ d'.scale :=
  ⟨_, parseNumberLit_print d hneg hfin pos s, rfl, d.fracDigits_value⟩

example : (⟨false, 1500, 3⟩ : Dec).print = "1.5".toList := by decide
example : (⟨false, 3, 0⟩ : Dec).print = "3.0".toList := by decide

/-! ## durations -/

/-- `DurationLiteral.String()` (`FormatDuration`) is read back by `ParseDuration` as the same
duration, for every value except `MinInt64` (whose magnitude does not fit). -/
theorem duration_print_parse (d : Int) (hmin : minInt64 < d) (hmax : d ≤ maxInt64) :
    parseDuration (formatDuration d) = .ok d :=
  C08.parse_format d hmin hmax

/-! ## regular expressions -/

/-- `RegexLiteral.String()` writes `/` ++ source with every `/` escaped ++ `/`. `ScanRegex` on that
text (followed by anything, `k`) returns the REGEX token carrying the source and stops right after
the closing slash — for every source without newline and NUL that does not end in a backslash. -/
theorem regex_print_scan (r : Cursor) (q0 q : Pos) (l k : List (Char × Pos)) (src : List Char)
    (hr : r.rest = ('/', q0) :: (l ++ ('/', q) :: k))
    (hl : l.map Prod.fst = escapeSlashes src)
    (hok : RegexRunes src) (hend : endsBS src = false) :
    (scanRegex r).1 = ⟨.REGEX, r.prev.2, src⟩ ∧ (scanRegex r).2.rest = k :=
  scanRegex_print r q0 q l k src hr hl hok hend

/-- Conversely every source `ScanRegex` can return has that shape, so the hypothesis of
`regex_print_scan` excludes no regex that was *written as text*. (A regex bound through a
parameter can end in a backslash; that case is outside the property.) -/
theorem regex_scan_image (fin : Pos) (l : List (Char × Pos)) (pv : Char × Pos) (n : Nat) (out : List Char)
    (h : (scanRegexLoop fin l [] false pv n).1 = some out) :
    RegexRunes out ∧ endsBS out = false :=
  scanRegexLoop_image fin l [] false pv n out (fun _ hc => by cases hc) (fun _ => rfl) h

/-- Non-vacuity: the source `a/b\.c` is printed as `/a\/b\.c/` and scanned back. -/
example : (scanRegex (Cursor.ofRunes "/a\\/b\\.c/ rest".toList)).1.lit = "a/b\\.c".toList := by decide

example : escapeSlashes "a/b\\.c".toList = "a\\/b\\.c".toList := by decide

/-- Why the hypothesis is needed: the source `a\` is printed as `/a\/`, whose last slash the
scanner takes for an escaped one. -/
example : (scanRegex (Cursor.ofRunes "/a\\/".toList)).1.tok = .BADREGEX := by decide

/-! ## a first statement family: the single-name statements

`DROP DATABASE n`, `DROP MEASUREMENT n`, `DROP USER n`, `SHOW GRANTS FOR n` print as their
keywords, one blank and `QuoteIdent(n)`. The keyword prefix is handled at token level
(`C01.dispatch_step_sub` / `dispatch_step_handler`); from the handler on the theorem is about the
text. -/

/-- The four handlers that read exactly one name. -/
def singleNameHandlers : List (Handler × (Str → Statement)) :=
  [(.parseDropDatabaseStatement, .dropDatabase), (.parseDropMeasurementStatement, .dropMeasurement),
   (.parseDropUserStatement, .dropUser), (.parseGrantsForUserStatement, .showGrantsForUser)]

/-- What these statements print after their keywords. -/
theorem singleName_print (name : Str) :
    (Statement.dropDatabase name).print = "DROP DATABASE ".toList ++ quoteIdent [name] ∧
    (Statement.dropMeasurement name).print = "DROP MEASUREMENT ".toList ++ quoteIdent [name] ∧
    (Statement.dropUser name).print = "DROP USER ".toList ++ quoteIdent [name] ∧
    (Statement.showGrantsForUser name).print = "SHOW GRANTS FOR ".toList ++ quoteIdent [name] :=
  ⟨rfl, rfl, rfl, rfl⟩

/-- **Print → parse for the single-name statements, from the handler on (partial: the keyword
prefix is covered at token level only).** For a name that is printed in quotes (it needs them, or
is empty) and is expressible (no NUL, no CR): the handler, started with nothing pushed back on the
text `' ' ++ QuoteIdent(name) ++ k`, returns the statement with exactly that name and stops right
after the closing quote. -/
theorem singleName_quoted_print_parse_partial (fuel : Nat) (h : Handler) (C : Str → Statement)
    (hh : (h, C) ∈ singleNameHandlers) (s : PState) (name k tail : Str) (hn : s.n = 0)
    (hq : (identNeedsQuotes name || name == []) = true) (hex : Expressible name)
    (hr : s.r.rest.map Prod.fst = foldCR (' ' :: (quoteIdent [name] ++ k)) ++ tail) :
    ∃ s', (runHandler fuel h).run s = .ok (C name, s') ∧ s'.n = 0 ∧
      s'.r.rest.map Prod.fst = foldCR k ++ tail := by
  rw [C06.quoteIdent_single, hq] at hr
  simp only [↓reduceIte, List.cons_append, List.append_assoc, List.nil_append] at hr
  rw [foldCR_cons_of_ne _ _ (by decide), foldCR_cons_of_ne _ _ (by decide)] at hr
  simp only [List.cons_append] at hr
  obtain ⟨b1, l1, hrest, hb1, hl1⟩ := List.map_eq_cons_iff.mp hr
  obtain ⟨b2, l2, rfl, hb2, hl2⟩ := List.map_eq_cons_iff.mp hl1
  obtain ⟨c1, q1⟩ := b1
  obtain ⟨c2, q2⟩ := b2
  simp only at hb1 hb2
  subst hb1 hb2
  have hblank := scan_blank s.r q1 q2 '"' l2 hrest (by decide) (by decide)
  have hquoted := C06.scan_quotedIdent_contained (scan s.r).2 name k tail (by
    rw [hblank.2, foldCR_cons_of_ne _ _ (by decide)]
    simp only [List.map_cons, List.cons_append, hl2])
  rcases hquoted with ⟨_, hid, hlit, hrest'⟩ | ⟨hne, _⟩
  · obtain ⟨s', hrun, hr', hn'⟩ := parseIdent_after_blank s name hn hblank.1 hid hlit
    refine ⟨s', ?_, hn', by rw [hr']; exact hrest'⟩
    simp only [singleNameHandlers, List.mem_cons, Prod.mk.injEq, List.not_mem_nil, or_false] at hh
    rcases hh with ⟨rfl, rfl⟩ | ⟨rfl, rfl⟩ | ⟨rfl, rfl⟩ | ⟨rfl, rfl⟩ <;>
      (simp only [runHandler]; rw [P.run_bind _ _ s name s' hrun]; rfl)
  · exact absurd hex hne

/-- **The same for a name that is printed bare** (a non-keyword identifier): here the text after
the name must not continue it — it starts with a rune `x` that is no identifier rune, no `"` and
not the end of input (partial in that sense too: at the very end of the input the NUL sentinel is
swallowed by the scanner, which C05 records). -/
theorem singleName_bare_print_parse_partial (fuel : Nat) (h : Handler) (C : Str → Statement)
    (hh : (h, C) ∈ singleNameHandlers) (s : PState) (name : Str) (x : Char) (t : Str) (hn : s.n = 0)
    (hne : name ≠ []) (hq : identNeedsQuotes name = false)
    (hx : isIdentChar x = false) (hxq : x ≠ '"') (hxe : x ≠ eofRune)
    (hr : s.r.rest.map Prod.fst = ' ' :: (quoteIdent [name] ++ x :: t)) :
    ∃ s', (runHandler fuel h).run s = .ok (C name, s') ∧ s'.n = 0 ∧ s'.r.rest.map Prod.fst = x :: t := by
  obtain ⟨_, c, tl, hname, hc, _⟩ := (identNeedsQuotes_false_iff name hne).mp hq
  have hqi : quoteIdent [name] = name := by
    rw [C06.quoteIdent_single]
    have : (name == []) = false := by simpa using hne
    simp only [hq, this, Bool.or_self, Bool.false_eq_true, ↓reduceIte]
    exact C06.esc_identChars name (by
      intro y hy
      obtain ⟨_, c', tl', hname', hc', htl'⟩ := (identNeedsQuotes_false_iff name hne).mp hq
      rw [hname'] at hy
      rcases List.mem_cons.mp hy with rfl | hy
      · unfold isIdentFirstChar at hc'
        unfold isIdentChar
        simp only [Bool.or_eq_true] at hc' ⊢
        rcases hc' with h1 | h1
        · exact Or.inl (Or.inl h1)
        · exact Or.inr h1
      · exact htl' y hy)
  rw [hqi, hname] at hr
  simp only [List.cons_append] at hr
  obtain ⟨b1, l1, hrest, hb1, hl1⟩ := List.map_eq_cons_iff.mp hr
  obtain ⟨b2, l2, rfl, hb2, hl2⟩ := List.map_eq_cons_iff.mp hl1
  obtain ⟨c1, q1⟩ := b1
  obtain ⟨c2, q2⟩ := b2
  simp only at hb1 hb2
  subst hb1 hb2
  have hcb := identFirst_not_blank hc
  have hblank := scan_blank s.r q1 q2 c2 l2 hrest hcb.1 hcb.2.1
  have hbare := scan_bareIdent (scan s.r).2 name x t hne hq (by
    rw [hblank.2, hname]
    simp only [List.map_cons, List.cons_append, hl2]) hx hxq hxe
  obtain ⟨s', hrun, hr', hn'⟩ := parseIdent_after_blank s name hn hblank.1 hbare.1 hbare.2.1
  refine ⟨s', ?_, hn', by rw [hr']; exact hbare.2.2⟩
  simp only [singleNameHandlers, List.mem_cons, Prod.mk.injEq, List.not_mem_nil, or_false] at hh
  rcases hh with ⟨rfl, rfl⟩ | ⟨rfl, rfl⟩ | ⟨rfl, rfl⟩ | ⟨rfl, rfl⟩ <;>
    (simp only [runHandler]; rw [P.run_bind _ _ s name s' hrun]; rfl)

/-- Non-vacuity: `DROP DATABASE "a b"` after its keywords. -/
example : ∃ s', (runHandler 10 .parseDropDatabaseStatement).run
      (PState.init (' ' :: (quoteIdent ["a b".toList] ++ [])) [] []) = .ok (.dropDatabase "a b".toList, s') := by
  obtain ⟨s', h, _⟩ := singleName_quoted_print_parse_partial 10 .parseDropDatabaseStatement .dropDatabase
    (by simp [singleNameHandlers]) (PState.init (' ' :: (quoteIdent ["a b".toList] ++ [])) [] []) "a b".toList [] [eofRune]
    rfl (by decide) (by decide) (by simp [PState.init, Cursor.ofRunes, stampRunes_map_fst])
  exact ⟨s', h⟩

/-- Non-vacuity: `SHOW GRANTS FOR cpu;` after its keywords. -/
example : ∃ s', (runHandler 10 .parseGrantsForUserStatement).run
      (PState.init " cpu;".toList [] []) = .ok (.showGrantsForUser "cpu".toList, s') := by
  obtain ⟨s', h, _⟩ := singleName_bare_print_parse_partial 10 .parseGrantsForUserStatement .showGrantsForUser
    (by simp [singleNameHandlers]) (PState.init " cpu;".toList [] []) "cpu".toList ';' [eofRune]
    rfl (by decide) (by decide) (by decide) (by decide) (by decide) (by decide)
  exact ⟨s', h⟩

/-! ## statement families at text level

From here on the theorems have one shape. The parser state `s` has nothing pushed back and its
rune reader stands before the text the printer writes *after the dispatch keywords* of the
statement, followed by an arbitrary continuation `k` (`s.Before (… ++ k)`, runes as the reader
delivers them; `k` ends with the NUL sentinel of the input). The handler the dispatch selects
returns exactly the printed statement and leaves the parser before `k`.

Hypotheses that recur:
* `Expressible name` — no NUL, no CR: true of every name and string the parser can produce
  (the scanner ends a literal at NUL and the reader folds CR);
* `IdentEnd name k`, `WordEnd k`, `NumEnd k`, `DurEnd k` — the continuation does not *continue*
  the last printed token (a name printed bare, a keyword, digits, a duration); the end of the
  input and `;` always qualify. They restrict the context, not the statement.
The printed text is given in pieces (`Token.str` is the upper-case spelling of a keyword);
the `…_print` theorems state that this is what `String()` writes. -/

/-! ### statements without arguments -/

/-- The handlers that read nothing. -/
def zeroArgHandlers : List (Handler × Statement) :=
  [(.parseShowContinuousQueriesStatement, .showContinuousQueries), (.parseShowDatabasesStatement, .showDatabases),
   (.parseShowQueriesStatement, .showQueries), (.parseShowShardGroupsStatement, .showShardGroups),
   (.parseShowShardsStatement, .showShards), (.parseShowSubscriptionsStatement, .showSubscriptions),
   (.parseShowUsersStatement, .showUsers)]

/-- These statements print as their keywords only. -/
theorem zeroArg_print :
    zeroArgHandlers.map (fun p => p.2.print) =
      [tx "SHOW CONTINUOUS QUERIES", tx "SHOW DATABASES", tx "SHOW QUERIES", tx "SHOW SHARD GROUPS", tx "SHOW SHARDS",
       tx "SHOW SUBSCRIPTIONS", tx "SHOW USERS"] := rfl

/-- **Print → parse, statements without arguments**: the handler returns the statement and reads
nothing, in every state. -/
theorem zeroArg_print_parse (fuel : Nat) (h : Handler) (st : Statement) (hh : (h, st) ∈ zeroArgHandlers)
    (s : PState) : (runHandler fuel h).run s = .ok (st, s) := by
  simp only [zeroArgHandlers, List.mem_cons, Prod.mk.injEq, List.not_mem_nil, or_false] at hh
  rcases hh with ⟨rfl, rfl⟩ | ⟨rfl, rfl⟩ | ⟨rfl, rfl⟩ | ⟨rfl, rfl⟩ | ⟨rfl, rfl⟩ | ⟨rfl, rfl⟩ | ⟨rfl, rfl⟩ <;> rfl

/-! ### `<name> ON <db>`: DROP RETENTION POLICY, DROP CONTINUOUS QUERY -/

theorem tx_on : tx " ON " = ' ' :: (Token.ON.str ++ [' ']) := by decide +kernel

/-- What is printed after the keywords. -/
def nameOnDbText (name db : Str) : Str := ' ' :: (qi name ++ ' ' :: (Token.ON.str ++ ' ' :: qi db))

theorem nameOnDb_print (name db : Str) :
    (Statement.dropRetentionPolicy name db).print = tx "DROP RETENTION POLICY" ++ nameOnDbText name db ∧
    (Statement.dropContinuousQuery name db).print = tx "DROP CONTINUOUS QUERY" ++ nameOnDbText name db := by
  have e1 : tx "DROP RETENTION POLICY " = tx "DROP RETENTION POLICY" ++ [' '] := by decide +kernel
  have e2 : tx "DROP CONTINUOUS QUERY " = tx "DROP CONTINUOUS QUERY" ++ [' '] := by decide +kernel
  have p1 : (Statement.dropRetentionPolicy name db).print =
      tx "DROP RETENTION POLICY " ++ qi name ++ tx " ON " ++ qi db := rfl
  have p2 : (Statement.dropContinuousQuery name db).print =
      tx "DROP CONTINUOUS QUERY " ++ qi name ++ tx " ON " ++ qi db := rfl
  rw [p1, p2, e1, e2, tx_on]
  simp only [nameOnDbText, List.append_assoc, List.cons_append, List.nil_append, and_self]

/-- `parseNameOnDb` on the printed form. -/
theorem parseNameOnDb_print (s : PState) (name db k : Str) (hex1 : Expressible name) (hex2 : Expressible db)
    (hk : IdentEnd db k) (hs : s.Before (nameOnDbText name db ++ k)) :
    ∃ s', parseNameOnDb.run s = .ok ((name, db), s') ∧ s'.Before k := by
  have e : nameOnDbText name db ++ k = ' ' :: (qi name ++ ' ' :: (Token.ON.str ++ ' ' :: (qi db ++ k))) := by
    simp only [nameOnDbText, List.append_assoc, List.cons_append]
  rw [e] at hs
  obtain ⟨s1, h1, b1⟩ := parseIdent_piece s [' '] (qi name) _ name Gap.blank hs.around
    (scansAs_ident name _ hex1 (.of_wordEnd (WordEnd.blank _)))
  obtain ⟨s2, h2, b2⟩ := expectTok_piece s1 [' '] Token.ON.str _ .ON [] ["ON"] Gap.blank b1.around
    (scansAs_kw .ON _ (by decide +kernel) (WordEnd.blank _))
  obtain ⟨s3, h3, b3⟩ := parseIdent_piece s2 [' '] (qi db) k db Gap.blank b2.around (scansAs_ident db k hex2 hk)
  refine ⟨s3, ?_, b3⟩
  unfold parseNameOnDb
  rw [P.run_bind _ _ s name s1 h1, P.run_bind _ _ s1 () s2 h2, P.run_bind _ _ s2 db s3 h3]
  rfl

/-- The two handlers of this family. -/
def nameOnDbHandlers : List (Handler × (Str → Str → Statement)) :=
  [(.parseDropRetentionPolicyStatement, .dropRetentionPolicy), (.parseDropContinuousQueryStatement, .dropContinuousQuery)]

/-- **Print → parse, DROP RETENTION POLICY / DROP CONTINUOUS QUERY.** -/
theorem nameOnDb_print_parse (fuel : Nat) (h : Handler) (C : Str → Str → Statement) (hh : (h, C) ∈ nameOnDbHandlers)
    (s : PState) (name db k : Str) (hex1 : Expressible name) (hex2 : Expressible db)
    (hk : IdentEnd db k) (hs : s.Before (nameOnDbText name db ++ k)) :
    ∃ s', (runHandler fuel h).run s = .ok (C name db, s') ∧ s'.Before k := by
  obtain ⟨s', hrun, hb⟩ := parseNameOnDb_print s name db k hex1 hex2 hk hs
  refine ⟨s', ?_, hb⟩
  simp only [nameOnDbHandlers, List.mem_cons, Prod.mk.injEq, List.not_mem_nil, or_false] at hh
  rcases hh with ⟨rfl, rfl⟩ | ⟨rfl, rfl⟩ <;>
    (simp only [runHandler]; rw [P.run_bind _ _ s (name, db) s' hrun]; rfl)

/-- Non-vacuity: `DROP RETENTION POLICY "1h.cpu" ON mydb` at the end of the input. -/
example : ∃ s', (runHandler 10 .parseDropRetentionPolicyStatement).run
      (PState.init (nameOnDbText "1h.cpu".toList "mydb".toList) [] []) =
        .ok (.dropRetentionPolicy "1h.cpu".toList "mydb".toList, s') := by
  obtain ⟨s', h, _⟩ := nameOnDb_print_parse 10 .parseDropRetentionPolicyStatement .dropRetentionPolicy
    (by simp [nameOnDbHandlers]) (PState.init (nameOnDbText "1h.cpu".toList "mydb".toList) [] []) "1h.cpu".toList
    "mydb".toList [eofRune] (by decide) (by decide) (.of_wordEnd .eof)
    (by
      have := PState.init_before (nameOnDbText "1h.cpu".toList "mydb".toList) [] []
      rwa [show foldCR (nameOnDbText "1h.cpu".toList "mydb".toList) = nameOnDbText "1h.cpu".toList "mydb".toList from by
        decide] at this)
  exact ⟨s', h⟩

/-! ### the optional `ON <db>` clause: SHOW RETENTION POLICIES, KILL QUERY -/

/-- ` ON <db>` when the name is not empty (the printers' test), else nothing. -/
def onText (db : Str) : Str := if db ≠ [] then ' ' :: (Token.ON.str ++ ' ' :: qi db) else []

theorem clauseOn_eq (db : Str) : clauseOn db = onText db := by
  unfold clauseOn onText
  split
  · rw [tx_on]; simp only [List.append_assoc, List.cons_append, List.nil_append]
  · rfl

/-- The optional `ON` clause on its printed form: present it is consumed; absent (the empty name
prints nothing) one token is looked at and pushed back. -/
theorem parseOnDb_print (s : PState) (db k : Str) (hex : Expressible db) (hk : IdentEnd db k)
    (hs : s.Before (onText db ++ k)) :
    ∃ sK, sK.Before k ∧ ReturnsAt parseOnDb s db sK (db == []) [.ON] := by
  unfold onText at hs
  by_cases hdb : db = []
  · subst hdb
    refine ⟨s, hs, ?_⟩
    unfold ReturnsAt
    rw [if_pos (by simp)]
    intro lx s' hp hne
    unfold parseOnDb
    rw [P.run_bind _ _ s false s' (optTok_absent .ON hp (by simpa using hne))]
    rfl
  · rw [if_pos hdb] at hs
    simp only [List.append_assoc, List.cons_append] at hs
    obtain ⟨s1, h1, b1⟩ := optTok_piece s [' '] Token.ON.str _ .ON [] Gap.blank hs.around
      (scansAs_kw .ON _ (by decide +kernel) (WordEnd.blank _))
    obtain ⟨s2, h2, b2⟩ := parseIdent_piece s1 [' '] (qi db) k db Gap.blank b1.around (scansAs_ident db k hex hk)
    refine ⟨s2, b2, ?_⟩
    unfold ReturnsAt
    rw [if_neg (by simpa using hdb)]
    unfold parseOnDb
    rw [P.run_bind _ _ s true s1 h1]
    exact h2

theorem showRetentionPolicies_print (db : Str) :
    (Statement.showRetentionPolicies db).print = tx "SHOW RETENTION POLICIES" ++ onText db := by
  rw [← clauseOn_eq]; rfl

/-- **Print → parse, SHOW RETENTION POLICIES [ON db]** (the empty name is printed as no clause and
read back as the empty name). -/
theorem showRetentionPolicies_print_parse (fuel : Nat) (s : PState) (db k : Str) (hex : Expressible db)
    (hk : IdentEnd db k) (hs : s.Before (onText db ++ k)) :
    ∃ sK, sK.Before k ∧
      ReturnsAt (runHandler fuel .parseShowRetentionPoliciesStatement) s (.showRetentionPolicies db) sK (db == []) [.ON] := by
  obtain ⟨sK, hb, hr⟩ := parseOnDb_print s db k hex hk hs
  refine ⟨sK, hb, ?_⟩
  unfold ReturnsAt at hr ⊢
  simp only [runHandler, parseShowRetentionPolicies]
  split
  · next hp =>
    rw [if_pos hp] at hr
    intro lx s' h1 h2
    rw [P.run_bind _ _ s db s' (hr lx s' h1 h2)]; rfl
  · next hp =>
    rw [if_neg hp] at hr
    rw [P.run_bind _ _ s db sK hr]; rfl

/-- What KILL QUERY prints after its keywords. -/
def killQueryText (qid : Nat) (host : Str) : Str := ' ' :: (natDigits qid ++ onText host)

theorem killQuery_print (qid : Nat) (host : Str) :
    (Statement.killQuery qid host).print = tx "KILL QUERY" ++ killQueryText qid host := by
  have p1 : (Statement.killQuery qid host).print = tx "KILL QUERY " ++ natDigits qid ++ clauseOn host := rfl
  have e1 : tx "KILL QUERY " = tx "KILL QUERY" ++ [' '] := by decide +kernel
  rw [p1, e1, clauseOn_eq]
  simp only [killQueryText, List.append_assoc, List.cons_append, List.nil_append]

theorem numEnd_onText (host k : Str) (hk : NumEnd k) : NumEnd (onText host ++ k) := by
  unfold onText
  split
  · exact NumEnd.blank _
  · exact hk

/-- **Print → parse, KILL QUERY n [ON host].** -/
theorem killQuery_print_parse (fuel : Nat) (s : PState) (qid : Nat) (host k : Str) (hq : (qid : Int) ≤ maxUInt64)
    (hex : Expressible host) (hk : IdentEnd host k) (hkn : NumEnd k) (hs : s.Before (killQueryText qid host ++ k)) :
    ∃ sK, sK.Before k ∧
      ReturnsAt (runHandler fuel .parseKillQueryStatement) s (.killQuery qid host) sK (host == []) [.ON] := by
  have e : killQueryText qid host ++ k = ' ' :: (natDigits qid ++ (onText host ++ k)) := by
    simp only [killQueryText, List.append_assoc, List.cons_append]
  rw [e] at hs
  obtain ⟨s1, h1, b1⟩ := parseUInt64_piece s [' '] (natDigits qid) _ qid hq Gap.blank hs.around
    (scansAs_nat qid _ (numEnd_onText host k hkn))
  obtain ⟨sK, hb, hr⟩ := parseOnDb_print s1 host k hex hk b1
  refine ⟨sK, hb, ?_⟩
  unfold ReturnsAt at hr ⊢
  simp only [runHandler, parseKillQuery]
  split
  · next hp =>
    rw [if_pos hp] at hr
    intro lx s' h2 h3
    rw [P.run_bind _ _ s qid s1 h1, P.run_bind _ _ s1 host s' (hr lx s' h2 h3)]; rfl
  · next hp =>
    rw [if_neg hp] at hr
    rw [P.run_bind _ _ s qid s1 h1, P.run_bind _ _ s1 host sK hr]; rfl

/-! ### DROP SHARD -/

theorem dropShard_print (id : Nat) : (Statement.dropShard id).print = tx "DROP SHARD" ++ ' ' :: natDigits id := by
  have p1 : (Statement.dropShard id).print = tx "DROP SHARD " ++ natDigits id := rfl
  have e1 : tx "DROP SHARD " = tx "DROP SHARD" ++ [' '] := by decide +kernel
  rw [p1, e1]
  simp only [List.append_assoc, List.cons_append, List.nil_append]

/-- **Print → parse, DROP SHARD n.** -/
theorem dropShard_print_parse (fuel : Nat) (s : PState) (id : Nat) (k : Str) (hid : (id : Int) ≤ maxUInt64)
    (hk : NumEnd k) (hs : s.Before (' ' :: natDigits id ++ k)) :
    ∃ s', (runHandler fuel .parseDropShardStatement).run s = .ok (.dropShard id, s') ∧ s'.Before k := by
  obtain ⟨s1, h1, b1⟩ := parseUInt64_piece s [' '] (natDigits id) k id hid Gap.blank hs.around (scansAs_nat id k hk)
  refine ⟨s1, ?_, b1⟩
  simp only [runHandler]
  rw [P.run_bind _ _ s id s1 h1]; rfl

/-! ### DROP SUBSCRIPTION -/

/-- What DROP SUBSCRIPTION prints after its keywords: `<name> ON <db>.<rp>`. -/
def dropSubscriptionText (name db rp : Str) : Str :=
  ' ' :: (qi name ++ ' ' :: (Token.ON.str ++ ' ' :: (qi db ++ '.' :: qi rp)))

theorem dropSubscription_print (name db rp : Str) :
    (Statement.dropSubscription name db rp).print = tx "DROP SUBSCRIPTION" ++ dropSubscriptionText name db rp := by
  have p1 : (Statement.dropSubscription name db rp).print =
      tx "DROP SUBSCRIPTION " ++ qi name ++ tx " ON " ++ qi db ++ tx "." ++ qi rp := rfl
  have e1 : tx "DROP SUBSCRIPTION " = tx "DROP SUBSCRIPTION" ++ [' '] := by decide +kernel
  have e2 : tx "." = ['.'] := by decide +kernel
  rw [p1, e1, e2, tx_on]
  simp only [dropSubscriptionText, List.append_assoc, List.cons_append, List.nil_append]

/-- **Print → parse, DROP SUBSCRIPTION name ON db.rp.** -/
theorem dropSubscription_print_parse (fuel : Nat) (s : PState) (name db rp k : Str) (hex1 : Expressible name)
    (hex2 : Expressible db) (hex3 : Expressible rp) (hk : IdentEnd rp k)
    (hs : s.Before (dropSubscriptionText name db rp ++ k)) :
    ∃ s', (runHandler fuel .parseDropSubscriptionStatement).run s = .ok (.dropSubscription name db rp, s') ∧
      s'.Before k := by
  have e : dropSubscriptionText name db rp ++ k =
      ' ' :: (qi name ++ ' ' :: (Token.ON.str ++ ' ' :: (qi db ++ '.' :: (qi rp ++ k)))) := by
    simp only [dropSubscriptionText, List.append_assoc, List.cons_append]
  rw [e] at hs
  obtain ⟨s1, h1, b1⟩ := parseIdent_piece s [' '] (qi name) _ name Gap.blank hs.around
    (scansAs_ident name _ hex1 (.of_wordEnd (WordEnd.blank _)))
  obtain ⟨s2, h2, b2⟩ := expectTok_piece s1 [' '] Token.ON.str _ .ON [] ["ON"] Gap.blank b1.around
    (scansAs_kw .ON _ (by decide +kernel) (WordEnd.blank _))
  obtain ⟨s3, h3, b3⟩ := parseIdent_piece s2 [' '] (qi db) _ db Gap.blank b2.around
    (scansAs_ident db _ hex2 (.of_wordEnd (WordEnd.dot _)))
  obtain ⟨dot, s4, h4, t4, _, b4⟩ := pscan_piece s3 ['.'] (qi rp ++ k) .DOT [] b3
    (scansAs_dot _ (quoteIdent_head_not_digit rp k))
  obtain ⟨s5, h5, b5⟩ := parseIdent_piece s4 [] (qi rp) k rp Gap.none b4.around (scansAs_ident rp k hex3 hk)
  refine ⟨s5, ?_, b5⟩
  simp only [runHandler, parseDropSubscription]
  rw [P.run_bind _ _ s name s1 h1, P.run_bind _ _ s1 () s2 h2, P.run_bind _ _ s2 db s3 h3,
    P.run_bind _ _ s3 dot s4 h4]
  simp only [t4, ne_eq, not_true_eq_false, if_false]
  rw [P.run_bind _ _ s4 rp s5 h5]
  rfl

/-! ### CREATE USER, SET PASSWORD

The printed form carries `[REDACTED]` in place of the password literal; as the property oracle
does, the theorems are about the text with `QuoteString(password)` put back in that place. -/

/-- ` WITH ALL PRIVILEGES` for an admin. -/
def adminText (admin : Bool) : Str :=
  if admin then ' ' :: (Token.WITH.str ++ ' ' :: (Token.ALL.str ++ ' ' :: Token.PRIVILEGES.str)) else []

/-- What CREATE USER prints after its keywords, with `pwPiece` where the password goes. -/
def createUserText (name pwPiece : Str) (admin : Bool) : Str :=
  ' ' :: (qi name ++ ' ' :: (Token.WITH.str ++ ' ' :: (Token.PASSWORD.str ++ ' ' :: (pwPiece ++ adminText admin))))

theorem createUser_print (name pw : Str) (admin : Bool) :
    (Statement.createUser name pw admin).print = tx "CREATE USER" ++ createUserText name (tx "[REDACTED]") admin := by
  have p1 : (Statement.createUser name pw admin).print =
      tx "CREATE USER " ++ qi name ++ tx " WITH PASSWORD [REDACTED]" ++
        (if admin then tx " WITH ALL PRIVILEGES" else []) := rfl
  have e1 : tx "CREATE USER " = tx "CREATE USER" ++ [' '] := by decide +kernel
  have e2 : tx " WITH PASSWORD [REDACTED]" =
      ' ' :: (Token.WITH.str ++ ' ' :: (Token.PASSWORD.str ++ ' ' :: tx "[REDACTED]")) := by decide +kernel
  have e3 : tx " WITH ALL PRIVILEGES" =
      ' ' :: (Token.WITH.str ++ ' ' :: (Token.ALL.str ++ ' ' :: Token.PRIVILEGES.str)) := by decide +kernel
  rw [p1, e1, e2, e3]
  cases admin <;>
    simp [createUserText, adminText, List.append_assoc, List.cons_append, List.nil_append]

/-- **Print → parse, CREATE USER name WITH PASSWORD 'pw' [WITH ALL PRIVILEGES]** (password literal
put back). Without the admin clause the handler ends by looking one token ahead for `WITH`. -/
theorem createUser_print_parse (fuel : Nat) (s : PState) (name pw : Str) (admin : Bool) (k : Str)
    (hex1 : Expressible name) (hex2 : Expressible pw) (hk : admin = true → WordEnd k)
    (hs : s.Before (createUserText name (quoteString pw) admin ++ k)) :
    ∃ sK, sK.Before k ∧
      ReturnsAt (runHandler fuel .parseCreateUserStatement) s (.createUser name pw admin) sK (!admin) [.WITH] := by
  have e : createUserText name (quoteString pw) admin ++ k = ' ' :: (qi name ++ ' ' :: (Token.WITH.str ++
      ' ' :: (Token.PASSWORD.str ++ ' ' :: (quoteString pw ++ (adminText admin ++ k))))) := by
    simp only [createUserText, List.append_assoc, List.cons_append]
  rw [e] at hs
  obtain ⟨s1, h1, b1⟩ := parseIdent_piece s [' '] (qi name) _ name Gap.blank hs.around
    (scansAs_ident name _ hex1 (.of_wordEnd (WordEnd.blank _)))
  obtain ⟨s2, h2, b2⟩ := parseTokens_cons_piece s1 [' '] Token.WITH.str _ .WITH [.PASSWORD] [] Gap.blank b1.around
    (scansAs_kw .WITH _ (by decide +kernel) (WordEnd.blank _))
  obtain ⟨s3, h3, b3⟩ := parseTokens_cons_piece s2 [' '] Token.PASSWORD.str _ .PASSWORD [] [] Gap.blank b2.around
    (scansAs_kw .PASSWORD _ (by decide +kernel) (WordEnd.blank _))
  have h23 : (parseTokens [.WITH, .PASSWORD]).run s1 = .ok ((), s3) := by rw [h2, h3]; rfl
  obtain ⟨s4, h4, b4⟩ := parseString_piece s3 [' '] (quoteString pw) _ pw Gap.blank b3.around (scansAs_string pw _ hex2)
  simp only [runHandler, parseCreateUser]
  cases admin with
  | false =>
    refine ⟨s4, by simpa [adminText] using b4, ?_⟩
    unfold ReturnsAt
    rw [if_pos (by simp)]
    intro lx s' hp hne
    rw [P.run_bind _ _ s name s1 h1, P.run_bind _ _ s1 () s3 h23, P.run_bind _ _ s3 pw s4 h4,
      P.run_bind _ _ s4 false s' (optTok_absent .WITH hp (by simpa using hne))]
    rfl
  | true =>
    simp only [adminText, if_true, List.append_assoc, List.cons_append] at b4
    obtain ⟨s5, h5, b5⟩ := optTok_piece s4 [' '] Token.WITH.str _ .WITH [] Gap.blank b4.around
      (scansAs_kw .WITH _ (by decide +kernel) (WordEnd.blank _))
    obtain ⟨s6, h6, b6⟩ := parseTokens_cons_piece s5 [' '] Token.ALL.str _ .ALL [.PRIVILEGES] [] Gap.blank b5.around
      (scansAs_kw .ALL _ (by decide +kernel) (WordEnd.blank _))
    obtain ⟨s7, h7, b7⟩ := parseTokens_cons_piece s6 [' '] Token.PRIVILEGES.str k .PRIVILEGES [] [] Gap.blank b6.around
      (scansAs_kw .PRIVILEGES _ (by decide +kernel) (hk rfl))
    have h67 : (parseTokens [.ALL, .PRIVILEGES]).run s5 = .ok ((), s7) := by rw [h6, h7]; rfl
    refine ⟨s7, b7, ReturnsAt.exact ?_⟩
    rw [P.run_bind _ _ s name s1 h1, P.run_bind _ _ s1 () s3 h23, P.run_bind _ _ s3 pw s4 h4,
      P.run_bind _ _ s4 true s5 h5]
    simp only [if_true]
    rw [P.run_bind _ _ s5 () s7 h67]
    rfl

/-- What SET PASSWORD prints after `SET PASSWORD FOR`, with `pwPiece` where the password goes. -/
def setPasswordText (name pwPiece : Str) : Str := ' ' :: (qi name ++ ' ' :: '=' :: ' ' :: pwPiece)

theorem setPassword_print (name pw : Str) :
    (Statement.setPasswordUser pw name).print = tx "SET PASSWORD FOR" ++ setPasswordText name (tx "[REDACTED]") := by
  have p1 : (Statement.setPasswordUser pw name).print = tx "SET PASSWORD FOR " ++ qi name ++ tx " = [REDACTED]" := rfl
  have e1 : tx "SET PASSWORD FOR " = tx "SET PASSWORD FOR" ++ [' '] := by decide +kernel
  have e2 : tx " = [REDACTED]" = ' ' :: '=' :: ' ' :: tx "[REDACTED]" := by decide +kernel
  rw [p1, e1, e2]
  simp only [setPasswordText, List.append_assoc, List.cons_append, List.nil_append]

/-- **Print → parse, SET PASSWORD FOR name = 'pw'** (password literal put back). -/
theorem setPassword_print_parse (fuel : Nat) (s : PState) (name pw k : Str)
    (hex1 : Expressible name) (hex2 : Expressible pw)
    (hs : s.Before (setPasswordText name (quoteString pw) ++ k)) :
    ∃ s', (runHandler fuel .parseSetPasswordUserStatement).run s = .ok (.setPasswordUser pw name, s') ∧
      s'.Before k := by
  have e : setPasswordText name (quoteString pw) ++ k = ' ' :: (qi name ++ ' ' :: ('=' :: ' ' :: (quoteString pw ++ k))) := by
    simp only [setPasswordText, List.append_assoc, List.cons_append]
  rw [e] at hs
  obtain ⟨s1, h1, b1⟩ := parseIdent_piece s [' '] (qi name) _ name Gap.blank hs.around
    (scansAs_ident name _ hex1 (.of_wordEnd (WordEnd.blank _)))
  obtain ⟨s2, h2, b2⟩ := expectTok_piece s1 [' '] ['='] _ .EQ [] ["="] Gap.blank b1.around
    (scansAs_eq _ (by intro t h; cases h))
  obtain ⟨s3, h3, b3⟩ := parseString_piece s2 [' '] (quoteString pw) k pw Gap.blank b2.around (scansAs_string pw k hex2)
  refine ⟨s3, ?_, b3⟩
  simp only [runHandler, parseSetPasswordUser]
  rw [P.run_bind _ _ s name s1 h1, P.run_bind _ _ s1 () s2 h2, P.run_bind _ _ s2 pw s3 h3]
  rfl

/-! ### GRANT, REVOKE -/

/-- `Privilege.String()` in pieces. -/
def privText : Privilege → Str
  | .none => Privilege.print .none
  | .read => Token.READ.str
  | .write => Token.WRITE.str
  | .all => Token.ALL.str ++ ' ' :: Token.PRIVILEGES.str

theorem privilege_print (p : Privilege) : p.print = privText p := by
  cases p
  · rfl
  · show tx "READ" = _; decide +kernel
  · show tx "WRITE" = _; decide +kernel
  · show tx "ALL PRIVILEGES" = _; decide +kernel

/-- `parsePrivilege` on a printed privilege (`NO PRIVILEGES` is never produced by the parser). -/
theorem parsePrivilege_print (s : PState) (p : Privilege) (k : Str) (hp : p ≠ .none) (hk : WordEnd k)
    (hs : s.Before (' ' :: (privText p ++ k))) :
    ∃ s', parsePrivilege.run s = .ok (p, s') ∧ s'.Before k := by
  cases p with
  | none => exact absurd rfl hp
  | read =>
    obtain ⟨lx, s1, h1, t1, _, b1⟩ := scanIW_piece s [' '] Token.READ.str k .READ [] Gap.blank hs.around
      (scansAs_kw .READ k (by decide +kernel) hk)
    refine ⟨s1, ?_, b1⟩
    unfold parsePrivilege
    rw [P.run_bind _ _ s lx s1 h1]
    simp only [t1]
    rfl
  | write =>
    obtain ⟨lx, s1, h1, t1, _, b1⟩ := scanIW_piece s [' '] Token.WRITE.str k .WRITE [] Gap.blank hs.around
      (scansAs_kw .WRITE k (by decide +kernel) hk)
    refine ⟨s1, ?_, b1⟩
    unfold parsePrivilege
    rw [P.run_bind _ _ s lx s1 h1]
    simp only [t1]
    rfl
  | all =>
    have e : ' ' :: (privText .all ++ k) = ' ' :: (Token.ALL.str ++ ' ' :: (Token.PRIVILEGES.str ++ k)) := by
      show ' ' :: ((Token.ALL.str ++ ' ' :: Token.PRIVILEGES.str) ++ k) = _
      simp only [List.append_assoc, List.cons_append]
    rw [e] at hs
    obtain ⟨lx, s1, h1, t1, _, b1⟩ := scanIW_piece s [' '] Token.ALL.str _ .ALL [] Gap.blank hs.around
      (scansAs_kw .ALL _ (by decide +kernel) (WordEnd.blank _))
    obtain ⟨lx2, s2, h2, t2, _, b2⟩ := scanIW_piece s1 [' '] Token.PRIVILEGES.str k .PRIVILEGES [] Gap.blank b1.around
      (scansAs_kw .PRIVILEGES k (by decide +kernel) hk)
    refine ⟨s2, ?_, b2⟩
    unfold parsePrivilege
    rw [P.run_bind _ _ s lx s1 h1]
    simp only [t1]
    rw [P.run_bind _ _ s1 lx2 s2 h2]
    simp only [t2, ne_eq, not_true_eq_false, if_false]
    rfl

/-- What GRANT prints after the keyword: `<privilege> ON <db> TO <user>`. -/
def grantText (p : Privilege) (on user : Str) : Str :=
  ' ' :: (privText p ++ ' ' :: (Token.ON.str ++ ' ' :: (qi on ++ ' ' :: (Token.TO.str ++ ' ' :: qi user))))

/-- What `GRANT ALL PRIVILEGES TO <user>` prints after the keyword. -/
def grantAdminText (user : Str) : Str :=
  ' ' :: (privText .all ++ ' ' :: (Token.TO.str ++ ' ' :: qi user))

theorem grant_print (p : Privilege) (on user : Str) :
    (Statement.grant p on user).print = tx "GRANT" ++ grantText p on user ∧
    (Statement.grantAdmin user).print = tx "GRANT" ++ grantAdminText user := by
  have p1 : (Statement.grant p on user).print =
      tx "GRANT " ++ p.print ++ tx " ON " ++ qi on ++ tx " TO " ++ qi user := rfl
  have p2 : (Statement.grantAdmin user).print = tx "GRANT ALL PRIVILEGES TO " ++ qi user := rfl
  have e1 : tx "GRANT " = tx "GRANT" ++ [' '] := by decide +kernel
  have e2 : tx " TO " = ' ' :: (Token.TO.str ++ [' ']) := by decide +kernel
  have e3 : tx "GRANT ALL PRIVILEGES TO " =
      tx "GRANT" ++ ' ' :: (privText .all ++ ' ' :: (Token.TO.str ++ [' '])) := by decide +kernel
  rw [p1, p2, e1, e2, e3, tx_on, privilege_print]
  simp only [grantText, grantAdminText, List.append_assoc, List.cons_append, List.nil_append, and_self]

/-- **Print → parse, GRANT <privilege> ON <db> TO <user>** (every privilege the parser can
produce: READ, WRITE, ALL PRIVILEGES). -/
theorem grant_print_parse (fuel : Nat) (s : PState) (p : Privilege) (on user k : Str) (hp : p ≠ .none)
    (hex1 : Expressible on) (hex2 : Expressible user) (hk : IdentEnd user k)
    (hs : s.Before (grantText p on user ++ k)) :
    ∃ s', (runHandler fuel .parseGrantStatement).run s = .ok (.grant p on user, s') ∧ s'.Before k := by
  have e : grantText p on user ++ k = ' ' :: (privText p ++
      ' ' :: (Token.ON.str ++ ' ' :: (qi on ++ ' ' :: (Token.TO.str ++ ' ' :: (qi user ++ k))))) := by
    simp only [grantText, List.append_assoc, List.cons_append]
  rw [e] at hs
  obtain ⟨s1, h1, b1⟩ := parsePrivilege_print s p _ hp (WordEnd.blank _) hs
  obtain ⟨lx, s2, h2, t2, _, b2⟩ := scanIW_piece s1 [' '] Token.ON.str _ .ON [] Gap.blank b1.around
    (scansAs_kw .ON _ (by decide +kernel) (WordEnd.blank _))
  obtain ⟨s3, h3, b3⟩ := parseIdent_piece s2 [' '] (qi on) _ on Gap.blank b2.around
    (scansAs_ident on _ hex1 (.of_wordEnd (WordEnd.blank _)))
  obtain ⟨s4, h4, b4⟩ := expectTok_piece s3 [' '] Token.TO.str _ .TO [] ["TO"] Gap.blank b3.around
    (scansAs_kw .TO _ (by decide +kernel) (WordEnd.blank _))
  obtain ⟨s5, h5, b5⟩ := parseIdent_piece s4 [' '] (qi user) k user Gap.blank b4.around (scansAs_ident user k hex2 hk)
  refine ⟨s5, ?_, b5⟩
  simp only [runHandler, parseGrant]
  rw [P.run_bind _ _ s p s1 h1, P.run_bind _ _ s1 lx s2 h2]
  simp only [t2, if_true]
  rw [P.run_bind _ _ s2 on s3 h3, P.run_bind _ _ s3 () s4 h4, P.run_bind _ _ s4 user s5 h5]
  rfl

/-- **Print → parse, GRANT ALL PRIVILEGES TO <user>.** -/
theorem grantAdmin_print_parse (fuel : Nat) (s : PState) (user k : Str)
    (hex : Expressible user) (hk : IdentEnd user k) (hs : s.Before (grantAdminText user ++ k)) :
    ∃ s', (runHandler fuel .parseGrantStatement).run s = .ok (.grantAdmin user, s') ∧ s'.Before k := by
  have e : grantAdminText user ++ k = ' ' :: (privText .all ++ ' ' :: (Token.TO.str ++ ' ' :: (qi user ++ k))) := by
    simp only [grantAdminText, List.append_assoc, List.cons_append]
  rw [e] at hs
  obtain ⟨s1, h1, b1⟩ := parsePrivilege_print s .all _ (by decide) (WordEnd.blank _) hs
  obtain ⟨lx, s2, h2, t2, _, b2⟩ := scanIW_piece s1 [' '] Token.TO.str _ .TO [] Gap.blank b1.around
    (scansAs_kw .TO _ (by decide +kernel) (WordEnd.blank _))
  obtain ⟨s3, h3, b3⟩ := parseIdent_piece s2 [' '] (qi user) k user Gap.blank b2.around (scansAs_ident user k hex hk)
  refine ⟨s3, ?_, b3⟩
  simp only [runHandler, parseGrant]
  rw [P.run_bind _ _ s .all s1 h1, P.run_bind _ _ s1 lx s2 h2]
  simp only [t2, reduceCtorEq, if_false, if_true, ne_eq, not_true_eq_false]
  rw [P.run_bind _ _ s2 user s3 h3]
  rfl

/-- What REVOKE prints after the keyword: `<privilege> ON <db> FROM <user>`. -/
def revokeText (p : Privilege) (on user : Str) : Str :=
  ' ' :: (privText p ++ ' ' :: (Token.ON.str ++ ' ' :: (qi on ++ ' ' :: (Token.FROM.str ++ ' ' :: qi user))))

/-- What `REVOKE ALL PRIVILEGES FROM <user>` prints after the keyword. -/
def revokeAdminText (user : Str) : Str :=
  ' ' :: (privText .all ++ ' ' :: (Token.FROM.str ++ ' ' :: qi user))

theorem revoke_print (p : Privilege) (on user : Str) :
    (Statement.revoke p on user).print = tx "REVOKE" ++ revokeText p on user ∧
    (Statement.revokeAdmin user).print = tx "REVOKE" ++ revokeAdminText user := by
  have p1 : (Statement.revoke p on user).print =
      tx "REVOKE " ++ p.print ++ tx " ON " ++ qi on ++ tx " FROM " ++ qi user := rfl
  have p2 : (Statement.revokeAdmin user).print = tx "REVOKE ALL PRIVILEGES FROM " ++ qi user := rfl
  have e1 : tx "REVOKE " = tx "REVOKE" ++ [' '] := by decide +kernel
  have e2 : tx " FROM " = ' ' :: (Token.FROM.str ++ [' ']) := by decide +kernel
  have e3 : tx "REVOKE ALL PRIVILEGES FROM " =
      tx "REVOKE" ++ ' ' :: (privText .all ++ ' ' :: (Token.FROM.str ++ [' '])) := by decide +kernel
  rw [p1, p2, e1, e2, e3, tx_on, privilege_print]
  simp only [revokeText, revokeAdminText, List.append_assoc, List.cons_append, List.nil_append, and_self]

/-- **Print → parse, REVOKE <privilege> ON <db> FROM <user>** (every privilege the parser can
produce: READ, WRITE, ALL PRIVILEGES). -/
theorem revoke_print_parse (fuel : Nat) (s : PState) (p : Privilege) (on user k : Str) (hp : p ≠ .none)
    (hex1 : Expressible on) (hex2 : Expressible user) (hk : IdentEnd user k)
    (hs : s.Before (revokeText p on user ++ k)) :
    ∃ s', (runHandler fuel .parseRevokeStatement).run s = .ok (.revoke p on user, s') ∧ s'.Before k := by
  have e : revokeText p on user ++ k = ' ' :: (privText p ++
      ' ' :: (Token.ON.str ++ ' ' :: (qi on ++ ' ' :: (Token.FROM.str ++ ' ' :: (qi user ++ k))))) := by
    simp only [revokeText, List.append_assoc, List.cons_append]
  rw [e] at hs
  obtain ⟨s1, h1, b1⟩ := parsePrivilege_print s p _ hp (WordEnd.blank _) hs
  obtain ⟨lx, s2, h2, t2, _, b2⟩ := scanIW_piece s1 [' '] Token.ON.str _ .ON [] Gap.blank b1.around
    (scansAs_kw .ON _ (by decide +kernel) (WordEnd.blank _))
  obtain ⟨s3, h3, b3⟩ := parseIdent_piece s2 [' '] (qi on) _ on Gap.blank b2.around
    (scansAs_ident on _ hex1 (.of_wordEnd (WordEnd.blank _)))
  obtain ⟨s4, h4, b4⟩ := expectTok_piece s3 [' '] Token.FROM.str _ .FROM [] ["FROM"] Gap.blank b3.around
    (scansAs_kw .FROM _ (by decide +kernel) (WordEnd.blank _))
  obtain ⟨s5, h5, b5⟩ := parseIdent_piece s4 [' '] (qi user) k user Gap.blank b4.around (scansAs_ident user k hex2 hk)
  refine ⟨s5, ?_, b5⟩
  simp only [runHandler, parseRevoke]
  rw [P.run_bind _ _ s p s1 h1, P.run_bind _ _ s1 lx s2 h2]
  simp only [t2, if_true]
  rw [P.run_bind _ _ s2 on s3 h3, P.run_bind _ _ s3 () s4 h4, P.run_bind _ _ s4 user s5 h5]
  rfl

/-- **Print → parse, REVOKE ALL PRIVILEGES FROM <user>.** -/
theorem revokeAdmin_print_parse (fuel : Nat) (s : PState) (user k : Str)
    (hex : Expressible user) (hk : IdentEnd user k) (hs : s.Before (revokeAdminText user ++ k)) :
    ∃ s', (runHandler fuel .parseRevokeStatement).run s = .ok (.revokeAdmin user, s') ∧ s'.Before k := by
  have e : revokeAdminText user ++ k = ' ' :: (privText .all ++ ' ' :: (Token.FROM.str ++ ' ' :: (qi user ++ k))) := by
    simp only [revokeAdminText, List.append_assoc, List.cons_append]
  rw [e] at hs
  obtain ⟨s1, h1, b1⟩ := parsePrivilege_print s .all _ (by decide) (WordEnd.blank _) hs
  obtain ⟨lx, s2, h2, t2, _, b2⟩ := scanIW_piece s1 [' '] Token.FROM.str _ .FROM [] Gap.blank b1.around
    (scansAs_kw .FROM _ (by decide +kernel) (WordEnd.blank _))
  obtain ⟨s3, h3, b3⟩ := parseIdent_piece s2 [' '] (qi user) k user Gap.blank b2.around (scansAs_ident user k hex hk)
  refine ⟨s3, ?_, b3⟩
  simp only [runHandler, parseRevoke]
  rw [P.run_bind _ _ s .all s1 h1, P.run_bind _ _ s1 lx s2 h2]
  simp only [t2, reduceCtorEq, if_false, if_true, ne_eq, not_true_eq_false]
  rw [P.run_bind _ _ s2 user s3 h3]
  rfl

/-! ### CREATE RETENTION POLICY -/

/-- ` SHARD DURATION <d>` when positive (the printer's test). -/
def shardText (sh : Int) : Str :=
  if sh > 0 then ' ' :: (Token.SHARD.str ++ ' ' :: (Token.DURATION.str ++ ' ' :: formatDuration sh)) else []

/-- ` DEFAULT` when set. -/
def defaultText (b : Bool) : Str := if b then ' ' :: Token.DEFAULT.str else []

/-- ` FUTURE LIMIT <d>` / ` PAST LIMIT <d>` when not zero. -/
def limitText (t : Token) (v : Int) : Str :=
  if v ≠ 0 then ' ' :: (t.str ++ ' ' :: (Token.LIMIT.str ++ ' ' :: formatDuration v)) else []

theorem optText_shard (sh : Int) : OptText (shardText sh) := by
  unfold shardText; split
  · exact Or.inr ⟨_, rfl⟩
  · exact Or.inl rfl
theorem optText_default (b : Bool) : OptText (defaultText b) := by
  unfold defaultText; split
  · exact Or.inr ⟨_, rfl⟩
  · exact Or.inl rfl
theorem optText_limit (t : Token) (v : Int) : OptText (limitText t v) := by
  unfold limitText; split
  · exact Or.inr ⟨_, rfl⟩
  · exact Or.inl rfl

theorem nextNot_defaultText (b : Bool) (rest : Str) (t : Token) (hne : Token.DEFAULT ≠ t) (hr : NextNot rest t)
    (hw : WordEnd rest) : NextNot (defaultText b ++ rest) t := by
  unfold defaultText; split
  · exact nextNot_kw .DEFAULT t rest (by decide +kernel) hne hw
  · exact hr

theorem nextNot_limitText (T : Token) (v : Int) (rest : Str) (t : Token) (hT : T.isKw = true) (hne : T ≠ t)
    (hr : NextNot rest t) : NextNot (limitText T v ++ rest) t := by
  unfold limitText; split
  · simp only [List.append_assoc, List.cons_append]
    exact nextNot_kw T t _ hT hne (WordEnd.blank _)
  · exact hr

/-- The optional `SHARD DURATION` clause of CREATE RETENTION POLICY on its printed form. -/
theorem crp_shard (s : PState) (sh : Int) (rest : Str) (h0 : 0 ≤ sh) (hm : sh ≤ maxInt64)
    (hs : s.Around (shardText sh ++ rest)) (hn : NextNot rest .SHARD) (hd : DurEnd rest) :
    ∃ s', (do
        if ← optTok .SHARD then
          expectTok .DURATION ["DURATION"]
          parseShardDuration
        else pure 0 : P Int).run s = .ok (sh, s') ∧ s'.Around rest := by
  unfold shardText at hs
  by_cases hp : sh > 0
  · rw [if_pos hp] at hs
    simp only [List.append_assoc, List.cons_append] at hs
    obtain ⟨s1, h1, b1⟩ := optTok_piece s [' '] Token.SHARD.str _ .SHARD [] Gap.blank hs
      (scansAs_kw .SHARD _ (by decide +kernel) (WordEnd.blank _))
    obtain ⟨s2, h2, b2⟩ := expectTok_piece s1 [' '] Token.DURATION.str _ .DURATION [] ["DURATION"] Gap.blank b1.around
      (scansAs_kw .DURATION _ (by decide +kernel) (WordEnd.blank _))
    obtain ⟨s3, h3, b3⟩ := parseShardDuration_piece s2 sh rest h0 hm b2.around hd
    refine ⟨s3, ?_, b3.around⟩
    rw [P.run_bind _ _ s true s1 h1]
    simp only [if_true]
    rw [P.run_bind _ _ s1 () s2 h2]
    exact h3
  · rw [if_neg hp] at hs
    have : sh = 0 := by omega
    subst this
    obtain ⟨s1, h1, b1⟩ := optTok_absent_around .SHARD s rest hs hn
    refine ⟨s1, ?_, b1⟩
    rw [P.run_bind _ _ s false s1 h1]
    rfl

/-- The optional `DEFAULT` of CREATE RETENTION POLICY. -/
theorem crp_default (s : PState) (b : Bool) (rest : Str) (hs : s.Around (defaultText b ++ rest))
    (hn : NextNot rest .DEFAULT) (hw : WordEnd rest) :
    ∃ s', (optTok .DEFAULT).run s = .ok (b, s') ∧ s'.Around rest := by
  unfold defaultText at hs
  cases b with
  | true =>
    obtain ⟨s1, h1, b1⟩ := optTok_piece s [' '] Token.DEFAULT.str rest .DEFAULT [] Gap.blank hs
      (scansAs_kw .DEFAULT rest (by decide +kernel) hw)
    exact ⟨s1, h1, b1.around⟩
  | false => exact optTok_absent_around .DEFAULT s rest hs hn

/-- The optional `FUTURE LIMIT` / `PAST LIMIT` clause of CREATE RETENTION POLICY. -/
theorem crp_limit (t : Token) (ht : t.isKw = true) (s : PState) (v : Int) (rest : Str) (h0 : 0 ≤ v) (hm : v ≤ maxInt64)
    (hs : s.Around (limitText t v ++ rest)) (hn : NextNot rest t) (hd : DurEnd rest) :
    ∃ s', (do if ← optTok t then parseWriteLimit else pure 0 : P Int).run s = .ok (v, s') ∧ s'.Around rest := by
  unfold limitText at hs
  by_cases hp : v ≠ 0
  · rw [if_pos hp] at hs
    simp only [List.append_assoc, List.cons_append] at hs
    obtain ⟨s1, h1, b1⟩ := optTok_piece s [' '] t.str _ t [] Gap.blank hs (scansAs_kw t _ ht (WordEnd.blank _))
    obtain ⟨s2, h2, b2⟩ := parseWriteLimit_piece s1 v rest h0 hm b1.around hd
    refine ⟨s2, ?_, b2.around⟩
    rw [P.run_bind _ _ s true s1 h1]
    simp only [if_true]
    exact h2
  · rw [if_neg hp] at hs
    have : v = 0 := by omega
    subst this
    obtain ⟨s1, h1, b1⟩ := optTok_absent_around t s rest hs hn
    refine ⟨s1, ?_, b1⟩
    rw [P.run_bind _ _ s false s1 h1]
    rfl

/-- What CREATE RETENTION POLICY prints after its keywords. -/
def crpText (name db : Str) (d : Int) (n : Nat) (sh : Int) (dflt : Bool) (fu pa : Int) : Str :=
  ' ' :: (qi name ++ ' ' :: (Token.ON.str ++ ' ' :: (qi db ++ ' ' :: (Token.DURATION.str ++ ' ' :: (formatDuration d ++
    ' ' :: (Token.REPLICATION.str ++ ' ' :: (natDigits n ++ (shardText sh ++ (defaultText dflt ++
      (limitText .FUTURE fu ++ limitText .PAST pa))))))))))

theorem createRetentionPolicy_print (name db : Str) (d : Int) (n : Nat) (sh : Int) (dflt : Bool) (fu pa : Int) :
    (Statement.createRetentionPolicy name db d (n : Int) dflt sh fu pa).print =
      tx "CREATE RETENTION POLICY" ++ crpText name db d n sh dflt fu pa := by
  have p1 : (Statement.createRetentionPolicy name db d (n : Int) dflt sh fu pa).print =
      tx "CREATE RETENTION POLICY " ++ qi name ++ tx " ON " ++ qi db ++ tx " DURATION " ++ formatDuration d ++
      tx " REPLICATION " ++ intDigits (n : Int) ++
      (if sh > 0 then tx " SHARD DURATION " ++ formatDuration sh else []) ++
      (if dflt then tx " DEFAULT" else []) ++
      (if fu ≠ 0 then tx " FUTURE LIMIT " ++ formatDuration fu else []) ++
      (if pa ≠ 0 then tx " PAST LIMIT " ++ formatDuration pa else []) := rfl
  have hd : intDigits (n : Int) = natDigits n := by unfold intDigits; simp
  have e1 : tx "CREATE RETENTION POLICY " = tx "CREATE RETENTION POLICY" ++ [' '] := by decide +kernel
  have e2 : tx " DURATION " = ' ' :: (Token.DURATION.str ++ [' ']) := by decide +kernel
  have e3 : tx " REPLICATION " = ' ' :: (Token.REPLICATION.str ++ [' ']) := by decide +kernel
  have e4 : tx " SHARD DURATION " = ' ' :: (Token.SHARD.str ++ ' ' :: (Token.DURATION.str ++ [' '])) := by
    decide +kernel
  have e5 : tx " DEFAULT" = ' ' :: Token.DEFAULT.str := by decide +kernel
  have e6 : tx " FUTURE LIMIT " = ' ' :: (Token.FUTURE.str ++ ' ' :: (Token.LIMIT.str ++ [' '])) := by decide +kernel
  have e7 : tx " PAST LIMIT " = ' ' :: (Token.PAST.str ++ ' ' :: (Token.LIMIT.str ++ [' '])) := by decide +kernel
  rw [p1, hd, e1, e2, e3, e4, e5, e6, e7, tx_on]
  unfold crpText shardText defaultText limitText
  split <;> split <;> split <;> split <;>
    simp only [List.append_assoc, List.cons_append, List.nil_append, List.append_nil]

/-- **Print → parse, CREATE RETENTION POLICY** with every combination of its optional clauses, for
all values in the ranges the parser guarantees (`ParseDuration` returns a non-negative `int64`,
the replication factor is read by `ParseInt(1, MaxInt32)`). A zero shard duration / write limit
prints nothing and is read back as zero. The handler ends around `k`: it looks one token ahead
unless the statement ends with `PAST LIMIT`; `k` must not begin with a token that opens one of
the optional clauses. -/
theorem createRetentionPolicy_print_parse (fuel : Nat) (s : PState) (name db : Str) (d : Int) (n : Nat)
    (sh : Int) (dflt : Bool) (fu pa : Int) (k : Str) (hex1 : Expressible name) (hex2 : Expressible db)
    (hd : 0 ≤ d ∧ d ≤ maxInt64) (hn : 1 ≤ n ∧ (n : Int) ≤ maxInt32) (hsh : 0 ≤ sh ∧ sh ≤ maxInt64)
    (hfu : 0 ≤ fu ∧ fu ≤ maxInt64) (hpa : 0 ≤ pa ∧ pa ≤ maxInt64) (hk : TokEnd k)
    (hstop : ∀ t ∈ [Token.SHARD, .DEFAULT, .FUTURE, .PAST], NextNot k t)
    (hs : s.Before (crpText name db d n sh dflt fu pa ++ k)) :
    ∃ s', (runHandler fuel .parseCreateRetentionPolicyStatement).run s =
        .ok (.createRetentionPolicy name db d (n : Int) dflt sh fu pa, s') ∧ s'.Around k := by
  have e : crpText name db d n sh dflt fu pa ++ k = ' ' :: (qi name ++ ' ' :: (Token.ON.str ++ ' ' :: (qi db ++
      ' ' :: (Token.DURATION.str ++ ' ' :: (formatDuration d ++ ' ' :: (Token.REPLICATION.str ++ ' ' :: (natDigits n ++
      (shardText sh ++ (defaultText dflt ++ (limitText .FUTURE fu ++ (limitText .PAST pa ++ k))))))))))) := by
    simp only [crpText, List.append_assoc, List.cons_append]
  rw [e] at hs
  -- what may follow each optional clause
  have k4 : TokEnd (limitText .PAST pa ++ k) := TokEnd.opt (optText_limit _ _) hk
  have k3 : TokEnd (limitText .FUTURE fu ++ (limitText .PAST pa ++ k)) := TokEnd.opt (optText_limit _ _) k4
  have k2 : TokEnd (defaultText dflt ++ (limitText .FUTURE fu ++ (limitText .PAST pa ++ k))) :=
    TokEnd.opt (optText_default _) k3
  have k1 : TokEnd (shardText sh ++ (defaultText dflt ++ (limitText .FUTURE fu ++ (limitText .PAST pa ++ k)))) :=
    TokEnd.opt (optText_shard _) k2
  have n4 : NextNot k .PAST := hstop _ (by simp)
  have n3 : NextNot (limitText .PAST pa ++ k) .FUTURE :=
    nextNot_limitText .PAST pa k .FUTURE (by decide +kernel) (by decide) (hstop _ (by simp))
  have n2 : NextNot (limitText .FUTURE fu ++ (limitText .PAST pa ++ k)) .DEFAULT :=
    nextNot_limitText .FUTURE fu _ .DEFAULT (by decide +kernel) (by decide)
      (nextNot_limitText .PAST pa k .DEFAULT (by decide +kernel) (by decide) (hstop _ (by simp)))
  have n1 : NextNot (defaultText dflt ++ (limitText .FUTURE fu ++ (limitText .PAST pa ++ k))) .SHARD :=
    nextNot_defaultText dflt _ .SHARD (by decide)
      (nextNot_limitText .FUTURE fu _ .SHARD (by decide +kernel) (by decide)
        (nextNot_limitText .PAST pa k .SHARD (by decide +kernel) (by decide) (hstop _ (by simp)))) k3.1
  obtain ⟨s1, h1, b1⟩ := parseIdent_piece s [' '] (qi name) _ name Gap.blank hs.around
    (scansAs_ident name _ hex1 (.of_wordEnd (WordEnd.blank _)))
  obtain ⟨s2, h2, b2⟩ := expectTok_piece s1 [' '] Token.ON.str _ .ON [] ["ON"] Gap.blank b1.around
    (scansAs_kw .ON _ (by decide +kernel) (WordEnd.blank _))
  obtain ⟨s3, h3, b3⟩ := parseIdent_piece s2 [' '] (qi db) _ db Gap.blank b2.around
    (scansAs_ident db _ hex2 (.of_wordEnd (WordEnd.blank _)))
  obtain ⟨s4, h4, b4⟩ := expectTok_piece s3 [' '] Token.DURATION.str _ .DURATION [] ["DURATION"] Gap.blank b3.around
    (scansAs_kw .DURATION _ (by decide +kernel) (WordEnd.blank _))
  obtain ⟨s5, h5, b5⟩ := parseDurationTok_piece s4 [' '] (formatDuration d) _ d hd.1 hd.2 Gap.blank b4.around
    (scansAs_dur d hd.1 _ (DurEnd.blank _))
  obtain ⟨s6, h6, b6⟩ := expectTok_piece s5 [' '] Token.REPLICATION.str _ .REPLICATION [] ["REPLICATION"] Gap.blank
    b5.around (scansAs_kw .REPLICATION _ (by decide +kernel) (WordEnd.blank _))
  obtain ⟨s7, h7, b7⟩ := parseIntRange_piece s6 [' '] (natDigits n) _ 1 maxInt32 n (by omega) hn.2
    (by have := hn.2; unfold maxInt32 at this; unfold maxInt64; omega) Gap.blank b6.around (scansAs_nat n _ k1.2.1)
  obtain ⟨s8, h8, b8⟩ := crp_shard s7 sh _ hsh.1 hsh.2 b7.around n1 k2.2.2
  obtain ⟨s9, h9, b9⟩ := crp_default s8 dflt _ b8 n2 k3.1
  obtain ⟨s10, h10, b10⟩ := crp_limit .FUTURE (by decide +kernel) s9 fu _ hfu.1 hfu.2 b9 n3 k4.2.2
  obtain ⟨s11, h11, b11⟩ := crp_limit .PAST (by decide +kernel) s10 pa k hpa.1 hpa.2 b10 n4 hk.2.2
  refine ⟨s11, ?_, b11⟩
  simp only [runHandler, parseCreateRetentionPolicy]
  rw [P.run_bind _ _ s name s1 h1, P.run_bind _ _ s1 () s2 h2, P.run_bind _ _ s2 db s3 h3,
    P.run_bind _ _ s3 () s4 h4, P.run_bind _ _ s4 d s5 h5, P.run_bind _ _ s5 () s6 h6,
    P.run_bind _ _ s6 (n : Int) s7 h7, P.run_bind _ _ s7 sh s8 h8, P.run_bind _ _ s8 dflt s9 h9,
    P.run_bind _ _ s9 fu s10 h10, P.run_bind _ _ s10 pa s11 h11]
  rfl

/-! ### CREATE DATABASE (without options), SHOW STATS / SHOW DIAGNOSTICS [FOR '<module>'] -/

theorem createDatabase_plain_print (name : Str) :
    (Statement.createDatabase name false none none [] 0 none none).print = tx "CREATE DATABASE" ++ ' ' :: qi name := by
  have p1 : (Statement.createDatabase name false none none [] 0 none none).print =
      tx "CREATE DATABASE " ++ qi name ++ [] := rfl
  have e1 : tx "CREATE DATABASE " = tx "CREATE DATABASE" ++ [' '] := by decide +kernel
  rw [p1, e1]
  simp only [List.append_assoc, List.cons_append, List.nil_append, List.append_nil]

/-- **Print → parse, CREATE DATABASE name** (no `WITH` clause): the handler reads the name, looks
one token ahead for `WITH` and stays around `k`. -/
theorem createDatabase_plain_print_parse (fuel : Nat) (s : PState) (name k : Str) (hex : Expressible name)
    (hk : IdentEnd name k) (hstop : NextNot k .WITH) (hs : s.Before (' ' :: qi name ++ k)) :
    ∃ s', (runHandler fuel .parseCreateDatabaseStatement).run s =
        .ok (.createDatabase name false none none [] 0 none none, s') ∧ s'.Around k := by
  obtain ⟨s1, h1, b1⟩ := parseIdent_piece s [' '] (qi name) k name Gap.blank hs.around (scansAs_ident name k hex hk)
  obtain ⟨s2, h2, b2⟩ := optTok_absent_around .WITH s1 k b1.around hstop
  refine ⟨s2, ?_, b2⟩
  simp only [runHandler, parseCreateDatabase]
  rw [P.run_bind _ _ s name s1 h1, P.run_bind _ _ s1 false s2 h2]
  rfl

/-- ` FOR '<module>'` when the module is not empty (the printers' test). -/
def forText (m : Str) : Str := if m ≠ [] then ' ' :: (Token.FOR.str ++ ' ' :: quoteString m) else []

/-- `parseForModule` on its printed form (the empty module prints nothing and is read back as empty). -/
theorem parseForModule_print (s : PState) (m k : Str) (hex : Expressible m) (hstop : NextNot k .FOR)
    (hs : s.Before (forText m ++ k)) :
    ∃ s', parseForModule.run s = .ok (m, s') ∧ s'.Around k := by
  unfold forText at hs
  by_cases hm : m = []
  · subst hm
    obtain ⟨s1, h1, b1⟩ := optTok_absent_around .FOR s k hs.around hstop
    refine ⟨s1, ?_, b1⟩
    unfold parseForModule
    rw [P.run_bind _ _ s false s1 h1]
    rfl
  · rw [if_pos hm] at hs
    simp only [List.append_assoc, List.cons_append] at hs
    obtain ⟨s1, h1, b1⟩ := optTok_piece s [' '] Token.FOR.str _ .FOR [] Gap.blank hs.around
      (scansAs_kw .FOR _ (by decide +kernel) (WordEnd.blank _))
    obtain ⟨s2, h2, b2⟩ := parseString_piece s1 [' '] (quoteString m) k m Gap.blank b1.around (scansAs_string m k hex)
    refine ⟨s2, ?_, b2.around⟩
    unfold parseForModule
    rw [P.run_bind _ _ s true s1 h1]
    exact h2

theorem showStats_print (m : Str) :
    (Statement.showStats m).print = tx "SHOW STATS" ++ forText m ∧
    (Statement.showDiagnostics m).print = tx "SHOW DIAGNOSTICS" ++ forText m := by
  have p1 : (Statement.showStats m).print = tx "SHOW STATS" ++ (if m ≠ [] then tx " FOR " ++ quoteString m else []) := rfl
  have p2 : (Statement.showDiagnostics m).print =
      tx "SHOW DIAGNOSTICS" ++ (if m ≠ [] then tx " FOR " ++ quoteString m else []) := rfl
  have e1 : tx " FOR " = ' ' :: (Token.FOR.str ++ [' ']) := by decide +kernel
  rw [p1, p2, e1]
  unfold forText
  split <;> simp only [List.append_assoc, List.cons_append, List.nil_append, and_self]

/-- The two handlers of this family. -/
def forModuleHandlers : List (Handler × (Str → Statement)) :=
  [(.parseShowStatsStatement, .showStats), (.parseShowDiagnosticsStatement, .showDiagnostics)]

/-- **Print → parse, SHOW STATS / SHOW DIAGNOSTICS [FOR 'module'].** -/
theorem forModule_print_parse (fuel : Nat) (h : Handler) (C : Str → Statement) (hh : (h, C) ∈ forModuleHandlers)
    (s : PState) (m k : Str) (hex : Expressible m) (hstop : NextNot k .FOR) (hs : s.Before (forText m ++ k)) :
    ∃ s', (runHandler fuel h).run s = .ok (C m, s') ∧ s'.Around k := by
  obtain ⟨s', hrun, hb⟩ := parseForModule_print s m k hex hstop hs
  refine ⟨s', ?_, hb⟩
  simp only [forModuleHandlers, List.mem_cons, Prod.mk.injEq, List.not_mem_nil, or_false] at hh
  rcases hh with ⟨rfl, rfl⟩ | ⟨rfl, rfl⟩ <;>
    (simp only [runHandler]; rw [P.run_bind _ _ s m s' hrun]; rfl)

/-! ### ALTER RETENTION POLICY

The options are printed in the fixed order DURATION, REPLICATION, SHARD DURATION, DEFAULT, FUTURE
LIMIT, PAST LIMIT; the option loop accepts them in any order, remembering the ones seen. -/

/-- ` <KW> <duration>` when the option is set. -/
def optDurText (d : Option Int) : Str :=
  match d with
  | some v => ' ' :: (Token.DURATION.str ++ ' ' :: formatDuration v)
  | none => []

def optReplText (n : Option Nat) : Str :=
  match n with
  | some v => ' ' :: (Token.REPLICATION.str ++ ' ' :: natDigits v)
  | none => []

def optShardText (sh : Option Int) : Str :=
  match sh with
  | some v => ' ' :: (Token.SHARD.str ++ ' ' :: (Token.DURATION.str ++ ' ' :: formatDuration v))
  | none => []

/-- ` FUTURE LIMIT <d>` / ` PAST LIMIT <d>` when the option is set and not zero. -/
def optLimitText (t : Token) (v : Option Int) : Str :=
  match v with
  | some v => limitText t v
  | none => []

theorem optText_optDur (d : Option Int) : OptText (optDurText d) := by
  cases d
  · exact Or.inl rfl
  · exact Or.inr ⟨_, rfl⟩
theorem optText_optRepl (n : Option Nat) : OptText (optReplText n) := by
  cases n
  · exact Or.inl rfl
  · exact Or.inr ⟨_, rfl⟩
theorem optText_optShard (d : Option Int) : OptText (optShardText d) := by
  cases d
  · exact Or.inl rfl
  · exact Or.inr ⟨_, rfl⟩
theorem optText_optLimit (t : Token) (v : Option Int) : OptText (optLimitText t v) := by
  cases v
  · exact Or.inl rfl
  · exact optText_limit t _

/-- The key set of the Go map `found`. -/
def addIf (b : Bool) (t : Token) (l : List Token) : List Token := if b then t :: l else l

theorem mem_addIf (x t : Token) (b : Bool) (l : List Token) : x ∈ addIf b t l ↔ (b = true ∧ x = t) ∨ x ∈ l := by
  unfold addIf; cases b <;> simp

def setDur (o : AlterOpts) : Option Int → AlterOpts
  | some v => { o with duration := some v }
  | none => o
def setRepl (o : AlterOpts) : Option Nat → AlterOpts
  | some v => { o with replication := some (v : Int) }
  | none => o
def setShard (o : AlterOpts) : Option Int → AlterOpts
  | some v => { o with shard := some v }
  | none => o
def setDefault (o : AlterOpts) : Bool → AlterOpts
  | true => { o with default := true }
  | false => o
def setFuture (o : AlterOpts) : Option Int → AlterOpts
  | some v => { o with future := some v }
  | none => o
def setPast (o : AlterOpts) : Option Int → AlterOpts
  | some v => { o with past := some v }
  | none => o

/-- A duration option within the range `ParseDuration` returns. -/
def DurOK (d : Option Int) : Prop := ∀ v, d = some v → 0 ≤ v ∧ v ≤ maxInt64

section alter
variable (it : Nat) (found : List Token) (o : AlterOpts) (s : PState) (rest : Str)

theorem alter_dur (d : Option Int) (hd : DurOK d) (hnf : Token.DURATION ∉ found) (hit : 1 ≤ it)
    (hs : s.Around (optDurText d ++ rest)) (hk : DurEnd rest) :
    ∃ it' s', it - 1 ≤ it' ∧ s'.Around rest ∧
      (alterLoop it found o).run s = (alterLoop it' (addIf d.isSome .DURATION found) (setDur o d)).run s' := by
  cases d with
  | none => exact ⟨it, s, by omega, hs, rfl⟩
  | some v =>
    obtain ⟨it, rfl⟩ : ∃ j, it = j + 1 := ⟨it - 1, by omega⟩
    obtain ⟨lx, s1, h1, t1, _, b1⟩ := scanIW_piece s [' '] Token.DURATION.str _ .DURATION [] Gap.blank hs
      (scansAs_kw .DURATION _ (by decide +kernel) (WordEnd.blank _))
    obtain ⟨s2, h2, b2⟩ := parseDurationTok_piece s1 [' '] (formatDuration v) rest v (hd v rfl).1 (hd v rfl).2
      Gap.blank b1.around (scansAs_dur v (hd v rfl).1 rest hk)
    refine ⟨it, s2, by omega, b2.around, ?_⟩
    conv => lhs; unfold alterLoop
    rw [P.run_bind _ _ s lx s1 h1]
    simp only [t1, List.contains_eq_mem, hnf, decide_false, Bool.false_eq_true, if_false]
    rw [P.run_bind _ _ s1 v s2 h2]
    rfl

theorem alter_repl (n : Option Nat) (hn : ∀ v, n = some v → 1 ≤ v ∧ (v : Int) ≤ maxInt32)
    (hnf : Token.REPLICATION ∉ found) (hit : 1 ≤ it)
    (hs : s.Around (optReplText n ++ rest)) (hk : NumEnd rest) :
    ∃ it' s', it - 1 ≤ it' ∧ s'.Around rest ∧
      (alterLoop it found o).run s = (alterLoop it' (addIf n.isSome .REPLICATION found) (setRepl o n)).run s' := by
  cases n with
  | none => exact ⟨it, s, by omega, hs, rfl⟩
  | some v =>
    obtain ⟨it, rfl⟩ : ∃ j, it = j + 1 := ⟨it - 1, by omega⟩
    obtain ⟨lx, s1, h1, t1, _, b1⟩ := scanIW_piece s [' '] Token.REPLICATION.str _ .REPLICATION [] Gap.blank hs
      (scansAs_kw .REPLICATION _ (by decide +kernel) (WordEnd.blank _))
    obtain ⟨s2, h2, b2⟩ := parseIntRange_piece s1 [' '] (natDigits v) rest 1 maxInt32 v (by have := (hn v rfl).1; omega)
      (hn v rfl).2 (by have := (hn v rfl).2; unfold maxInt32 at this; unfold maxInt64; omega) Gap.blank b1.around
      (scansAs_nat v rest hk)
    refine ⟨it, s2, by omega, b2.around, ?_⟩
    conv => lhs; unfold alterLoop
    rw [P.run_bind _ _ s lx s1 h1]
    simp only [t1, List.contains_eq_mem, hnf, decide_false, Bool.false_eq_true, if_false]
    rw [P.run_bind _ _ s1 (v : Int) s2 h2]
    rfl

theorem alter_shard (d : Option Int) (hd : DurOK d) (hnf : Token.SHARD ∉ found) (hit : 1 ≤ it)
    (hs : s.Around (optShardText d ++ rest)) (hk : DurEnd rest) :
    ∃ it' s', it - 1 ≤ it' ∧ s'.Around rest ∧
      (alterLoop it found o).run s = (alterLoop it' (addIf d.isSome .SHARD found) (setShard o d)).run s' := by
  cases d with
  | none => exact ⟨it, s, by omega, hs, rfl⟩
  | some v =>
    obtain ⟨it, rfl⟩ : ∃ j, it = j + 1 := ⟨it - 1, by omega⟩
    have hs' : s.Around ([' '] ++ (Token.SHARD.str ++ (' ' :: (Token.DURATION.str ++ ' ' :: (formatDuration v ++ rest))))) := by
      simpa only [optShardText, List.append_assoc, List.cons_append, List.nil_append] using hs
    obtain ⟨lx, s1, h1, t1, _, b1⟩ := scanIW_piece s [' '] Token.SHARD.str _ .SHARD [] Gap.blank hs'
      (scansAs_kw .SHARD _ (by decide +kernel) (WordEnd.blank _))
    obtain ⟨lx2, s2, h2, t2, _, b2⟩ := scanIW_piece s1 [' '] Token.DURATION.str _ .DURATION [] Gap.blank b1.around
      (scansAs_kw .DURATION _ (by decide +kernel) (WordEnd.blank _))
    obtain ⟨s3, h3, b3⟩ := parseShardDuration_piece s2 v rest (hd v rfl).1 (hd v rfl).2 b2.around hk
    refine ⟨it, s3, by omega, b3.around, ?_⟩
    conv => lhs; unfold alterLoop
    rw [P.run_bind _ _ s lx s1 h1]
    simp only [t1, List.contains_eq_mem, hnf, decide_false, Bool.false_eq_true, if_false]
    rw [P.run_bind _ _ s1 lx2 s2 h2]
    simp only [t2, if_true]
    rw [P.run_bind _ _ s2 v s3 h3]
    rfl

theorem alter_default (b : Bool) (hnf : Token.DEFAULT ∉ found) (hit : 1 ≤ it)
    (hs : s.Around (defaultText b ++ rest)) (hk : WordEnd rest) :
    ∃ it' s', it - 1 ≤ it' ∧ s'.Around rest ∧
      (alterLoop it found o).run s = (alterLoop it' (addIf b .DEFAULT found) (setDefault o b)).run s' := by
  cases b with
  | false => exact ⟨it, s, by omega, hs, rfl⟩
  | true =>
    obtain ⟨it, rfl⟩ : ∃ j, it = j + 1 := ⟨it - 1, by omega⟩
    obtain ⟨lx, s1, h1, t1, _, b1⟩ := scanIW_piece s [' '] Token.DEFAULT.str rest .DEFAULT [] Gap.blank hs
      (scansAs_kw .DEFAULT rest (by decide +kernel) hk)
    refine ⟨it, s1, by omega, b1.around, ?_⟩
    conv => lhs; unfold alterLoop
    rw [P.run_bind _ _ s lx s1 h1]
    simp only [t1, List.contains_eq_mem, hnf, decide_false, Bool.false_eq_true, if_false]
    rfl

theorem alter_future (d : Option Int) (hd : DurOK d) (hz : d ≠ some 0) (hnf : Token.FUTURE ∉ found) (hit : 1 ≤ it)
    (hs : s.Around (optLimitText .FUTURE d ++ rest)) (hk : DurEnd rest) :
    ∃ it' s', it - 1 ≤ it' ∧ s'.Around rest ∧
      (alterLoop it found o).run s = (alterLoop it' (addIf d.isSome .FUTURE found) (setFuture o d)).run s' := by
  cases d with
  | none => exact ⟨it, s, by omega, hs, rfl⟩
  | some v =>
    obtain ⟨it, rfl⟩ : ∃ j, it = j + 1 := ⟨it - 1, by omega⟩
    have hv : v ≠ 0 := fun e => hz (by rw [e])
    have hs' : s.Around ([' '] ++ (Token.FUTURE.str ++ (' ' :: (Token.LIMIT.str ++ ' ' :: (formatDuration v ++ rest))))) := by
      simpa only [optLimitText, limitText, hv, ne_eq, not_false_eq_true, if_true, List.append_assoc, List.cons_append,
        List.nil_append] using hs
    obtain ⟨lx, s1, h1, t1, _, b1⟩ := scanIW_piece s [' '] Token.FUTURE.str _ .FUTURE [] Gap.blank hs'
      (scansAs_kw .FUTURE _ (by decide +kernel) (WordEnd.blank _))
    obtain ⟨s2, h2, b2⟩ := parseWriteLimit_piece s1 v rest (hd v rfl).1 (hd v rfl).2 b1.around hk
    refine ⟨it, s2, by omega, b2.around, ?_⟩
    conv => lhs; unfold alterLoop
    rw [P.run_bind _ _ s lx s1 h1]
    simp only [t1, List.contains_eq_mem, hnf, decide_false, Bool.false_eq_true, if_false]
    rw [P.run_bind _ _ s1 v s2 h2]
    rfl

theorem alter_past (d : Option Int) (hd : DurOK d) (hz : d ≠ some 0) (hnf : Token.PAST ∉ found) (hit : 1 ≤ it)
    (hs : s.Around (optLimitText .PAST d ++ rest)) (hk : DurEnd rest) :
    ∃ it' s', it - 1 ≤ it' ∧ s'.Around rest ∧
      (alterLoop it found o).run s = (alterLoop it' (addIf d.isSome .PAST found) (setPast o d)).run s' := by
  cases d with
  | none => exact ⟨it, s, by omega, hs, rfl⟩
  | some v =>
    obtain ⟨it, rfl⟩ : ∃ j, it = j + 1 := ⟨it - 1, by omega⟩
    have hv : v ≠ 0 := fun e => hz (by rw [e])
    have hs' : s.Around ([' '] ++ (Token.PAST.str ++ (' ' :: (Token.LIMIT.str ++ ' ' :: (formatDuration v ++ rest))))) := by
      simpa only [optLimitText, limitText, hv, ne_eq, not_false_eq_true, if_true, List.append_assoc, List.cons_append,
        List.nil_append] using hs
    obtain ⟨lx, s1, h1, t1, _, b1⟩ := scanIW_piece s [' '] Token.PAST.str _ .PAST [] Gap.blank hs'
      (scansAs_kw .PAST _ (by decide +kernel) (WordEnd.blank _))
    obtain ⟨s2, h2, b2⟩ := parseWriteLimit_piece s1 v rest (hd v rfl).1 (hd v rfl).2 b1.around hk
    refine ⟨it, s2, by omega, b2.around, ?_⟩
    conv => lhs; unfold alterLoop
    rw [P.run_bind _ _ s lx s1 h1]
    simp only [t1, List.contains_eq_mem, hnf, decide_false, Bool.false_eq_true, if_false]
    rw [P.run_bind _ _ s1 v s2 h2]
    rfl

/-- The last round of the option loop: a token that is no option ends it (pushed back). -/
theorem alter_end (hit : 1 ≤ it) (hne : found ≠ []) (hs : s.Around rest)
    (hstop : ∀ t ∈ [Token.DURATION, .REPLICATION, .SHARD, .DEFAULT, .FUTURE, .PAST], NextNot rest t)
    (hfound : ∀ t ∈ found, t ∈ [Token.DURATION, .REPLICATION, .SHARD, .DEFAULT, .FUTURE, .PAST]) :
    ∃ s', s'.Around rest ∧ (alterLoop it found o).run s = .ok (o, s') := by
  obtain ⟨it, rfl⟩ : ∃ j, it = j + 1 := ⟨it - 1, by omega⟩
  obtain ⟨s0, hb, he⟩ := hs.scanIW_eq
  obtain ⟨lx, s1, h1⟩ := scanIW_total s0
  have hnot : ∀ t ∈ [Token.DURATION, .REPLICATION, .SHARD, .DEFAULT, .FUTURE, .PAST], lx.tok ≠ t :=
    fun t ht => hstop t ht s0 lx s1 hb h1
  have hnf : lx.tok ∉ found := fun hm => hnot _ (hfound _ hm) rfl
  refine ⟨{ s1 with n := s1.n + 1 }, ⟨s0, hb, Or.inr ⟨lx, s1, h1, rfl⟩⟩, ?_⟩
  conv => lhs; unfold alterLoop
  rw [P.run_bind _ _ s lx s1 (by rw [he]; exact h1)]
  simp only [List.contains_eq_mem, hnf, decide_false, Bool.false_eq_true, if_false]
  split
  · next h => exact absurd h (hnot _ (by simp))
  · next h => exact absurd h (hnot _ (by simp))
  · next h => exact absurd h (hnot _ (by simp))
  · next h => exact absurd h (hnot _ (by simp))
  · next h => exact absurd h (hnot _ (by simp))
  · next h => exact absurd h (hnot _ (by simp))
  · simp only [hne, if_false]
    rw [P.run_bind _ _ s1 () _ (unscan_run s1)]
    rfl

end alter

/-- What ALTER RETENTION POLICY prints after its keywords. -/
def arpText (name db : Str) (d : Option Int) (n : Option Nat) (sh : Option Int) (dflt : Bool) (fu pa : Option Int) : Str :=
  ' ' :: (qi name ++ ' ' :: (Token.ON.str ++ ' ' :: (qi db ++ (optDurText d ++ (optReplText n ++ (optShardText sh ++
    (defaultText dflt ++ (optLimitText .FUTURE fu ++ optLimitText .PAST pa))))))))

theorem alterRetentionPolicy_print (name db : Str) (d : Option Int) (n : Option Nat) (sh : Option Int) (dflt : Bool)
    (fu pa : Option Int) :
    (Statement.alterRetentionPolicy name db d (n.map Int.ofNat) dflt sh fu pa).print =
      tx "ALTER RETENTION POLICY" ++ arpText name db d n sh dflt fu pa := by
  have p1 : (Statement.alterRetentionPolicy name db d (n.map Int.ofNat) dflt sh fu pa).print =
      tx "ALTER RETENTION POLICY " ++ qi name ++ tx " ON " ++ qi db ++ optDur " DURATION " d ++
      (match n.map Int.ofNat with
       | none => []
       | some v => tx " REPLICATION " ++ intDigits v) ++
      optDur " SHARD DURATION " sh ++ (if dflt then tx " DEFAULT" else []) ++
      (match fu with
       | some v => if v ≠ 0 then tx " FUTURE LIMIT " ++ formatDuration v else []
       | none => []) ++
      (match pa with
       | some v => if v ≠ 0 then tx " PAST LIMIT " ++ formatDuration v else []
       | none => []) := rfl
  have hd : ∀ v : Nat, intDigits (v : Int) = natDigits v := by intro v; unfold intDigits; simp
  have e1 : tx "ALTER RETENTION POLICY " = tx "ALTER RETENTION POLICY" ++ [' '] := by decide +kernel
  have e2 : tx " DURATION " = ' ' :: (Token.DURATION.str ++ [' ']) := by decide +kernel
  have e3 : tx " REPLICATION " = ' ' :: (Token.REPLICATION.str ++ [' ']) := by decide +kernel
  have e4 : tx " SHARD DURATION " = ' ' :: (Token.SHARD.str ++ ' ' :: (Token.DURATION.str ++ [' '])) := by
    decide +kernel
  have e5 : tx " DEFAULT" = ' ' :: Token.DEFAULT.str := by decide +kernel
  have e6 : tx " FUTURE LIMIT " = ' ' :: (Token.FUTURE.str ++ ' ' :: (Token.LIMIT.str ++ [' '])) := by decide +kernel
  have e7 : tx " PAST LIMIT " = ' ' :: (Token.PAST.str ++ ' ' :: (Token.LIMIT.str ++ [' '])) := by decide +kernel
  rw [p1, e1, e3, e5, e6, e7, tx_on]
  unfold arpText
  cases d <;> cases n <;> cases sh <;> cases fu <;> cases pa <;>
    simp only [optDur, optDurText, optReplText, optShardText, optLimitText, limitText, defaultText, e2, e4, hd,
      Option.map_some, Option.map_none, Int.ofNat_eq_natCast] <;>
    (repeat' split) <;>
    simp only [List.append_assoc, List.cons_append, List.nil_append, List.append_nil]

/-- **Print → parse, ALTER RETENTION POLICY** (partial). For every combination of options within
the ranges the parser guarantees, *except* the region of the recorded finding
`zero-duration-option-not-printed`: a `FUTURE LIMIT` / `PAST LIMIT` of zero (`fu ≠ some 0`,
`pa ≠ some 0`: such an option is not printed and comes back as absent) and a statement none of
whose options is printed (`hany`; the printed text then ends after the database name and is rejected).
`k` must not begin with a token that names an option. -/
theorem alterRetentionPolicy_print_parse_partial (fuel : Nat) (s : PState) (name db : Str) (d : Option Int)
    (n : Option Nat) (sh : Option Int) (dflt : Bool) (fu pa : Option Int) (k : Str)
    (hex1 : Expressible name) (hex2 : Expressible db) (hd : DurOK d)
    (hn : ∀ v, n = some v → 1 ≤ v ∧ (v : Int) ≤ maxInt32) (hsh : DurOK sh) (hfu : DurOK fu) (hpa : DurOK pa)
    (hfz : fu ≠ some 0) (hpz : pa ≠ some 0)
    (hany : d.isSome ∨ n.isSome ∨ sh.isSome ∨ dflt = true ∨ fu.isSome ∨ pa.isSome) (hk : TokEnd k)
    (hstop : ∀ t ∈ [Token.DURATION, .REPLICATION, .SHARD, .DEFAULT, .FUTURE, .PAST], NextNot k t)
    (hs : s.Before (arpText name db d n sh dflt fu pa ++ k)) :
    ∃ s', (runHandler fuel .parseAlterRetentionPolicyStatement).run s =
        .ok (.alterRetentionPolicy name db d (n.map Int.ofNat) dflt sh fu pa, s') ∧ s'.Around k := by
  have e : arpText name db d n sh dflt fu pa ++ k = ' ' :: (qi name ++ ' ' :: (Token.ON.str ++ ' ' :: (qi db ++
      (optDurText d ++ (optReplText n ++ (optShardText sh ++ (defaultText dflt ++ (optLimitText .FUTURE fu ++
        (optLimitText .PAST pa ++ k))))))))) := by
    simp only [arpText, List.append_assoc, List.cons_append]
  rw [e] at hs
  have k6 : TokEnd (optLimitText .PAST pa ++ k) := TokEnd.opt (optText_optLimit _ _) hk
  have k5 := TokEnd.opt (optText_optLimit .FUTURE fu) k6
  have k4 := TokEnd.opt (optText_default dflt) k5
  have k3 := TokEnd.opt (optText_optShard sh) k4
  have k2 := TokEnd.opt (optText_optRepl n) k3
  have k1 := TokEnd.opt (optText_optDur d) k2
  obtain ⟨lx, s1, h1, t1, l1, b1⟩ := scanIW_piece s [' '] (qi name) _ .IDENT name Gap.blank hs.around
    (scansAs_ident name _ hex1 (.of_wordEnd (WordEnd.blank _)))
  obtain ⟨s2, h2, b2⟩ := expectTok_piece s1 [' '] Token.ON.str _ .ON [] ["ON"] Gap.blank b1.around
    (scansAs_kw .ON _ (by decide +kernel) (WordEnd.blank _))
  obtain ⟨s3, h3, b3⟩ := parseIdent_piece s2 [' '] (qi db) _ db Gap.blank b2.around
    (scansAs_ident db _ hex2 (.of_wordEnd k1.1))
  obtain ⟨i1, s4, g1, b4, r1⟩ := alter_dur 8 [] {} s3 _ d hd (by simp) (by omega) b3.around k2.2.2
  obtain ⟨i2, s5, g2, b5, r2⟩ := alter_repl i1 (addIf d.isSome .DURATION []) (setDur {} d) s4 _ n hn
    (by simp [mem_addIf]) (by omega) b4 k3.2.1
  obtain ⟨i3, s6, g3, b6, r3⟩ := alter_shard i2 (addIf n.isSome .REPLICATION (addIf d.isSome .DURATION []))
    (setRepl (setDur {} d) n) s5 _ sh hsh (by simp [mem_addIf]) (by omega) b5 k4.2.2
  obtain ⟨i4, s7, g4, b7, r4⟩ := alter_default i3 (addIf sh.isSome .SHARD (addIf n.isSome .REPLICATION (addIf d.isSome .DURATION [])))
    (setShard (setRepl (setDur {} d) n) sh) s6 _ dflt (by simp [mem_addIf]) (by omega) b6 k5.1
  obtain ⟨i5, s8, g5, b8, r5⟩ := alter_future i4 (addIf dflt .DEFAULT (addIf sh.isSome .SHARD (addIf n.isSome .REPLICATION (addIf d.isSome .DURATION []))))
    (setDefault (setShard (setRepl (setDur {} d) n) sh) dflt) s7 _ fu hfu hfz (by simp [mem_addIf]) (by omega) b7 k6.2.2
  obtain ⟨i6, s9, g6, b9, r6⟩ := alter_past i5 (addIf fu.isSome .FUTURE (addIf dflt .DEFAULT (addIf sh.isSome .SHARD (addIf n.isSome .REPLICATION (addIf d.isSome .DURATION [])))))
    (setFuture (setDefault (setShard (setRepl (setDur {} d) n) sh) dflt) fu) s8 k pa hpa hpz (by simp [mem_addIf]) (by omega) b8 hk.2.2
  obtain ⟨s10, b10, r7⟩ := alter_end i6 (addIf pa.isSome .PAST (addIf fu.isSome .FUTURE (addIf dflt .DEFAULT (addIf sh.isSome .SHARD (addIf n.isSome .REPLICATION (addIf d.isSome .DURATION []))))))
    (setPast (setFuture (setDefault (setShard (setRepl (setDur {} d) n) sh) dflt) fu) pa) s9 k (by omega)
    (by
      intro hnil
      have : ∀ x : Token, x ∉ addIf pa.isSome .PAST (addIf fu.isSome .FUTURE (addIf dflt .DEFAULT
          (addIf sh.isSome .SHARD (addIf n.isSome .REPLICATION (addIf d.isSome .DURATION []))))) := by
        intro x; rw [hnil]; simp
      rcases hany with h | h | h | h | h | h
      · exact this .DURATION (by simp [mem_addIf, h])
      · exact this .REPLICATION (by simp [mem_addIf, h])
      · exact this .SHARD (by simp [mem_addIf, h])
      · exact this .DEFAULT (by simp [mem_addIf, h])
      · exact this .FUTURE (by simp [mem_addIf, h])
      · exact this .PAST (by simp [mem_addIf, h]))
    b9 hstop
    (by
      intro t ht
      simp only [mem_addIf, List.not_mem_nil, or_false] at ht
      rcases ht with ⟨_, rfl⟩ | ⟨_, rfl⟩ | ⟨_, rfl⟩ | ⟨_, rfl⟩ | ⟨_, rfl⟩ | ⟨_, rfl⟩ <;> simp)
  refine ⟨s10, ?_, b10⟩
  simp only [runHandler, parseAlterRetentionPolicy]
  rw [P.run_bind _ _ s lx s1 h1]
  simp only [t1, reduceCtorEq, if_false, if_true]
  rw [P.run_bind _ _ s1 name s1 (by rw [l1]; rfl), P.run_bind _ _ s1 () s2 h2, P.run_bind _ _ s2 db s3 h3,
    P.run_bind _ _ s3 _ s10 (by rw [r1, r2, r3, r4, r5, r6]; exact r7)]
  cases d <;> cases n <;> cases sh <;> cases dflt <;> cases fu <;> cases pa <;> rfl

/-! ### non-vacuity of the family theorems

Each on a concrete statement at the end of an input (`k` = the NUL sentinel). -/

/-- The state of a parser started on a text without CR. -/
theorem init_before (text : Str) (h : foldCR text = text) : (PState.init text [] []).Before (text ++ [eofRune]) := by
  have := PState.init_before text [] []
  rwa [h] at this

theorem stop_eof (l : List Token) (h : ∀ t ∈ l, t ≠ .EOF) : ∀ t ∈ l, NextNot [eofRune] t :=
  fun t ht => nextNot_eof t (h t ht)

/-- `KILL QUERY 36 ON "host 1"`. -/
example : ∃ sK, ReturnsAt (runHandler 10 .parseKillQueryStatement) (PState.init (killQueryText 36 "host 1".toList) [] [])
    (.killQuery 36 "host 1".toList) sK false [.ON] := by
  obtain ⟨sK, _, h⟩ := killQuery_print_parse 10 (PState.init (killQueryText 36 "host 1".toList) [] []) 36
    "host 1".toList [eofRune] (by decide) (by decide) (.of_wordEnd .eof) .eof (init_before _ (by decide +kernel))
  exact ⟨sK, h⟩

/-- `DROP SUBSCRIPTION sub0 ON "my db".autogen`. -/
example : ∃ s', (runHandler 10 .parseDropSubscriptionStatement).run
    (PState.init (dropSubscriptionText "sub0".toList "my db".toList "autogen".toList) [] []) =
      .ok (.dropSubscription "sub0".toList "my db".toList "autogen".toList, s') := by
  obtain ⟨s', h, _⟩ := dropSubscription_print_parse 10
    (PState.init (dropSubscriptionText "sub0".toList "my db".toList "autogen".toList) [] []) "sub0".toList
    "my db".toList "autogen".toList [eofRune] (by decide) (by decide) (by decide) (.of_wordEnd .eof)
    (init_before _ (by decide +kernel))
  exact ⟨s', h⟩

/-- `CREATE USER "jo e" WITH PASSWORD 'it''s' WITH ALL PRIVILEGES` (password with an escaped quote). -/
example : ∃ sK, ReturnsAt (runHandler 10 .parseCreateUserStatement)
    (PState.init (createUserText "jo e".toList (quoteString "it's".toList) true) [] [])
    (.createUser "jo e".toList "it's".toList true) sK false [.WITH] := by
  obtain ⟨sK, _, h⟩ := createUser_print_parse 10
    (PState.init (createUserText "jo e".toList (quoteString "it's".toList) true) [] []) "jo e".toList "it's".toList
    true [eofRune] (by decide) (by decide) (fun _ => .eof) (init_before _ (by decide +kernel))
  exact ⟨sK, h⟩

/-- `SET PASSWORD FOR bob = 'pa\\ss'`. -/
example : ∃ s', (runHandler 10 .parseSetPasswordUserStatement).run
    (PState.init (setPasswordText "bob".toList (quoteString "pa\\ss".toList)) [] []) =
      .ok (.setPasswordUser "pa\\ss".toList "bob".toList, s') := by
  obtain ⟨s', h, _⟩ := setPassword_print_parse 10
    (PState.init (setPasswordText "bob".toList (quoteString "pa\\ss".toList)) [] []) "bob".toList "pa\\ss".toList
    [eofRune] (by decide) (by decide) (init_before _ (by decide +kernel))
  exact ⟨s', h⟩

/-- `GRANT ALL PRIVILEGES ON "select" TO alice` and `REVOKE ALL PRIVILEGES FROM "a b"`. -/
example : (∃ s', (runHandler 10 .parseGrantStatement).run
      (PState.init (grantText .all "select".toList "alice".toList) [] []) =
        .ok (.grant .all "select".toList "alice".toList, s')) ∧
    (∃ s', (runHandler 10 .parseRevokeStatement).run (PState.init (revokeAdminText "a b".toList) [] []) =
        .ok (.revokeAdmin "a b".toList, s')) := by
  obtain ⟨s1, h1, _⟩ := grant_print_parse 10 (PState.init (grantText .all "select".toList "alice".toList) [] []) .all
    "select".toList "alice".toList [eofRune] (by decide) (by decide) (by decide) (.of_wordEnd .eof)
    (init_before _ (by decide +kernel))
  obtain ⟨s2, h2, _⟩ := revokeAdmin_print_parse 10 (PState.init (revokeAdminText "a b".toList) [] []) "a b".toList
    [eofRune] (by decide) (.of_wordEnd .eof) (init_before _ (by decide +kernel))
  exact ⟨⟨s1, h1⟩, ⟨s2, h2⟩⟩

/-- `CREATE RETENTION POLICY "1h" ON db0 DURATION 90m REPLICATION 3 SHARD DURATION 1h DEFAULT PAST LIMIT 5s`. -/
example : ∃ s', (runHandler 10 .parseCreateRetentionPolicyStatement).run
    (PState.init (crpText "1h".toList "db0".toList 5400000000000 3 3600000000000 true 0 5000000000) [] []) =
      .ok (.createRetentionPolicy "1h".toList "db0".toList 5400000000000 3 true 3600000000000 0 5000000000, s') := by
  obtain ⟨s', h, _⟩ := createRetentionPolicy_print_parse 10
    (PState.init (crpText "1h".toList "db0".toList 5400000000000 3 3600000000000 true 0 5000000000) [] [])
    "1h".toList "db0".toList 5400000000000 3 3600000000000 true 0 5000000000 [eofRune] (by decide) (by decide)
    (by decide) (by decide) (by decide) (by decide) (by decide) .eof (stop_eof _ (by decide))
    (init_before _ (by decide +kernel))
  exact ⟨s', h⟩

example : crpText "1h".toList "db0".toList 5400000000000 3 3600000000000 true 0 5000000000 =
    " \"1h\" ON db0 DURATION 90m REPLICATION 3 SHARD DURATION 1h DEFAULT PAST LIMIT 5s".toList := by decide +kernel

/-- `SHOW RETENTION POLICIES` (no database) and `SHOW STATS FOR 'runtime'` and `CREATE DATABASE "my-db"`. -/
example : (∃ sK, ReturnsAt (runHandler 10 .parseShowRetentionPoliciesStatement) (PState.init [] [] [])
      (.showRetentionPolicies []) sK true [.ON]) ∧
    (∃ s', (runHandler 10 .parseShowStatsStatement).run (PState.init (forText "runtime".toList) [] []) =
      .ok (.showStats "runtime".toList, s')) ∧
    (∃ s', (runHandler 10 .parseCreateDatabaseStatement).run (PState.init (' ' :: qi "my-db".toList) [] []) =
      .ok (.createDatabase "my-db".toList false none none [] 0 none none, s')) := by
  obtain ⟨sK, _, h1⟩ := showRetentionPolicies_print_parse 10 (PState.init [] [] []) [] [eofRune] (by decide)
    (.of_wordEnd .eof) (init_before [] rfl)
  obtain ⟨s2, h2, _⟩ := forModule_print_parse 10 .parseShowStatsStatement .showStats (by simp [forModuleHandlers])
    (PState.init (forText "runtime".toList) [] []) "runtime".toList [eofRune] (by decide)
    (nextNot_eof _ (by decide)) (init_before _ (by decide +kernel))
  obtain ⟨s3, h3, _⟩ := createDatabase_plain_print_parse 10 (PState.init (' ' :: qi "my-db".toList) [] [])
    "my-db".toList [eofRune] (by decide) (.of_wordEnd .eof) (nextNot_eof _ (by decide))
    (init_before _ (by decide +kernel))
  exact ⟨⟨sK, h1⟩, ⟨s2, h2⟩, ⟨s3, h3⟩⟩

/-- `ALTER RETENTION POLICY "default" ON db0 DURATION 1w SHARD DURATION 0s DEFAULT FUTURE LIMIT 2m`. -/
example : ∃ s', (runHandler 10 .parseAlterRetentionPolicyStatement).run
    (PState.init (arpText "default".toList "db0".toList (some 604800000000000) none (some 0) true (some 120000000000) none)
      [] []) =
      .ok (.alterRetentionPolicy "default".toList "db0".toList (some 604800000000000) none true (some 0)
        (some 120000000000) none, s') := by
  obtain ⟨s', h, _⟩ := alterRetentionPolicy_print_parse_partial 10
    (PState.init (arpText "default".toList "db0".toList (some 604800000000000) none (some 0) true (some 120000000000) none)
      [] [])
    "default".toList "db0".toList (some 604800000000000) none (some 0) true (some 120000000000) none [eofRune]
    (by decide) (by decide) (by intro v h; cases h; decide) (by intro v h; cases h)
    (by intro v h; cases h; decide) (by intro v h; cases h; decide) (by intro v h; cases h) (by decide) (by decide)
    (Or.inl rfl) .eof (stop_eof _ (by decide)) (init_before _ (by decide +kernel))
  exact ⟨s', h⟩

/-- Why the hypotheses of `alterRetentionPolicy_print_parse_partial` are needed (the recorded finding
`zero-duration-option-not-printed`): `ALTER RETENTION POLICY p ON d PAST LIMIT 0s` is accepted, its
statement prints without any option, and that text is rejected. -/
theorem alterRetentionPolicy_zero_limit_counterexample :
    (match parseStatementText "ALTER RETENTION POLICY p ON d PAST LIMIT 0s".toList [] [] with
     | .ok (.alterRetentionPolicy n d none none false none none (some 0)) => n == "p".toList && d == "d".toList
     | _ => false) = true ∧
    (Statement.alterRetentionPolicy "p".toList "d".toList none none false none none (some 0)).print =
      "ALTER RETENTION POLICY p ON d".toList ∧
    (match parseStatementText "ALTER RETENTION POLICY p ON d".toList [] [] with
     | .ok _ => false
     | .error _ => true) = true := by
  refine ⟨?_, ?_, ?_⟩ <;> decide +kernel

/-! ### the single-name statements once more, in full

With the pieces of `Lemmas/StmtPieces.lean` the two partial theorems above merge into one that
also covers a bare name at the very end of the input (the scanner swallows the NUL sentinel there;
`PState.Before` accounts for it). -/

/-- **Print → parse, DROP DATABASE / DROP MEASUREMENT / DROP USER / SHOW GRANTS FOR.** -/
theorem singleName_print_parse (fuel : Nat) (h : Handler) (C : Str → Statement) (hh : (h, C) ∈ singleNameHandlers)
    (s : PState) (name k : Str) (hex : Expressible name) (hk : IdentEnd name k)
    (hs : s.Before (' ' :: qi name ++ k)) :
    ∃ s', (runHandler fuel h).run s = .ok (C name, s') ∧ s'.Before k := by
  obtain ⟨s', hrun, hb⟩ := parseIdent_piece s [' '] (qi name) k name Gap.blank hs.around (scansAs_ident name k hex hk)
  refine ⟨s', ?_, hb⟩
  simp only [singleNameHandlers, List.mem_cons, Prod.mk.injEq, List.not_mem_nil, or_false] at hh
  rcases hh with ⟨rfl, rfl⟩ | ⟨rfl, rfl⟩ | ⟨rfl, rfl⟩ | ⟨rfl, rfl⟩ <;>
    (simp only [runHandler]; rw [P.run_bind _ _ s name s' hrun]; rfl)

/-- Non-vacuity: `DROP MEASUREMENT cpu` at the very end of the input (excluded before). -/
example : ∃ s', (runHandler 10 .parseDropMeasurementStatement).run (PState.init " cpu".toList [] []) =
    .ok (.dropMeasurement "cpu".toList, s') := by
  obtain ⟨s', h, _⟩ := singleName_print_parse 10 .parseDropMeasurementStatement .dropMeasurement
    (by simp [singleNameHandlers]) (PState.init " cpu".toList [] []) "cpu".toList [eofRune] (by decide)
    (.of_wordEnd .eof) (init_before " cpu".toList (by decide +kernel))
  exact ⟨s', h⟩

/-! ## the dispatch keywords at text level

`ParseStatement` walks the tree of parse_tree.go along the statement's keywords. On the printed
keywords (upper case, single blanks) every round of `dispatchLoop` reads one keyword and descends;
the last one selects the handler, which starts right after it. Together with a family theorem
this gives the round trip through `ParseStatement` itself, on the whole printed text. -/

/-- Follow keyword tokens through the regenerated dispatch tree from node `idx`: the handler the
last one selects. -/
def dispatchPath : Nat → List Token → Option Handler
  | _, [] => none
  | idx, t :: rest =>
    match lookupTok t (dispatch.getD idx default).subs with
    | some j => dispatchPath j rest
    | none =>
      match rest with
      | [] => lookupTok t (dispatch.getD idx default).handlers
      | _ :: _ => none

/-- Keywords in their canonical spelling, separated by single blanks. -/
def kwText : List Token → Str
  | [] => []
  | [t] => t.str
  | t :: t2 :: rest => t.str ++ ' ' :: kwText (t2 :: rest)

/-- **The dispatch on printed keywords.** If the keywords `toks` lead from node `idx` to handler
`h`, then `dispatchLoop` on their printed form followed by `k` (which does not continue the last
keyword) is `h` started right before `k`. -/
theorem dispatch_print (fuel : Nat) (h : Handler) (toks : List Token) :
    ∀ (it idx : Nat) (s : PState) (pre k : Str), dispatchPath idx toks = some h →
      (∀ t ∈ toks, t.isKw = true) → toks.length ≤ it → Gap pre → WordEnd k →
      s.Before (pre ++ (kwText toks ++ k)) →
      ∃ s', (dispatchLoop fuel it idx).run s = (runHandler fuel h).run s' ∧ s'.Before k := by
  induction toks with
  | nil => intro it idx s pre k hp; cases hp
  | cons t rest ih =>
    intro it idx s pre k hp hkw hlen hpre hk hs
    cases it with
    | zero => simp at hlen
    | succ it =>
    cases rest with
    | nil =>
      obtain ⟨lx, s1, h1, t1, _, b1⟩ := scanIW_piece s pre t.str k t [] hpre hs.around
        (scansAs_kw t k (hkw t (by simp)) hk)
      refine ⟨s1, ?_, b1⟩
      simp only [dispatchPath] at hp
      conv => lhs; unfold dispatchLoop
      rw [P.run_bind _ _ s lx s1 h1]
      simp only [t1]
      cases hsub : lookupTok t (dispatch.getD idx default).subs with
      | some j => rw [hsub] at hp; cases hp
      | none =>
        rw [hsub] at hp
        simp only [hp]
    | cons t2 rest2 =>
      have e : pre ++ (kwText (t :: t2 :: rest2) ++ k) = pre ++ (t.str ++ ([' '] ++ (kwText (t2 :: rest2) ++ k))) := by
        simp only [kwText, List.append_assoc, List.cons_append, List.nil_append]
      rw [e] at hs
      obtain ⟨lx, s1, h1, t1, _, b1⟩ := scanIW_piece s pre t.str _ t [] hpre hs.around
        (scansAs_kw t _ (hkw t (by simp)) (WordEnd.blank _))
      simp only [dispatchPath] at hp
      cases hsub : lookupTok t (dispatch.getD idx default).subs with
      | none => rw [hsub] at hp; cases hp
      | some j =>
        rw [hsub] at hp
        obtain ⟨s', h2, b2⟩ := ih it j s1 [' '] k hp (fun x hx => hkw x (by simp [hx]))
          (by simpa using hlen) Gap.blank hk b1
        refine ⟨s', ?_, b2⟩
        conv => lhs; unfold dispatchLoop
        rw [P.run_bind _ _ s lx s1 h1]
        simp only [t1, hsub]
        exact h2

/-- The same for `ParseStatement` (the loop has more rounds than the tree has levels). -/
theorem parseStatement_print (fuel : Nat) (h : Handler) (toks : List Token) (s : PState) (pre k : Str)
    (hp : dispatchPath 0 toks = some h) (hkw : ∀ t ∈ toks, t.isKw = true) (hlen : toks.length ≤ dispatch.length + 1)
    (hpre : Gap pre) (hk : WordEnd k) (hs : s.Before (pre ++ (kwText toks ++ k))) :
    ∃ s', (parseStatement fuel).run s = (runHandler fuel h).run s' ∧ s'.Before k :=
  dispatch_print fuel h toks _ 0 s pre k hp hkw hlen hpre hk hs

/-- The keyword paths of the families treated above: what is printed before the handler's part,
the keywords it consists of, and the handler they select in the regenerated tree. -/
def familyPaths : List (Str × List Token × Handler) :=
  [(tx "SHOW CONTINUOUS QUERIES", [.SHOW, .CONTINUOUS, .QUERIES], .parseShowContinuousQueriesStatement),
   (tx "SHOW DATABASES", [.SHOW, .DATABASES], .parseShowDatabasesStatement),
   (tx "SHOW QUERIES", [.SHOW, .QUERIES], .parseShowQueriesStatement),
   (tx "SHOW SHARD GROUPS", [.SHOW, .SHARD, .GROUPS], .parseShowShardGroupsStatement),
   (tx "SHOW SHARDS", [.SHOW, .SHARDS], .parseShowShardsStatement),
   (tx "SHOW SUBSCRIPTIONS", [.SHOW, .SUBSCRIPTIONS], .parseShowSubscriptionsStatement),
   (tx "SHOW USERS", [.SHOW, .USERS], .parseShowUsersStatement),
   (tx "DROP DATABASE", [.DROP, .DATABASE], .parseDropDatabaseStatement),
   (tx "DROP MEASUREMENT", [.DROP, .MEASUREMENT], .parseDropMeasurementStatement),
   (tx "DROP USER", [.DROP, .USER], .parseDropUserStatement),
   (tx "SHOW GRANTS FOR", [.SHOW, .GRANTS, .FOR], .parseGrantsForUserStatement),
   (tx "DROP RETENTION POLICY", [.DROP, .RETENTION, .POLICY], .parseDropRetentionPolicyStatement),
   (tx "DROP CONTINUOUS QUERY", [.DROP, .CONTINUOUS, .QUERY], .parseDropContinuousQueryStatement),
   (tx "SHOW RETENTION POLICIES", [.SHOW, .RETENTION, .POLICIES], .parseShowRetentionPoliciesStatement),
   (tx "KILL QUERY", [.KILL, .QUERY], .parseKillQueryStatement),
   (tx "DROP SHARD", [.DROP, .SHARD], .parseDropShardStatement),
   (tx "DROP SUBSCRIPTION", [.DROP, .SUBSCRIPTION], .parseDropSubscriptionStatement),
   (tx "CREATE USER", [.CREATE, .USER], .parseCreateUserStatement),
   (tx "SET PASSWORD FOR", [.SET, .PASSWORD, .FOR], .parseSetPasswordUserStatement),
   (tx "GRANT", [.GRANT], .parseGrantStatement),
   (tx "REVOKE", [.REVOKE], .parseRevokeStatement),
   (tx "CREATE RETENTION POLICY", [.CREATE, .RETENTION, .POLICY], .parseCreateRetentionPolicyStatement),
   (tx "CREATE DATABASE", [.CREATE, .DATABASE], .parseCreateDatabaseStatement),
   (tx "SHOW STATS", [.SHOW, .STATS], .parseShowStatsStatement),
   (tx "SHOW DIAGNOSTICS", [.SHOW, .DIAGNOSTICS], .parseShowDiagnosticsStatement),
   (tx "ALTER RETENTION POLICY", [.ALTER, .RETENTION, .POLICY], .parseAlterRetentionPolicyStatement)]

/-- Obligation on the regenerated tables: every path above is printed as its keywords, consists of
keywords of the scanner's table, and selects its handler from the root of the dispatch tree. -/
theorem gen_familyPaths : ∀ p ∈ familyPaths,
    p.1 = kwText p.2.1 ∧ (∀ t ∈ p.2.1, t.isKw = true) ∧ dispatchPath 0 p.2.1 = some p.2.2 ∧
      p.2.1.length ≤ dispatch.length + 1 := by decide +kernel

/-- **End to end, an instance:** `ParseStatement` on the whole printed text of
`DROP RETENTION POLICY <name> ON <db>`, followed by `k`, returns that statement and stops before `k`. -/
theorem dropRetentionPolicy_statement_print_parse (fuel : Nat) (s : PState) (name db k : Str)
    (hex1 : Expressible name) (hex2 : Expressible db) (hk : IdentEnd db k)
    (hs : s.Before ((Statement.dropRetentionPolicy name db).print ++ k)) :
    ∃ s', (parseStatement fuel).run s = .ok (.dropRetentionPolicy name db, s') ∧ s'.Before k := by
  rw [(nameOnDb_print name db).1] at hs
  obtain ⟨hpr, hkw, hpath, hlen⟩ := gen_familyPaths (tx "DROP RETENTION POLICY", [.DROP, .RETENTION, .POLICY],
    .parseDropRetentionPolicyStatement) (by simp [familyPaths])
  simp only at hpr hkw hpath hlen
  rw [hpr, List.append_assoc] at hs
  obtain ⟨s1, h1, b1⟩ := parseStatement_print fuel _ _ s [] (nameOnDbText name db ++ k) hpath hkw hlen Gap.none
    (WordEnd.blank _) hs
  obtain ⟨s', h2, b2⟩ := nameOnDb_print_parse fuel .parseDropRetentionPolicyStatement .dropRetentionPolicy
    (by simp [nameOnDbHandlers]) s1 name db k hex1 hex2 hk b1
  exact ⟨s', by rw [h1]; exact h2, b2⟩

/-! ## statement families with expressions

The families below contain a condition, a source list or fields. Their theorems have the shape of
the ones above with two differences. (1) `ParseExpr` is modelled with a fuel argument, so the
conclusion is a weakest precondition with the error alternative "out of fuel": the handler returns
exactly the printed statement and stands before `k`, or the fuel given was too small (never the case
at `fuelFor text`: `C04.parseStatement_fuel_suffices`; the non-vacuity examples run the handler in
the kernel). (2) The parser ends `RT.Stand s' k`: before `k` with the token scanned there pushed
back (how `ParseExpr` and the source parser leave it). The continuation is described by its first
significant token: `Follow k stop` — `k` is the end of input, or starts with `)` / `,` / a blank and
a token, and its first token is no binary operator and none of `stop` (the tokens that would
continue the statement). Expressions are those of C03's class `Printable` (`RT.rtOK false`). -/

/-! ### DELETE, DROP SERIES -/

/-- What DELETE / DROP SERIES print after their keywords. -/
def deleteLikeText (names : List Str) (c : Option Expr) : Str := fromText names ++ whereText c

theorem deleteLike_print_partial (names : List Str) (c : Option Expr) (h : ∀ m ∈ names, m ≠ []) :
    (Statement.deleteSeries (names.map nameSrc) c).print = tx "DELETE" ++ deleteLikeText names c ∧
    (Statement.dropSeries (names.map nameSrc) c).print = tx "DROP SERIES" ++ deleteLikeText names c := by
  have p1 : (Statement.deleteSeries (names.map nameSrc) c).print =
      tx "DELETE" ++ clauseFrom (names.map nameSrc) ++ clauseWhere c := rfl
  have p2 : (Statement.dropSeries (names.map nameSrc) c).print =
      tx "DROP SERIES" ++ clauseFrom (names.map nameSrc) ++ clauseWhere c := rfl
  rw [p1, p2, clauseFrom_names names h, clauseWhere_eq]
  simp only [deleteLikeText, List.append_assoc, and_self]

theorem parseDeleteLike_print (fuel : Nat) (checkRP : Bool) (s : PState) (names : List Str) (c : Option Expr) (k : Str)
    (hex : ∀ m ∈ names, Expressible m) (hc : CondOK c) (hne : ¬ (c = none ∧ names = []))
    (hk : Follow k [.FROM, .COMMA, .WHERE]) (hs : s.Before (deleteLikeText names c ++ k)) :
    wp (parseDeleteLike fuel checkRP) s (fun r s' => r = (names.map nameSrc, c) ∧ RT.Stand s' k) (· = .fuel) := by
  have hkw : Follow (whereText c ++ k) [.FROM, .COMMA] :=
    Follow.opt (kwText_where c) (by decide +kernel) rfl (by decide) (hk.mono (by simp))
  unfold deleteLikeText at hs
  rw [List.append_assoc] at hs
  unfold parseDeleteLike
  cases names with
  | nil =>
    obtain ⟨T, hT, hneT⟩ := hkw.starts (t := .FROM) (by simp)
    obtain ⟨lx, s1, h1, t1, st1, _⟩ := RT.scanIW_starts s _ T (by simpa [fromText] using hs.stand) hT
    have hnf : ¬ lx.tok = .FROM := by rw [t1]; exact hneT
    rw [wp_bind, wp_of_run_ok h1]
    simp only [hnf, if_false, pure_bind]
    rw [wp_bind, unscan_wp, wp_bind]
    refine wp_mono (parseCondition_print fuel (unsc s1) c k hc (hk.mono (by simp)) st1) ?_ (fun _ h => h)
    intro c' s2 ⟨hc', st2⟩
    subst hc'
    have : ¬ (c'.isNone = true ∧ True) := by
      intro ⟨h, _⟩
      cases c' with
      | none => exact hne ⟨rfl, rfl⟩
      | some e => cases h
    rw [wp_ite, if_neg this, wp_pure]
    exact ⟨rfl, st2⟩
  | cons n names =>
    have hs' : RT.Stand s ([' '] ++ (Token.FROM.str ++ (' ' :: (qi n ++ (moreNames names ++ (whereText c ++ k)))))) := by
      simpa [fromText] using hs.stand
    obtain ⟨lx, s1, h1, t1, _, b1⟩ := scanIW_stand s [' '] Token.FROM.str _ .FROM [] Gap.blank hs'
      (scansAs_kw .FROM _ (by decide +kernel) (WordEnd.blank _))
    obtain ⟨s2, h2, st2⟩ := parseSources_names s1 n names _ hex (hkw.mono (by simp)) b1
    rw [wp_bind, wp_of_run_ok h1]
    simp only [t1, if_true]
    rw [wp_bind, wp_of_run_ok h2]
    simp only [sourceRestriction_names, pure_bind]
    rw [wp_bind]
    refine wp_mono (parseCondition_print fuel s2 c k hc (hk.mono (by simp)) st2) ?_ (fun _ h => h)
    intro c' s3 ⟨hc', st3⟩
    subst hc'
    have : ¬ (c'.isNone = true ∧ (n :: names).map nameSrc = []) := by simp
    rw [wp_ite, if_neg this, wp_pure]
    exact ⟨rfl, st3⟩

/-- **Print → parse, DELETE / DROP SERIES** `[FROM m1, …, mn] [WHERE cond]` (at least one of the two
clauses, as the parser demands). The handler returns the statement and stands before `k` — or the
fuel given was too small (`C04.parseStatement_fuel_suffices`: never at `fuelFor`).

Partial: the sources are plain measurement names (no database / retention policy — which the
handlers reject anyway —, no regex), printed by `QuoteIdent`; the condition is in the class
`Printable` of C03 (`RT.rtOK false`: binary operators over references, string / integer / boolean
literals, parentheses, regex operands; no calls, number, duration literals, wildcards, and not
the negated-operand trees of the open finding). The continuation `k` starts (after at most one
blank) with a token that is no operator and none of FROM `,` WHERE; it may be the end of input. -/
theorem deleteLike_print_parse_partial (fuel : Nat) (s : PState) (names : List Str) (c : Option Expr) (k : Str)
    (hex : ∀ m ∈ names, Expressible m) (hc : CondOK c) (hne : ¬ (c = none ∧ names = []))
    (hk : Follow k [.FROM, .COMMA, .WHERE]) (hs : s.Before (deleteLikeText names c ++ k)) :
    wp (runHandler fuel .parseDeleteStatement) s
      (fun st s' => st = .deleteSeries (names.map nameSrc) c ∧ RT.Stand s' k) (· = .fuel) ∧
    wp (runHandler fuel .parseDropSeriesStatement) s
      (fun st s' => st = .dropSeries (names.map nameSrc) c ∧ RT.Stand s' k) (· = .fuel) := by
  constructor
  · simp only [runHandler]
    rw [wp_bind]
    refine wp_mono (parseDeleteLike_print fuel false s names c k hex hc hne hk hs) ?_ (fun _ h => h)
    intro r s' ⟨hr, st⟩
    subst hr
    exact ⟨rfl, st⟩
  · simp only [runHandler]
    rw [wp_bind]
    refine wp_mono (parseDeleteLike_print fuel true s names c k hex hc hne hk hs) ?_ (fun _ h => h)
    intro r s' ⟨hr, st⟩
    subst hr
    exact ⟨rfl, st⟩

/-- Non-vacuity: `DELETE FROM cpu, "my m" WHERE host = 'a' AND (x > -1 OR y =~ /^b/)`. -/
def exCond : Option Expr := some (.binary .AND (.binary .EQ (.varRef "host".toList .Unknown) (.string ['a']))
  (.paren (.binary .OR (.binary .GT (.varRef ['x'] .Unknown) (.integer (-1)))
    (.binary .EQREGEX (.varRef ['y'] .Unknown) (.regex "^b".toList)))))
def exNames : List Str := ["cpu".toList, "my m".toList]
def exDeleteText : Str := deleteLikeText exNames exCond

section
-- the examples state `wp` of concrete runs: keep the elaborator from evaluating them
attribute [local irreducible] wp

example : exDeleteText = " FROM cpu, \"my m\" WHERE host = 'a' AND (x > -1 OR y =~ /^b/)".toList := by decide +kernel

example : wp (runHandler 200 .parseDeleteStatement) (PState.init exDeleteText [] [])
    (fun st s' => st = .deleteSeries (exNames.map nameSrc) exCond ∧ RT.Stand s' [eofRune]) (· = .fuel) :=
  (deleteLike_print_parse_partial 200 (PState.init exDeleteText [] []) exNames exCond [eofRune] (by decide +kernel)
    (by decide +kernel) (by decide +kernel) (Follow.eof _ (by decide)) (init_before exDeleteText (by decide +kernel))).1
end

/-- … and the fuel suffices on this input. -/
example : (match (runHandler 200 .parseDeleteStatement).run (PState.init exDeleteText [] []) with
    | .ok _ => true
    | .error _ => false) = true := by decide +kernel

/-! ### SHOW SERIES, SHOW TAG KEYS, SHOW FIELD KEYS, SHOW MEASUREMENTS -/

/-- `[ON db] [FROM names] [WHERE cond] [LIMIT l] [OFFSET o]`. -/
def showText (db : Str) (names : List Str) (c : Option Expr) (l o : Int) : Str :=
  onDbText db ++ (fromText names ++ (whereText c ++ (posText .LIMIT l ++ posText .OFFSET o)))

theorem showSeries_print_partial (db : Str) (names : List Str) (c : Option Expr) (l o : Int) (h : ∀ m ∈ names, m ≠ []) :
    (Statement.showSeries db (names.map nameSrc) c [] l o).print = tx "SHOW SERIES" ++ showText db names c l o ∧
    (Statement.showFieldKeys db (names.map nameSrc) [] l o).print = tx "SHOW FIELD KEYS" ++ showText db names none l o ∧
    (Statement.showTagKeys db (names.map nameSrc) .ILLEGAL none c [] l o 0 0).print =
      tx "SHOW TAG KEYS" ++ showText db names c l o ∧
    (Statement.showMeasurements [] [] false false none c [] l o).print = tx "SHOW MEASUREMENTS" ++ showText [] [] c l o := by
  have p1 : (Statement.showSeries db (names.map nameSrc) c [] l o).print =
      tx "SHOW SERIES" ++ clauseOn db ++ clauseFrom (names.map nameSrc) ++ clauseWhere c ++ clauseOrderBy [] ++
        clausePos "LIMIT" l ++ clausePos "OFFSET" o := rfl
  have p2 : (Statement.showFieldKeys db (names.map nameSrc) [] l o).print =
      tx "SHOW FIELD KEYS" ++ clauseOn db ++ clauseFrom (names.map nameSrc) ++ clauseOrderBy [] ++
        clausePos "LIMIT" l ++ clausePos "OFFSET" o := rfl
  have p3 : (Statement.showTagKeys db (names.map nameSrc) .ILLEGAL none c [] l o 0 0).print =
      tx "SHOW TAG KEYS" ++ clauseOn db ++ clauseFrom (names.map nameSrc) ++ [] ++ clauseWhere c ++ clauseOrderBy [] ++
        clausePos "LIMIT" l ++ clausePos "OFFSET" o ++ clausePos "SLIMIT" 0 ++ clausePos "SOFFSET" 0 := rfl
  have p4 : (Statement.showMeasurements [] [] false false none c [] l o).print =
      tx "SHOW MEASUREMENTS" ++ [] ++ [] ++ clauseWhere c ++ clauseOrderBy [] ++
        clausePos "LIMIT" l ++ clausePos "OFFSET" o := rfl
  have e0 : clauseOrderBy [] = [] := rfl
  have e1 : clausePos "SLIMIT" 0 = [] := rfl
  have e2 : clausePos "SOFFSET" 0 = [] := rfl
  have e3 : onDbText [] = [] := rfl
  rw [p1, p2, p3, p4, clauseFrom_names names h, clauseWhere_eq, clauseOn_onDbText, (clausePos_eq l).1,
    (clausePos_eq o).2.1, e0, e1, e2]
  simp only [showText, fromText, whereText, e3, List.append_assoc, List.append_nil, List.nil_append, and_self]

/-- The tokens that continue one of these statements. -/
def showStop : List Token := [.EXACT, .CARDINALITY, .ON, .FROM, .COMMA, .WITH, .WHERE, .ORDER, .LIMIT, .OFFSET, .SLIMIT, .SOFFSET]

section
variable (db : Str) (names : List Str) (c : Option Expr) (l o : Int) (k : Str)

theorem show_follow (hk : Follow k showStop) :
    Follow (posText .OFFSET o ++ k) [.EXACT, .CARDINALITY, .ON, .FROM, .COMMA, .WITH, .WHERE, .ORDER, .LIMIT, .SLIMIT, .SOFFSET] ∧
    Follow (posText .LIMIT l ++ (posText .OFFSET o ++ k)) [.EXACT, .CARDINALITY, .ON, .FROM, .COMMA, .WITH, .WHERE, .ORDER] ∧
    Follow (whereText c ++ (posText .LIMIT l ++ (posText .OFFSET o ++ k))) [.EXACT, .CARDINALITY, .ON, .FROM, .COMMA, .WITH] ∧
    Follow (fromText names ++ (whereText c ++ (posText .LIMIT l ++ (posText .OFFSET o ++ k)))) [.EXACT, .CARDINALITY, .ON] := by
  have g4 : Follow (posText .OFFSET o ++ k) [.EXACT, .CARDINALITY, .ON, .FROM, .COMMA, .WITH, .WHERE, .ORDER, .LIMIT, .SLIMIT, .SOFFSET] :=
    Follow.opt (kwText_pos _ _) (by decide +kernel) rfl (by decide) (hk.mono (by decide))
  have g3 : Follow (posText .LIMIT l ++ (posText .OFFSET o ++ k)) [.EXACT, .CARDINALITY, .ON, .FROM, .COMMA, .WITH, .WHERE, .ORDER] :=
    Follow.opt (kwText_pos _ _) (by decide +kernel) rfl (by decide) (g4.mono (by decide))
  have g2 : Follow (whereText c ++ (posText .LIMIT l ++ (posText .OFFSET o ++ k))) [.EXACT, .CARDINALITY, .ON, .FROM, .COMMA, .WITH] :=
    Follow.opt (kwText_where _) (by decide +kernel) rfl (by decide) (g3.mono (by decide))
  have g1 : Follow (fromText names ++ (whereText c ++ (posText .LIMIT l ++ (posText .OFFSET o ++ k)))) [.EXACT, .CARDINALITY, .ON] :=
    Follow.opt (kwText_from _) (by decide +kernel) rfl (by decide) (g2.mono (by decide))
  exact ⟨g4, g3, g2, g1⟩

/-- **Print → parse, SHOW SERIES** `[ON db] [FROM m1, …] [WHERE cond] [LIMIT l] [OFFSET o]`.
Partial: sources are plain measurement names, the condition is `Printable` (see
`deleteLike_print_parse_partial`), and there is no `ORDER BY` clause (the parser accepts
`ORDER BY [time] ASC|DESC`); limit and offset in the parser's range. -/
theorem showSeries_print_parse_partial (fuel : Nat) (s : PState)
    (hexdb : Expressible db) (hex : ∀ m ∈ names, Expressible m) (hc : CondOK c)
    (hl : 0 ≤ l ∧ l ≤ maxInt64) (ho : 0 ≤ o ∧ o ≤ maxInt64) (hk : Follow k showStop)
    (hs : s.Before (showText db names c l o ++ k)) :
    wp (runHandler fuel .parseShowSeriesStatement) s
      (fun st s' => st = .showSeries db (names.map nameSrc) c [] l o ∧ RT.Stand s' k) (· = .fuel) := by
  obtain ⟨g4, g3, g2, g1⟩ := show_follow names c l o k hk
  have g0 : Follow (onDbText db ++ (fromText names ++ (whereText c ++ (posText .LIMIT l ++ (posText .OFFSET o ++ k)))))
      [.EXACT, .CARDINALITY] := Follow.opt (kwText_onDb _) (by decide +kernel) rfl (by decide) (g1.mono (by decide))
  have hs0 : RT.Stand s (onDbText db ++ (fromText names ++ (whereText c ++ (posText .LIMIT l ++ (posText .OFFSET o ++ k))))) := by
    have := hs.stand
    simpa [showText, List.append_assoc] using this
  obtain ⟨T1, hT1, hne1⟩ := g0.starts (t := .EXACT) (by simp)
  obtain ⟨s1, h1, st1⟩ := optTok_absent_stand .EXACT s _ T1 hs0 hT1 hne1
  obtain ⟨T2, hT2, hne2⟩ := g0.starts (t := .CARDINALITY) (by simp)
  obtain ⟨s2, h2, st2⟩ := optTok_absent_stand .CARDINALITY s1 _ T2 st1 hT2 hne2
  obtain ⟨s3, h3, st3⟩ := parseOnDb_stand s2 db _ hexdb (g1.mono (by decide)) st2
  obtain ⟨s4, h4, st4⟩ := parseOptFrom_names s3 names _ hex (g2.mono (by decide)) st3
  simp only [runHandler, parseShowSeries]
  rw [wp_bind, wp_of_run_ok h1, wp_bind, wp_of_run_ok h2]
  simp only [Bool.false_eq_true, if_false]
  rw [wp_bind, wp_of_run_ok h3, wp_bind, wp_of_run_ok h4, wp_bind]
  refine wp_mono (parseCondition_print fuel s4 c _ hc (g3.mono (by decide)) st4) ?_ (fun _ h => h)
  intro c' s5 ⟨hc', st5⟩
  subst hc'
  obtain ⟨s6, h6, st6⟩ := parseOrderBy_absent s5 _ (g3.mono (by decide)) st5
  obtain ⟨s7, h7, st7⟩ := parseOptTokInt_print .LIMIT (by decide +kernel) s6 l _ hl.1 hl.2 (g4.mono (by decide)) st6
  obtain ⟨s8, h8, st8⟩ := parseOptTokInt_print .OFFSET (by decide +kernel) s7 o k ho.1 ho.2 (hk.mono (by decide)) st7
  rw [wp_bind, wp_of_run_ok h6, wp_bind, wp_of_run_ok h7, wp_bind, wp_of_run_ok h8, wp_pure]
  exact ⟨rfl, st8⟩

/-- **Print → parse, SHOW FIELD KEYS** `[ON db] [FROM m1, …] [LIMIT l] [OFFSET o]` (no expression:
the handler returns exactly, without a fuel alternative). Partial: plain measurement names, no `ORDER BY`. -/
theorem showFieldKeys_print_parse_partial (fuel : Nat) (s : PState)
    (hexdb : Expressible db) (hex : ∀ m ∈ names, Expressible m)
    (hl : 0 ≤ l ∧ l ≤ maxInt64) (ho : 0 ≤ o ∧ o ≤ maxInt64) (hk : Follow k showStop)
    (hs : s.Before (showText db names none l o ++ k)) :
    ∃ s', (runHandler fuel .parseShowFieldKeysStatement).run s =
      .ok (.showFieldKeys db (names.map nameSrc) [] l o, s') ∧ RT.Stand s' k := by
  obtain ⟨g4, g3, g2, g1⟩ := show_follow names none l o k hk
  have hs0 : RT.Stand s (onDbText db ++ (fromText names ++ (posText .LIMIT l ++ (posText .OFFSET o ++ k)))) := by
    have := hs.stand
    simpa [showText, whereText, List.append_assoc] using this
  have g2' : Follow (posText .LIMIT l ++ (posText .OFFSET o ++ k)) [.EXACT, .CARDINALITY, .ON, .FROM, .COMMA, .WITH] := by
    simpa [whereText] using g2
  have g1' : Follow (fromText names ++ (posText .LIMIT l ++ (posText .OFFSET o ++ k))) [.EXACT, .CARDINALITY, .ON] := by
    simpa [whereText] using g1
  obtain ⟨s3, h3, st3⟩ := parseOnDb_stand s db _ hexdb (g1'.mono (by decide)) hs0
  obtain ⟨s4, h4, st4⟩ := parseOptFrom_names s3 names _ hex (g2'.mono (by decide)) st3
  obtain ⟨s6, h6, st6⟩ := parseOrderBy_absent s4 _ (g3.mono (by decide)) st4
  obtain ⟨s7, h7, st7⟩ := parseOptTokInt_print .LIMIT (by decide +kernel) s6 l _ hl.1 hl.2 (g4.mono (by decide)) st6
  obtain ⟨s8, h8, st8⟩ := parseOptTokInt_print .OFFSET (by decide +kernel) s7 o k ho.1 ho.2 (hk.mono (by decide)) st7
  refine ⟨s8, ?_, st8⟩
  simp only [runHandler, parseShowFieldKeys]
  rw [P.run_bind _ _ _ _ _ h3, P.run_bind _ _ _ _ _ h4, P.run_bind _ _ _ _ _ h6, P.run_bind _ _ _ _ _ h7,
    P.run_bind _ _ _ _ _ h8]
  rfl

/-- **Print → parse, SHOW TAG KEYS** `[ON db] [FROM m1, …] [WHERE cond] [LIMIT l] [OFFSET o]`.
Partial: as `showSeries_print_parse_partial`; additionally no `WITH KEY` clause and no SLIMIT / SOFFSET. -/
theorem showTagKeys_print_parse_partial (fuel : Nat) (s : PState)
    (hexdb : Expressible db) (hex : ∀ m ∈ names, Expressible m) (hc : CondOK c)
    (hl : 0 ≤ l ∧ l ≤ maxInt64) (ho : 0 ≤ o ∧ o ≤ maxInt64) (hk : Follow k showStop)
    (hs : s.Before (showText db names c l o ++ k)) :
    wp (runHandler fuel .parseShowTagKeysStatement) s
      (fun st s' => st = .showTagKeys db (names.map nameSrc) .ILLEGAL none c [] l o 0 0 ∧ RT.Stand s' k) (· = .fuel) := by
  obtain ⟨g4, g3, g2, g1⟩ := show_follow names c l o k hk
  have hs0 : RT.Stand s (onDbText db ++ (fromText names ++ (whereText c ++ (posText .LIMIT l ++ (posText .OFFSET o ++ k))))) := by
    have := hs.stand
    simpa [showText, List.append_assoc] using this
  obtain ⟨s3, h3, st3⟩ := parseOnDb_stand s db _ hexdb (g1.mono (by decide)) hs0
  obtain ⟨s4, h4, st4⟩ := parseOptFrom_names s3 names _ hex (g2.mono (by decide)) st3
  obtain ⟨lx, s5, h5, t5, st5⟩ := peek_stand s4 _ _ .WITH g2 (by decide) st4
  simp only [runHandler, parseShowTagKeys]
  rw [wp_bind, wp_of_run_ok h3, wp_bind, wp_of_run_ok h4, wp_bind, wp_of_run_ok h5, wp_bind, unscan_wp]
  simp only [t5, if_false, pure_bind]
  rw [wp_bind]
  refine wp_mono (parseCondition_print fuel (unsc s5) c _ hc (g3.mono (by decide)) st5) ?_ (fun _ h => h)
  intro c' s6 ⟨hc', st6⟩
  subst hc'
  obtain ⟨s7, h7, st7⟩ := parseOrderBy_absent s6 _ (g3.mono (by decide)) st6
  obtain ⟨s8, h8, st8⟩ := parseOptTokInt_print .LIMIT (by decide +kernel) s7 l _ hl.1 hl.2 (g4.mono (by decide)) st7
  obtain ⟨s9, h9, st9⟩ := parseOptTokInt_print .OFFSET (by decide +kernel) s8 o k ho.1 ho.2 (hk.mono (by decide)) st8
  obtain ⟨s10, h10, st10⟩ := parseOptTokInt_print .SLIMIT (by decide +kernel) s9 0 k (by decide) (by decide)
    (hk.mono (by decide)) (by simpa [posText] using st9)
  obtain ⟨s11, h11, st11⟩ := parseOptTokInt_print .SOFFSET (by decide +kernel) s10 0 k (by decide) (by decide)
    (hk.mono (by decide)) (by simpa [posText] using st10)
  rw [wp_bind, wp_of_run_ok h7, wp_bind, wp_of_run_ok h8, wp_bind, wp_of_run_ok h9, wp_bind, wp_of_run_ok h10,
    wp_bind, wp_of_run_ok h11, wp_pure]
  exact ⟨rfl, st11⟩

/-- **Print → parse, SHOW MEASUREMENTS** `[WHERE cond] [LIMIT l] [OFFSET o]`.
Partial: no `ON db[.rp]`, no `WITH MEASUREMENT`, no `ORDER BY`; the condition is `Printable`. -/
theorem showMeasurements_print_parse_partial (fuel : Nat) (s : PState) (hc : CondOK c)
    (hl : 0 ≤ l ∧ l ≤ maxInt64) (ho : 0 ≤ o ∧ o ≤ maxInt64) (hk : Follow k showStop)
    (hs : s.Before (showText [] [] c l o ++ k)) :
    wp (runHandler fuel .parseShowMeasurementsStatement) s
      (fun st s' => st = .showMeasurements [] [] false false none c [] l o ∧ RT.Stand s' k) (· = .fuel) := by
  obtain ⟨g4, g3, g2, g1⟩ := show_follow [] c l o k hk
  have hs0 : RT.Stand s (whereText c ++ (posText .LIMIT l ++ (posText .OFFSET o ++ k))) := by
    have := hs.stand
    simpa [showText, onDbText, fromText, List.append_assoc] using this
  obtain ⟨T1, hT1, hne1⟩ := g2.starts (t := .ON) (by simp)
  obtain ⟨s1, h1, st1⟩ := optTok_absent_stand .ON s _ T1 hs0 hT1 hne1
  obtain ⟨T2, hT2, hne2⟩ := g2.starts (t := .WITH) (by simp)
  obtain ⟨s2, h2, st2⟩ := optTok_absent_stand .WITH s1 _ T2 st1 hT2 hne2
  simp only [runHandler, parseShowMeasurements]
  rw [wp_bind, wp_bind, wp_of_run_ok h1]
  simp only [Bool.false_eq_true, if_false]
  rw [wp_pure, wp_bind, wp_bind, wp_of_run_ok h2]
  simp only [Bool.false_eq_true, if_false]
  rw [wp_pure, wp_bind]
  refine wp_mono (parseCondition_print fuel s2 c _ hc (g3.mono (by decide)) st2) ?_ (fun _ h => h)
  intro c' s5 ⟨hc', st5⟩
  subst hc'
  obtain ⟨s6, h6, st6⟩ := parseOrderBy_absent s5 _ (g3.mono (by decide)) st5
  obtain ⟨s7, h7, st7⟩ := parseOptTokInt_print .LIMIT (by decide +kernel) s6 l _ hl.1 hl.2 (g4.mono (by decide)) st6
  obtain ⟨s8, h8, st8⟩ := parseOptTokInt_print .OFFSET (by decide +kernel) s7 o k ho.1 ho.2 (hk.mono (by decide)) st7
  rw [wp_bind, wp_of_run_ok h6, wp_bind, wp_of_run_ok h7, wp_bind, wp_of_run_ok h8, wp_pure]
  exact ⟨rfl, st8⟩

end

/-- Non-vacuity: `SHOW SERIES ON "my db" FROM cpu, "my m" WHERE … LIMIT 10 OFFSET 3`, `SHOW FIELD KEYS FROM cpu, "my m" LIMIT 5`. -/
def exShowText : Str := showText "my db".toList exNames exCond 10 3
def exFieldKeysText : Str := showText [] exNames none 5 0

example : exShowText =
    " ON \"my db\" FROM cpu, \"my m\" WHERE host = 'a' AND (x > -1 OR y =~ /^b/) LIMIT 10 OFFSET 3".toList ∧
    exFieldKeysText = " FROM cpu, \"my m\" LIMIT 5".toList := by decide +kernel

section
attribute [local irreducible] wp
example : wp (runHandler 200 .parseShowSeriesStatement) (PState.init exShowText [] [])
    (fun st s' => st = .showSeries "my db".toList (exNames.map nameSrc) exCond [] 10 3 ∧ RT.Stand s' [eofRune])
    (· = .fuel) :=
  showSeries_print_parse_partial "my db".toList exNames exCond 10 3 [eofRune] 200 (PState.init exShowText [] [])
    (by decide +kernel) (by decide +kernel) (by decide +kernel) (by decide) (by decide) (Follow.eof _ (by decide))
    (init_before exShowText (by decide +kernel))

example : wp (runHandler 200 .parseShowTagKeysStatement) (PState.init exShowText [] [])
    (fun st s' => st = .showTagKeys "my db".toList (exNames.map nameSrc) .ILLEGAL none exCond [] 10 3 0 0 ∧
      RT.Stand s' [eofRune]) (· = .fuel) :=
  showTagKeys_print_parse_partial "my db".toList exNames exCond 10 3 [eofRune] 200 (PState.init exShowText [] [])
    (by decide +kernel) (by decide +kernel) (by decide +kernel) (by decide) (by decide) (Follow.eof _ (by decide))
    (init_before exShowText (by decide +kernel))
end

example : ∃ s', (runHandler 10 .parseShowFieldKeysStatement).run (PState.init exFieldKeysText [] []) =
    .ok (.showFieldKeys [] (exNames.map nameSrc) [] 5 0, s') := by
  obtain ⟨s', h, _⟩ := showFieldKeys_print_parse_partial [] exNames 5 0 [eofRune] 10 (PState.init exFieldKeysText [] [])
    (by decide +kernel) (by decide +kernel) (by decide) (by decide) (Follow.eof _ (by decide))
    (init_before exFieldKeysText (by decide +kernel))
  exact ⟨s', h⟩

example : (match (runHandler 200 .parseShowSeriesStatement).run (PState.init exShowText [] []) with
    | .ok _ => true
    | .error _ => false) = true := by decide +kernel

/-! ### SELECT: a first class of statements -/

/-- `SELECT f, fs… FROM n, names… [WHERE c] [LIMIT l] [OFFSET o] [SLIMIT sl] [SOFFSET so]` as the parser builds it
(no target, no GROUP BY, no fill, no ORDER BY, no time zone; a raw query since the fields contain no call). -/
def simpleSelect (f : Field) (fs : List Field) (n : Str) (names : List Str) (c : Option Expr) (l o sl so : Int) :
    SelectStmt :=
  .mk (f :: fs) none [] ((n :: names).map nameSrc) c [] l o sl so true .null .none none [] false false [] false

/-- The statements the theorem covers (decidable): fields are printable expressions (C03's class,
`RT.rtOK false`) that contain none of the comparison / logical operators `parseField` rejects, with any
(expressible) alias; sources are non-empty expressible names; the condition is printable; the four
limits are in the parser's range. -/
def SimpleSelect (f : Field) (fs : List Field) (n : Str) (names : List Str) (c : Option Expr) (l o sl so : Int) : Prop :=
  (∀ g ∈ f :: fs, FieldOK g) ∧ (∀ m ∈ n :: names, Expressible m ∧ m ≠ []) ∧ CondOK c ∧
  (0 ≤ l ∧ l ≤ maxInt64) ∧ (0 ≤ o ∧ o ≤ maxInt64) ∧ (0 ≤ sl ∧ sl ≤ maxInt64) ∧ (0 ≤ so ∧ so ≤ maxInt64)

instance (f : Field) (fs : List Field) (n : Str) (names : List Str) (c : Option Expr) (l o sl so : Int) :
    Decidable (SimpleSelect f fs n names c l o sl so) := by unfold SimpleSelect; exact inferInstance

/-- What is printed after the keyword SELECT. -/
def selectText (f : Field) (fs : List Field) (n : Str) (names : List Str) (c : Option Expr) (l o sl so : Int) : Str :=
  ' ' :: (f.print ++ (moreFields fs ++ (fromText (n :: names) ++ (whereText c ++ (posText .LIMIT l ++
    (posText .OFFSET o ++ (posText .SLIMIT sl ++ posText .SOFFSET so)))))))

theorem select_print_partial (f : Field) (fs : List Field) (n : Str) (names : List Str) (c : Option Expr)
    (l o sl so : Int) (h : ∀ m ∈ n :: names, m ≠ []) :
    (Statement.select (simpleSelect f fs n names c l o sl so)).print = tx "SELECT" ++ selectText f fs n names c l o sl so := by
  have p1 : (Statement.select (simpleSelect f fs n names c l o sl so)).print =
      tx "SELECT " ++ joinWith (tx ", ") ((f :: fs).map Field.print) ++ [] ++
        (tx " FROM " ++ printSources ((n :: names).map nameSrc)) ++ clauseWhere c ++ clauseGroupBy [] ++
        printFill .null .none ++ clauseOrderBy [] ++ clausePos "LIMIT" l ++ clausePos "OFFSET" o ++
        clausePos "SLIMIT" sl ++ clausePos "SOFFSET" so ++ [] := rfl
  have e0 : clauseOrderBy [] = [] := rfl
  have e1 : clauseGroupBy [] = [] := rfl
  have e2 : printFill .null .none = [] := rfl
  have e3 : tx "SELECT " = tx "SELECT" ++ [' '] := by decide +kernel
  have e4 : tx " FROM " = ' ' :: (Token.FROM.str ++ [' ']) := by decide +kernel
  rw [p1, joinFields, printSources_names n names h, clauseWhere_eq, (clausePos_eq l).1, (clausePos_eq o).2.1,
    (clausePos_eq sl).2.2.1, (clausePos_eq so).2.2.2, e0, e1, e2, e3, e4]
  simp only [selectText, fromText, List.append_assoc, List.append_nil, List.nil_append, List.cons_append]

theorem hasCall_false (e : Expr) (h : RT.rtOK false e = true) : e.hasCall = false := by
  fun_induction Expr.hasCall e with
  | case1 n a => simp [RT.rtOK] at h
  | case2 op l r ihl ihr =>
    obtain ⟨_, h3, h4, _, _⟩ := RT.rtOK_binary h
    rw [ihl h3, Bool.false_or]
    split at h4
    · obtain ⟨src, rfl, _⟩ := RT.regexLitB_elim h4
      rfl
    · exact ihr h4
  | case3 e ih => rw [RT.rtOK] at h; exact ih h
  | case4 e h1 h2 h3 => rfl

/-- The tokens that continue a SELECT statement of this class. -/
def selectStop : List Token :=
  [.AS, .COMMA, .INTO, .FROM, .WHERE, .GROUP, .IDENT, .ORDER, .LIMIT, .OFFSET, .SLIMIT, .SOFFSET]

/-- **Print → parse, SELECT** (first class). `parseSelectStatement` on the text printed after the
keyword `SELECT`, followed by `k`, returns exactly the statement and stands before `k` — or the
fuel was too small.

Partial — the class `SimpleSelect`: fields are `Printable` expressions without a call (hence a
raw query), wildcard, number or duration literal, each with an optional alias; sources are plain
measurement names; optional WHERE (printable condition), LIMIT, OFFSET, SLIMIT, SOFFSET. Not
covered (all producible by the parser): INTO, subqueries, regex / qualified sources, GROUP BY, fill(),
ORDER BY, TZ(), calls and the negated-operand trees of the open finding. The continuation `k` starts
(after at most one blank) with a token that is no operator, no identifier and no keyword that
continues the statement (`selectStop`); the end of the input and `)` qualify. -/
theorem select_print_parse_partial (fuel : Nat) (s : PState) (f : Field) (fs : List Field) (n : Str) (names : List Str)
    (c : Option Expr) (l o sl so : Int) (k : Str) (hok : SimpleSelect f fs n names c l o sl so)
    (hk : Follow k selectStop) (hs : s.Before (selectText f fs n names c l o sl so ++ k)) :
    wp (runHandler (fuel + 1) .parseSelectStatement_targetNotRequired) s
      (fun st s' => st = .select (simpleSelect f fs n names c l o sl so) ∧ RT.Stand s' k) (· = .fuel) := by
  obtain ⟨hf, hn, hc, hl, ho, hsl, hso⟩ := hok
  have g7 : Follow (posText .SOFFSET so ++ k) [.AS, .COMMA, .INTO, .FROM, .WHERE, .GROUP, .IDENT, .ORDER, .LIMIT, .OFFSET, .SLIMIT] :=
    Follow.opt (kwText_pos _ _) (by decide +kernel) rfl (by decide) (hk.mono (by decide))
  have g6 : Follow (posText .SLIMIT sl ++ (posText .SOFFSET so ++ k))
      [.AS, .COMMA, .INTO, .FROM, .WHERE, .GROUP, .IDENT, .ORDER, .LIMIT, .OFFSET] :=
    Follow.opt (kwText_pos _ _) (by decide +kernel) rfl (by decide) (g7.mono (by decide))
  have g5 : Follow (posText .OFFSET o ++ (posText .SLIMIT sl ++ (posText .SOFFSET so ++ k)))
      [.AS, .COMMA, .INTO, .FROM, .WHERE, .GROUP, .IDENT, .ORDER, .LIMIT] :=
    Follow.opt (kwText_pos _ _) (by decide +kernel) rfl (by decide) (g6.mono (by decide))
  have g4 : Follow (posText .LIMIT l ++ (posText .OFFSET o ++ (posText .SLIMIT sl ++ (posText .SOFFSET so ++ k))))
      [.AS, .COMMA, .INTO, .FROM, .WHERE, .GROUP, .IDENT, .ORDER] :=
    Follow.opt (kwText_pos _ _) (by decide +kernel) rfl (by decide) (g5.mono (by decide))
  have g3 : Follow (whereText c ++ (posText .LIMIT l ++ (posText .OFFSET o ++ (posText .SLIMIT sl ++
      (posText .SOFFSET so ++ k))))) [.AS, .COMMA, .INTO, .FROM] :=
    Follow.opt (kwText_where _) (by decide +kernel) rfl (by decide) (g4.mono (by decide))
  have g2 : Follow (fromText (n :: names) ++ (whereText c ++ (posText .LIMIT l ++ (posText .OFFSET o ++
      (posText .SLIMIT sl ++ (posText .SOFFSET so ++ k)))))) [.AS, .COMMA, .INTO] :=
    Follow.opt (kwText_from _) (by decide +kernel) rfl (by decide) (g3.mono (by decide))
  have hs0 : s.Before (' ' :: (f.print ++ (moreFields fs ++ (fromText (n :: names) ++ (whereText c ++ (posText .LIMIT l ++
      (posText .OFFSET o ++ (posText .SLIMIT sl ++ (posText .SOFFSET so ++ k))))))))) := by
    simpa [selectText, List.append_assoc] using hs
  simp only [runHandler, parseSelect, parseSelectBody]
  rw [wp_bind, wp_bind]
  refine wp_mono (parseFields_print fuel s f fs _ hf (g2.mono (by decide)) hs0) ?_ (fun _ h => h)
  intro flds s1 ⟨hflds, st1⟩
  subst hflds
  obtain ⟨s2, h2, st2⟩ := parseTarget_absent s1 _ (g2.mono (by decide)) st1
  have st2' : RT.Stand s2 ([' '] ++ (Token.FROM.str ++ (' ' :: (qi n ++ (moreNames names ++ (whereText c ++
      (posText .LIMIT l ++ (posText .OFFSET o ++ (posText .SLIMIT sl ++ (posText .SOFFSET so ++ k)))))))))) := by
    simpa [fromText, List.append_assoc] using st2
  obtain ⟨lx3, s3, h3, t3, _, b3⟩ := scanIW_stand s2 [' '] Token.FROM.str _ .FROM [] Gap.blank st2'
    (scansAs_kw .FROM _ (by decide +kernel) (WordEnd.blank _))
  have h3' : (expectTok .FROM ["FROM"]).run s2 = .ok ((), s3) := by
    unfold expectTok
    rw [P.run_bind _ _ _ _ _ h3]
    simp [t3, StateT.run, pure, StateT.pure, Except.pure]
  obtain ⟨s4, h4, st4⟩ := parseSourcesWith_names (some (parseSelect fuel false)) s3 n names _ (fun m hm => (hn m hm).1)
    (g3.mono (by decide)) b3
  rw [wp_bind, wp_of_run_ok h2, wp_bind, wp_of_run_ok h3', wp_bind, wp_of_run_ok h4, wp_bind]
  refine wp_mono (parseCondition_print fuel s4 c _ hc (g4.mono (by decide)) st4) ?_ (fun _ h => h)
  intro c' s5 ⟨hc', st5⟩
  subst hc'
  obtain ⟨s6, h6, st6⟩ := parseDimensions_absent fuel s5 _ (g4.mono (by decide)) st5
  obtain ⟨s7, h7, st7⟩ := parseFill_absent fuel s6 _ (g4.mono (by decide)) st6
  obtain ⟨s8, h8, st8⟩ := parseOrderBy_absent s7 _ (g4.mono (by decide)) st7
  obtain ⟨s9, h9, st9⟩ := parseOptTokInt_print .LIMIT (by decide +kernel) s8 l _ hl.1 hl.2 (g5.mono (by decide)) st8
  obtain ⟨s10, h10, st10⟩ := parseOptTokInt_print .OFFSET (by decide +kernel) s9 o _ ho.1 ho.2 (g6.mono (by decide)) st9
  obtain ⟨s11, h11, st11⟩ := parseOptTokInt_print .SLIMIT (by decide +kernel) s10 sl _ hsl.1 hsl.2 (g7.mono (by decide)) st10
  obtain ⟨s12, h12, st12⟩ := parseOptTokInt_print .SOFFSET (by decide +kernel) s11 so k hso.1 hso.2 (hk.mono (by decide)) st11
  obtain ⟨s13, h13, st13⟩ := parseLocation_absent fuel s12 k (hk.mono (by decide)) st12
  rw [wp_bind, wp_of_run_ok h6, wp_bind, wp_of_run_ok h7]
  simp only []
  rw [wp_bind, wp_of_run_ok h8, wp_bind, wp_of_run_ok h9, wp_bind, wp_of_run_ok h10, wp_bind, wp_of_run_ok h11,
    wp_bind, wp_of_run_ok h12, wp_bind, wp_of_run_ok h13, wp_pure, wp_pure]
  refine ⟨?_, st13⟩
  have hraw : (!(f :: fs).any fun g => g.expr.hasCall) = true := by
    rw [Bool.not_eq_true', List.any_eq_false]
    intro g hg
    rw [hasCall_false g.expr (hf g hg).1]
    simp
  rw [hraw]
  rfl

/-- Non-vacuity: `SELECT a + 1 AS "x y", b * (c - 2), "select" FROM cpu, "my m" WHERE … LIMIT 10 OFFSET 3 SLIMIT 2`. -/
def exF1 : Field := ⟨.binary .ADD (.varRef ['a'] .Unknown) (.integer 1), "x y".toList⟩
def exFs : List Field :=
  [⟨.binary .MUL (.varRef ['b'] .Unknown) (.paren (.binary .SUB (.varRef ['c'] .Unknown) (.integer 2))), []⟩,
   ⟨.varRef "select".toList .Unknown, []⟩]
def exSelectText : Str := selectText exF1 exFs "cpu".toList ["my m".toList] exCond 10 3 2 0

example : exSelectText = (" a + 1 AS \"x y\", b * (c - 2), \"select\" FROM cpu, \"my m\" " ++
    "WHERE host = 'a' AND (x > -1 OR y =~ /^b/) LIMIT 10 OFFSET 3 SLIMIT 2").toList := by decide +kernel

example : SimpleSelect exF1 exFs "cpu".toList ["my m".toList] exCond 10 3 2 0 := by decide +kernel

-- a field with a comparison is not in the class (the parser rejects it), nor is a call
example : ¬ FieldOK ⟨.binary .GT (.varRef ['a'] .Unknown) (.integer 1), []⟩ := by decide +kernel
example : ¬ FieldOK ⟨.call "mean".toList [.varRef ['a'] .Unknown], []⟩ := by decide +kernel

section
attribute [local irreducible] wp
example : wp (runHandler 201 .parseSelectStatement_targetNotRequired) (PState.init exSelectText [] [])
    (fun st s' => st = .select (simpleSelect exF1 exFs "cpu".toList ["my m".toList] exCond 10 3 2 0) ∧
      RT.Stand s' [eofRune]) (· = .fuel) :=
  select_print_parse_partial 200 (PState.init exSelectText [] []) exF1 exFs "cpu".toList ["my m".toList] exCond 10 3 2 0
    [eofRune] (by decide +kernel) (Follow.eof _ (by decide)) (init_before exSelectText (by decide +kernel))
end

example : (match (runHandler 201 .parseSelectStatement_targetNotRequired).run (PState.init exSelectText [] []) with
    | .ok _ => true
    | .error _ => false) = true := by decide +kernel


/-! ### SELECT with qualified sources and `INTO` -/

/-- `SELECT f, fs… [INTO tgt] FROM q, qs… [WHERE c] [LIMIT l] [OFFSET o] [SLIMIT sl] [SOFFSET so]` as the parser
builds it; measurements are given as (database, retention policy, name). -/
def intoSelect (f : Field) (fs : List Field) (tgt : Option (Str × Str × Str)) (q : Str × Str × Str)
    (qs : List (Str × Str × Str)) (c : Option Expr) (l o sl so : Int) : SelectStmt :=
  .mk (f :: fs) (tgt.map tgtM) [] ((q :: qs).map qualSrc) c [] l o sl so true .null .none none [] false false [] false

/-- The target, when there is one, has three expressible parts and a name. -/
def TargetOK (tgt : Option (Str × Str × Str)) : Prop := ∀ t, tgt = some t → QualOK t

instance (tgt : Option (Str × Str × Str)) : Decidable (TargetOK tgt) :=
  match tgt with
  | none => isTrue (fun _ h => by cases h)
  | some t => if h : QualOK t then isTrue (fun t' ht => by cases ht; exact h)
    else isFalse (fun hc => h (hc t rfl))

/-- The statements `selectInto_print_parse_partial` covers (decidable): `SimpleSelect` with measurements
`db.rp.m` / `db..m` / `rp.m` / `m` as sources and as target — every part expressible (no NUL, no CR), the
name not empty (finding `empty-identifier-not-printed`: `a.b.` and `INTO a.b.:MEASUREMENT` are other texts). -/
def IntoSelect (f : Field) (fs : List Field) (tgt : Option (Str × Str × Str)) (q : Str × Str × Str)
    (qs : List (Str × Str × Str)) (c : Option Expr) (l o sl so : Int) : Prop :=
  (∀ g ∈ f :: fs, FieldOK g) ∧ TargetOK tgt ∧ (∀ m ∈ q :: qs, QualOK m) ∧ CondOK c ∧
  (0 ≤ l ∧ l ≤ maxInt64) ∧ (0 ≤ o ∧ o ≤ maxInt64) ∧ (0 ≤ sl ∧ sl ≤ maxInt64) ∧ (0 ≤ so ∧ so ≤ maxInt64)

instance (f : Field) (fs : List Field) (tgt : Option (Str × Str × Str)) (q : Str × Str × Str)
    (qs : List (Str × Str × Str)) (c : Option Expr) (l o sl so : Int) :
    Decidable (IntoSelect f fs tgt q qs c l o sl so) := by unfold IntoSelect; exact inferInstance

/-- What is printed after the keyword SELECT. -/
def selectIntoText (f : Field) (fs : List Field) (tgt : Option (Str × Str × Str)) (q : Str × Str × Str)
    (qs : List (Str × Str × Str)) (c : Option Expr) (l o sl so : Int) : Str :=
  ' ' :: (f.print ++ (moreFields fs ++ (targetText tgt ++ (fromQualText q qs ++ (whereText c ++ (posText .LIMIT l ++
    (posText .OFFSET o ++ (posText .SLIMIT sl ++ posText .SOFFSET so))))))))

/-- The pieces are what `SelectStatement.String()` writes (for every value, also outside the class). -/
theorem selectInto_print (f : Field) (fs : List Field) (tgt : Option (Str × Str × Str)) (q : Str × Str × Str)
    (qs : List (Str × Str × Str)) (c : Option Expr) (l o sl so : Int) :
    (Statement.select (intoSelect f fs tgt q qs c l o sl so)).print =
      tx "SELECT" ++ selectIntoText f fs tgt q qs c l o sl so := by
  have p1 : (Statement.select (intoSelect f fs tgt q qs c l o sl so)).print =
      tx "SELECT " ++ joinWith (tx ", ") ((f :: fs).map Field.print) ++ targetText tgt ++
        (tx " FROM " ++ printSources ((q :: qs).map qualSrc)) ++ clauseWhere c ++ clauseGroupBy [] ++
        printFill .null .none ++ clauseOrderBy [] ++ clausePos "LIMIT" l ++ clausePos "OFFSET" o ++
        clausePos "SLIMIT" sl ++ clausePos "SOFFSET" so ++ [] := by
    cases tgt <;> rfl
  have e0 : clauseOrderBy [] = [] := rfl
  have e1 : clauseGroupBy [] = [] := rfl
  have e2 : printFill .null .none = [] := rfl
  have e3 : tx "SELECT " = tx "SELECT" ++ [' '] := by decide +kernel
  have e4 : tx " FROM " = ' ' :: (Token.FROM.str ++ [' ']) := by decide +kernel
  rw [p1, joinFields, printSources_quals q qs, clauseWhere_eq, (clausePos_eq l).1, (clausePos_eq o).2.1,
    (clausePos_eq sl).2.2.1, (clausePos_eq so).2.2.2, e0, e1, e2, e3, e4]
  simp only [selectIntoText, fromQualText, List.append_assoc, List.append_nil, List.nil_append, List.cons_append]

/-- **Print → parse, SELECT with qualified sources and `INTO`.** `parseSelectStatement` on the text printed
after the keyword `SELECT`, followed by `k`, returns exactly the statement — the target and every source with
Database / RetentionPolicy / Name in their slots (`db.rp.m`, `db..m`, `rp.m`, `m`) — and stands before `k`, or
the fuel was too small.

Partial — the class `IntoSelect`: as `SimpleSelect` (printable fields without calls, printable condition,
limits in range) with qualified measurements whose name is not empty (finding `empty-identifier-not-printed`).
Not covered here: subqueries, regex sources, GROUP BY, fill(), ORDER BY, TZ() (see
`selectClauses_print_parse_partial`), calls, wildcards, number / duration literals in fields and conditions. -/
theorem selectInto_print_parse_partial (fuel : Nat) (s : PState) (f : Field) (fs : List Field)
    (tgt : Option (Str × Str × Str)) (q : Str × Str × Str) (qs : List (Str × Str × Str))
    (c : Option Expr) (l o sl so : Int) (k : Str) (hok : IntoSelect f fs tgt q qs c l o sl so)
    (hk : Follow k selectStop) (hs : s.Before (selectIntoText f fs tgt q qs c l o sl so ++ k)) :
    wp (runHandler (fuel + 1) .parseSelectStatement_targetNotRequired) s
      (fun st s' => st = .select (intoSelect f fs tgt q qs c l o sl so) ∧ RT.Stand s' k) (· = .fuel) := by
  obtain ⟨hf, ht, hn, hc, hl, ho, hsl, hso⟩ := hok
  have g7 : Follow (posText .SOFFSET so ++ k) [.AS, .COMMA, .INTO, .FROM, .WHERE, .GROUP, .IDENT, .ORDER, .LIMIT, .OFFSET, .SLIMIT] :=
    Follow.opt (kwText_pos _ _) (by decide +kernel) rfl (by decide) (hk.mono (by decide))
  have g6 : Follow (posText .SLIMIT sl ++ (posText .SOFFSET so ++ k))
      [.AS, .COMMA, .INTO, .FROM, .WHERE, .GROUP, .IDENT, .ORDER, .LIMIT, .OFFSET] :=
    Follow.opt (kwText_pos _ _) (by decide +kernel) rfl (by decide) (g7.mono (by decide))
  have g5 : Follow (posText .OFFSET o ++ (posText .SLIMIT sl ++ (posText .SOFFSET so ++ k)))
      [.AS, .COMMA, .INTO, .FROM, .WHERE, .GROUP, .IDENT, .ORDER, .LIMIT] :=
    Follow.opt (kwText_pos _ _) (by decide +kernel) rfl (by decide) (g6.mono (by decide))
  have g4 : Follow (posText .LIMIT l ++ (posText .OFFSET o ++ (posText .SLIMIT sl ++ (posText .SOFFSET so ++ k))))
      [.AS, .COMMA, .INTO, .FROM, .WHERE, .GROUP, .IDENT, .ORDER] :=
    Follow.opt (kwText_pos _ _) (by decide +kernel) rfl (by decide) (g5.mono (by decide))
  have g3 : Follow (whereText c ++ (posText .LIMIT l ++ (posText .OFFSET o ++ (posText .SLIMIT sl ++
      (posText .SOFFSET so ++ k))))) [.AS, .COMMA, .INTO, .FROM] :=
    Follow.opt (kwText_where _) (by decide +kernel) rfl (by decide) (g4.mono (by decide))
  have g2 : Follow (fromQualText q qs ++ (whereText c ++ (posText .LIMIT l ++ (posText .OFFSET o ++
      (posText .SLIMIT sl ++ (posText .SOFFSET so ++ k)))))) [.AS, .COMMA, .INTO] :=
    Follow.opt (kwText_fromQual _ _) (by decide +kernel) rfl (by decide) (g3.mono (by decide))
  have g1 : Follow (targetText tgt ++ (fromQualText q qs ++ (whereText c ++ (posText .LIMIT l ++ (posText .OFFSET o ++
      (posText .SLIMIT sl ++ (posText .SOFFSET so ++ k))))))) [.AS, .COMMA] :=
    Follow.opt (kwText_target _) (by decide +kernel) rfl (by decide) (g2.mono (by decide))
  have hs0 : s.Before (' ' :: (f.print ++ (moreFields fs ++ (targetText tgt ++ (fromQualText q qs ++ (whereText c ++
      (posText .LIMIT l ++ (posText .OFFSET o ++ (posText .SLIMIT sl ++ (posText .SOFFSET so ++ k)))))))))) := by
    simpa [selectIntoText, List.append_assoc] using hs
  simp only [runHandler, parseSelect, parseSelectBody]
  rw [wp_bind, wp_bind]
  refine wp_mono (parseFields_print fuel s f fs _ hf g1 hs0) ?_ (fun _ h => h)
  intro flds s1 ⟨hflds, st1⟩
  subst hflds
  obtain ⟨s2, lx3, s3, h2, h3, t3, b3⟩ := parseTarget_stand s1 tgt ((qualM q).print ++ (moreQuals qs ++ (whereText c ++
      (posText .LIMIT l ++ (posText .OFFSET o ++ (posText .SLIMIT sl ++ (posText .SOFFSET so ++ k))))))) ht
    (by simpa [fromQualText, List.append_assoc] using g2.mono (by decide))
    (by simpa [fromQualText, List.append_assoc] using st1)
  have h3' : (expectTok .FROM ["FROM"]).run s2 = .ok ((), s3) := by
    unfold expectTok
    rw [P.run_bind _ _ _ _ _ h3]
    simp [t3, StateT.run, pure, StateT.pure, Except.pure]
  obtain ⟨s4, h4, st4⟩ := parseSourcesWith_quals (some (parseSelect fuel false)) s3 q qs _ hn (g3.mono (by decide)) b3
  rw [wp_bind, wp_of_run_ok h2, wp_bind, wp_of_run_ok h3', wp_bind, wp_of_run_ok h4, wp_bind]
  refine wp_mono (parseCondition_print fuel s4 c _ hc (g4.mono (by decide)) st4) ?_ (fun _ h => h)
  intro c' s5 ⟨hc', st5⟩
  subst hc'
  obtain ⟨s6, h6, st6⟩ := parseDimensions_absent fuel s5 _ (g4.mono (by decide)) st5
  obtain ⟨s7, h7, st7⟩ := parseFill_absent fuel s6 _ (g4.mono (by decide)) st6
  obtain ⟨s8, h8, st8⟩ := parseOrderBy_absent s7 _ (g4.mono (by decide)) st7
  obtain ⟨s9, h9, st9⟩ := parseOptTokInt_print .LIMIT (by decide +kernel) s8 l _ hl.1 hl.2 (g5.mono (by decide)) st8
  obtain ⟨s10, h10, st10⟩ := parseOptTokInt_print .OFFSET (by decide +kernel) s9 o _ ho.1 ho.2 (g6.mono (by decide)) st9
  obtain ⟨s11, h11, st11⟩ := parseOptTokInt_print .SLIMIT (by decide +kernel) s10 sl _ hsl.1 hsl.2 (g7.mono (by decide)) st10
  obtain ⟨s12, h12, st12⟩ := parseOptTokInt_print .SOFFSET (by decide +kernel) s11 so k hso.1 hso.2 (hk.mono (by decide)) st11
  obtain ⟨s13, h13, st13⟩ := parseLocation_absent fuel s12 k (hk.mono (by decide)) st12
  rw [wp_bind, wp_of_run_ok h6, wp_bind, wp_of_run_ok h7]
  simp only []
  rw [wp_bind, wp_of_run_ok h8, wp_bind, wp_of_run_ok h9, wp_bind, wp_of_run_ok h10, wp_bind, wp_of_run_ok h11,
    wp_bind, wp_of_run_ok h12, wp_bind, wp_of_run_ok h13, wp_pure, wp_pure]
  refine ⟨?_, st13⟩
  have hraw : (!(f :: fs).any fun g => g.expr.hasCall) = true := by
    rw [Bool.not_eq_true', List.any_eq_false]
    intro g hg
    rw [hasCall_false g.expr (hf g hg).1]
    simp
  rw [hraw]
  rfl

/-- Non-vacuity: `SELECT a + 1 AS "x y", b INTO "my db"..tgt FROM db.rp."x.y", "my db"..cpu, rp.m, m WHERE … LIMIT 10 SLIMIT 2`. -/
def exTgt : Option (Str × Str × Str) := some ("my db".toList, [], "tgt".toList)
def exQ : Str × Str × Str := ("db".toList, "rp".toList, "x.y".toList)
def exQs : List (Str × Str × Str) := [("my db".toList, [], "cpu".toList), ([], "rp".toList, ['m']), ([], [], ['m'])]
def exIntoText : Str := selectIntoText exF1 [⟨.varRef ['b'] .Unknown, []⟩] exTgt exQ exQs exCond 10 0 2 0

example : exIntoText = (" a + 1 AS \"x y\", b INTO \"my db\"..tgt FROM db.rp.\"x.y\", \"my db\"..cpu, rp.m, m " ++
    "WHERE host = 'a' AND (x > -1 OR y =~ /^b/) LIMIT 10 SLIMIT 2").toList := by decide +kernel

example : IntoSelect exF1 [⟨.varRef ['b'] .Unknown, []⟩] exTgt exQ exQs exCond 10 0 2 0 := by decide +kernel

-- a measurement without a name is not in the class
example : ¬ QualOK ("a".toList, "b".toList, []) := by decide +kernel

section
attribute [local irreducible] wp
example : wp (runHandler 201 .parseSelectStatement_targetNotRequired) (PState.init exIntoText [] [])
    (fun st s' => st = .select (intoSelect exF1 [⟨.varRef ['b'] .Unknown, []⟩] exTgt exQ exQs exCond 10 0 2 0) ∧
      RT.Stand s' [eofRune]) (· = .fuel) :=
  selectInto_print_parse_partial 200 (PState.init exIntoText [] []) exF1 [⟨.varRef ['b'] .Unknown, []⟩] exTgt exQ exQs
    exCond 10 0 2 0 [eofRune] (by decide +kernel) (Follow.eof _ (by decide)) (init_before exIntoText (by decide +kernel))
end

example : (match (runHandler 201 .parseSelectStatement_targetNotRequired).run (PState.init exIntoText [] []) with
    | .ok (.select st, _) => st.print == tx "SELECT" ++ exIntoText
    | _ => false) = true := by decide +kernel


/-! ### SELECT with GROUP BY, ORDER BY and TZ() -/

/-- `SELECT … [INTO tgt] FROM … [WHERE c] [GROUP BY ds] [ORDER BY sf] [LIMIT] [OFFSET] [SLIMIT] [SOFFSET] [TZ('loc')]`
as the parser builds it. -/
def clauseSelect (f : Field) (fs : List Field) (tgt : Option (Str × Str × Str)) (q : Str × Str × Str)
    (qs : List (Str × Str × Str)) (c : Option Expr) (ds : List Expr) (sf : List SortField) (l o sl so : Int)
    (loc : Option Str) : SelectStmt :=
  .mk (f :: fs) (tgt.map tgtM) ds ((q :: qs).map qualSrc) c sf l o sl so true .null .none loc [] false false [] false

def locOKB : Option Str → Bool
  | none => true
  | some n => plainNameB n

/-- The statements `selectClauses_print_parse_partial` covers (decidable): `IntoSelect`, dimensions of C03's class
`Printable` (tag names — printed by `QuoteIdent` — and printable expressions), the four sort lists the parser can
return (`ASC`, `DESC`, `time ASC`, `time DESC`), a location name without quote, backslash, newline (the printer
does not escape it) that is not empty (the parser stores `UTC` for `tz('')`). -/
def ClauseSelect (f : Field) (fs : List Field) (tgt : Option (Str × Str × Str)) (q : Str × Str × Str)
    (qs : List (Str × Str × Str)) (c : Option Expr) (ds : List Expr) (sf : List SortField) (l o sl so : Int)
    (loc : Option Str) : Prop :=
  IntoSelect f fs tgt q qs c l o sl so ∧ (∀ x ∈ ds, RT.rtOK false x = true) ∧ sortOKB sf = true ∧ locOKB loc = true

instance (f : Field) (fs : List Field) (tgt : Option (Str × Str × Str)) (q : Str × Str × Str)
    (qs : List (Str × Str × Str)) (c : Option Expr) (ds : List Expr) (sf : List SortField) (l o sl so : Int)
    (loc : Option Str) : Decidable (ClauseSelect f fs tgt q qs c ds sf l o sl so loc) := by
  unfold ClauseSelect; exact inferInstance

/-- What is printed after the keyword SELECT. -/
def selectClausesText (f : Field) (fs : List Field) (tgt : Option (Str × Str × Str)) (q : Str × Str × Str)
    (qs : List (Str × Str × Str)) (c : Option Expr) (ds : List Expr) (sf : List SortField) (l o sl so : Int)
    (loc : Option Str) : Str :=
  ' ' :: (f.print ++ (moreFields fs ++ (targetText tgt ++ (fromQualText q qs ++ (whereText c ++ (groupText ds ++
    (orderText sf ++ (posText .LIMIT l ++ (posText .OFFSET o ++ (posText .SLIMIT sl ++ (posText .SOFFSET so ++
      tzText loc)))))))))))

/-- The pieces are what `SelectStatement.String()` writes (for every sort list of the class). -/
theorem selectClauses_print (f : Field) (fs : List Field) (tgt : Option (Str × Str × Str)) (q : Str × Str × Str)
    (qs : List (Str × Str × Str)) (c : Option Expr) (ds : List Expr) (sf : List SortField) (l o sl so : Int)
    (loc : Option Str) (hsf : sortOKB sf = true) :
    (Statement.select (clauseSelect f fs tgt q qs c ds sf l o sl so loc)).print =
      tx "SELECT" ++ selectClausesText f fs tgt q qs c ds sf l o sl so loc := by
  have p1 : (Statement.select (clauseSelect f fs tgt q qs c ds sf l o sl so loc)).print =
      tx "SELECT " ++ joinWith (tx ", ") ((f :: fs).map Field.print) ++ targetText tgt ++
        (tx " FROM " ++ printSources ((q :: qs).map qualSrc)) ++ clauseWhere c ++ clauseGroupBy ds ++
        printFill .null .none ++ clauseOrderBy sf ++ clausePos "LIMIT" l ++ clausePos "OFFSET" o ++
        clausePos "SLIMIT" sl ++ clausePos "SOFFSET" so ++
        loc.elim [] (fun n => tx " TZ('" ++ n ++ tx "')") := by
    cases tgt <;> cases loc <;> rfl
  have etz : loc.elim [] (fun n => tx " TZ('" ++ n ++ tx "')") = tzText loc := by
    cases loc with
    | none => rfl
    | some n => exact tz_print (some n)
  have e2 : printFill .null .none = [] := rfl
  have e3 : tx "SELECT " = tx "SELECT" ++ [' '] := by decide +kernel
  have e4 : tx " FROM " = ' ' :: (Token.FROM.str ++ [' ']) := by decide +kernel
  rw [p1, joinFields, printSources_quals q qs, clauseWhere_eq, (clausePos_eq l).1, (clausePos_eq o).2.1,
    (clausePos_eq sl).2.2.1, (clausePos_eq so).2.2.2, clauseOrderBy_eq sf hsf, clauseGroupBy_eq, etz, e2, e3, e4]
  simp only [selectClausesText, fromQualText, List.append_assoc, List.append_nil, List.nil_append, List.cons_append]

/-- The tokens that continue a SELECT statement (without IDENT). -/
def clauseStop : List Token :=
  [.AS, .COMMA, .INTO, .FROM, .WHERE, .GROUP, .ORDER, .LIMIT, .OFFSET, .SLIMIT, .SOFFSET]

/-- **Print → parse, SELECT with GROUP BY, ORDER BY, TZ()** (and `INTO`, qualified sources, WHERE, the four limits).
`parseSelectStatement` on the text printed after the keyword `SELECT`, followed by `k`, returns exactly the
statement and stands before `k` — or the fuel was too small.

Partial — the class `ClauseSelect`. Still excluded (all producible by the parser): `fill(…)` and the dimension
`time(…)` (clause-level lemma for calls `parseExpr_call` is there, but `parseCall` lower-cases the call name with
the table shipped with the input, and no frame lemma "the table is unchanged by parseFields / parseSources" is
proved yet), the dimension `*`, regex dimensions, subqueries, regex sources, calls / wildcards / number and
duration literals in fields and conditions, location names with a quote or backslash (printed unescaped; no
zone has such a name), empty measurement names (finding `empty-identifier-not-printed`). -/
theorem selectClauses_print_parse_partial (fuel : Nat) (s : PState) (f : Field) (fs : List Field)
    (tgt : Option (Str × Str × Str)) (q : Str × Str × Str) (qs : List (Str × Str × Str))
    (c : Option Expr) (ds : List Expr) (sf : List SortField) (l o sl so : Int) (loc : Option Str) (k : Str)
    (hok : ClauseSelect f fs tgt q qs c ds sf l o sl so loc) (hk : Follow k selectStop)
    (hs : s.Before (selectClausesText f fs tgt q qs c ds sf l o sl so loc ++ k)) :
    wp (runHandler (fuel + 4) .parseSelectStatement_targetNotRequired) s
      (fun st s' => st = .select (clauseSelect f fs tgt q qs c ds sf l o sl so loc) ∧ RT.Stand s' k) (· = .fuel) := by
  obtain ⟨⟨hf, ht, hn, hc, hl, ho, hsl, hso⟩, hds, hsf, hloc⟩ := hok
  have hloc' : ∀ n, loc = some n → plainNameB n = true := by
    intro n e; subst e; exact hloc
  have g9 : Follow (tzText loc ++ k) clauseStop := follow_tz loc k _ (hk.mono (by decide)) (by decide)
  have a9 : Ahead (tzText loc ++ k) NotFill := ahead_tz loc k (hk.mono (by decide))
  have g7 : Follow (posText .SOFFSET so ++ (tzText loc ++ k)) [.AS, .COMMA, .INTO, .FROM, .WHERE, .GROUP, .ORDER, .LIMIT, .OFFSET, .SLIMIT] :=
    Follow.opt (kwText_pos _ _) (by decide +kernel) rfl (by decide) (g9.mono (by decide))
  have g6 : Follow (posText .SLIMIT sl ++ (posText .SOFFSET so ++ (tzText loc ++ k)))
      [.AS, .COMMA, .INTO, .FROM, .WHERE, .GROUP, .ORDER, .LIMIT, .OFFSET] :=
    Follow.opt (kwText_pos _ _) (by decide +kernel) rfl (by decide) (g7.mono (by decide))
  have g5 : Follow (posText .OFFSET o ++ (posText .SLIMIT sl ++ (posText .SOFFSET so ++ (tzText loc ++ k))))
      [.AS, .COMMA, .INTO, .FROM, .WHERE, .GROUP, .ORDER, .LIMIT] :=
    Follow.opt (kwText_pos _ _) (by decide +kernel) rfl (by decide) (g6.mono (by decide))
  have g4 : Follow (posText .LIMIT l ++ (posText .OFFSET o ++ (posText .SLIMIT sl ++ (posText .SOFFSET so ++ (tzText loc ++ k)))))
      [.AS, .COMMA, .INTO, .FROM, .WHERE, .GROUP, .ORDER] :=
    Follow.opt (kwText_pos _ _) (by decide +kernel) rfl (by decide) (g5.mono (by decide))
  have g4o : Follow (orderText sf ++ (posText .LIMIT l ++ (posText .OFFSET o ++ (posText .SLIMIT sl ++
      (posText .SOFFSET so ++ (tzText loc ++ k)))))) [.AS, .COMMA, .INTO, .FROM, .WHERE, .GROUP] :=
    Follow.opt (kwText_order _) (by decide +kernel) rfl (by decide) (g4.mono (by decide))
  have g4g : Follow (groupText ds ++ (orderText sf ++ (posText .LIMIT l ++ (posText .OFFSET o ++ (posText .SLIMIT sl ++
      (posText .SOFFSET so ++ (tzText loc ++ k))))))) [.AS, .COMMA, .INTO, .FROM, .WHERE] :=
    Follow.opt (kwText_group _) (by decide +kernel) rfl (by decide) (g4o.mono (by decide))
  have g3 : Follow (whereText c ++ (groupText ds ++ (orderText sf ++ (posText .LIMIT l ++ (posText .OFFSET o ++
      (posText .SLIMIT sl ++ (posText .SOFFSET so ++ (tzText loc ++ k)))))))) [.AS, .COMMA, .INTO, .FROM] :=
    Follow.opt (kwText_where _) (by decide +kernel) rfl (by decide) (g4g.mono (by decide))
  have g2 : Follow (fromQualText q qs ++ (whereText c ++ (groupText ds ++ (orderText sf ++ (posText .LIMIT l ++
      (posText .OFFSET o ++ (posText .SLIMIT sl ++ (posText .SOFFSET so ++ (tzText loc ++ k))))))))) [.AS, .COMMA, .INTO] :=
    Follow.opt (kwText_fromQual _ _) (by decide +kernel) rfl (by decide) (g3.mono (by decide))
  have g1 : Follow (targetText tgt ++ (fromQualText q qs ++ (whereText c ++ (groupText ds ++ (orderText sf ++
      (posText .LIMIT l ++ (posText .OFFSET o ++ (posText .SLIMIT sl ++ (posText .SOFFSET so ++ (tzText loc ++ k))))))))))
      [.AS, .COMMA] :=
    Follow.opt (kwText_target _) (by decide +kernel) rfl (by decide) (g2.mono (by decide))
  -- fill() is absent: the head of what follows GROUP BY is not the word `fill`
  have a4 : Ahead (orderText sf ++ (posText .LIMIT l ++ (posText .OFFSET o ++ (posText .SLIMIT sl ++
      (posText .SOFFSET so ++ (tzText loc ++ k)))))) NotFill :=
    Ahead.opt (kwText_order _) (by decide +kernel) (Or.inl (by decide))
      (Ahead.opt (kwText_pos _ _) (by decide +kernel) (Or.inl (by decide))
        (Ahead.opt (kwText_pos _ _) (by decide +kernel) (Or.inl (by decide))
          (Ahead.opt (kwText_pos _ _) (by decide +kernel) (Or.inl (by decide))
            (Ahead.opt (kwText_pos _ _) (by decide +kernel) (Or.inl (by decide)) a9))))
  have hs0 : s.Before (' ' :: (f.print ++ (moreFields fs ++ (targetText tgt ++ (fromQualText q qs ++ (whereText c ++
      (groupText ds ++ (orderText sf ++ (posText .LIMIT l ++ (posText .OFFSET o ++ (posText .SLIMIT sl ++
      (posText .SOFFSET so ++ (tzText loc ++ k))))))))))))) := by
    simpa [selectClausesText, List.append_assoc] using hs
  suffices hgen : ∀ F, F = fuel + 3 → wp (runHandler (F + 1) .parseSelectStatement_targetNotRequired) s
      (fun st s' => st = .select (clauseSelect f fs tgt q qs c ds sf l o sl so loc) ∧ RT.Stand s' k) (· = .fuel) from
    hgen _ rfl
  intro F hF
  simp only [runHandler, parseSelect, parseSelectBody]
  rw [wp_bind, wp_bind]
  refine wp_mono (parseFields_print F s f fs _ hf g1 hs0) ?_ (fun _ h => h)
  intro flds s1 ⟨hflds, st1⟩
  subst hflds
  obtain ⟨s2, lx3, s3, h2, h3, t3, b3⟩ := parseTarget_stand s1 tgt ((qualM q).print ++ (moreQuals qs ++ (whereText c ++
      (groupText ds ++ (orderText sf ++ (posText .LIMIT l ++ (posText .OFFSET o ++ (posText .SLIMIT sl ++
      (posText .SOFFSET so ++ (tzText loc ++ k)))))))))) ht
    (by simpa [fromQualText, List.append_assoc] using g2.mono (by decide))
    (by simpa [fromQualText, List.append_assoc] using st1)
  have h3' : (expectTok .FROM ["FROM"]).run s2 = .ok ((), s3) := by
    unfold expectTok
    rw [P.run_bind _ _ _ _ _ h3]
    simp [t3, StateT.run, pure, StateT.pure, Except.pure]
  obtain ⟨s4, h4, st4⟩ := parseSourcesWith_quals (some (parseSelect F false)) s3 q qs _ hn (g3.mono (by decide)) b3
  rw [wp_bind, wp_of_run_ok h2, wp_bind, wp_of_run_ok h3', wp_bind, wp_of_run_ok h4, wp_bind]
  refine wp_mono (parseCondition_print F s4 c _ hc (g4g.mono (by decide)) st4) ?_ (fun _ h => h)
  intro c' s5 ⟨hc', st5⟩
  subst hc'
  rw [wp_bind]
  refine wp_mono (parseDimensions_print F s5 ds _ hds (g4o.mono (by decide)) st5) ?_ (fun _ h => h)
  intro ds' s6 ⟨hds', st6⟩
  subst hds'
  obtain ⟨s7, h7, st7⟩ := parseFill_absent' F s6 _ a4 st6
  obtain ⟨s8, h8, st8⟩ := parseOrderBy_print s7 sf _ hsf (g4.mono (by decide)) st7
  obtain ⟨s9, h9, st9⟩ := parseOptTokInt_print .LIMIT (by decide +kernel) s8 l _ hl.1 hl.2 (g5.mono (by decide)) st8
  obtain ⟨s10, h10, st10⟩ := parseOptTokInt_print .OFFSET (by decide +kernel) s9 o _ ho.1 ho.2 (g6.mono (by decide)) st9
  obtain ⟨s11, h11, st11⟩ := parseOptTokInt_print .SLIMIT (by decide +kernel) s10 sl _ hsl.1 hsl.2 (g7.mono (by decide)) st10
  obtain ⟨s12, h12, st12⟩ := parseOptTokInt_print .SOFFSET (by decide +kernel) s11 so _ hso.1 hso.2 (g9.mono (by decide)) st11
  rw [wp_bind, wp_of_run_ok h7]
  simp only []
  rw [wp_bind, wp_of_run_ok h8, wp_bind, wp_of_run_ok h9, wp_bind, wp_of_run_ok h10, wp_bind, wp_of_run_ok h11,
    wp_bind, wp_of_run_ok h12, wp_bind]
  subst hF
  refine wp_mono (parseLocation_print fuel s12 loc k hloc' (hk.mono (by decide)) st12) ?_ (fun _ h => h)
  intro loc' s13 ⟨hl', st13⟩
  subst hl'
  rw [wp_pure, wp_pure]
  refine ⟨?_, st13⟩
  have hraw : (!(f :: fs).any fun g => g.expr.hasCall) = true := by
    rw [Bool.not_eq_true', List.any_eq_false]
    intro g hg
    rw [hasCall_false g.expr (hf g hg).1]
    simp
  rw [hraw]
  rfl

/-- Non-vacuity: `SELECT a + 1 AS "x y", b INTO "my db"..tgt FROM db.rp."x.y", m WHERE … GROUP BY host, "my tag"
ORDER BY time DESC LIMIT 10 SLIMIT 2 TZ('Europe/Berlin')`. -/
def exDims : List Expr := [.varRef "host".toList .Unknown, .varRef "my tag".toList .Unknown]
def exSort : List SortField := [⟨"time".toList, false⟩]
def exLoc : Option Str := some "Europe/Berlin".toList
def exClausesText : Str :=
  selectClausesText exF1 [⟨.varRef ['b'] .Unknown, []⟩] exTgt exQ [([], [], ['m'])] exCond exDims exSort 10 0 2 0 exLoc

example : exClausesText = (" a + 1 AS \"x y\", b INTO \"my db\"..tgt FROM db.rp.\"x.y\", m " ++
    "WHERE host = 'a' AND (x > -1 OR y =~ /^b/) GROUP BY host, \"my tag\" ORDER BY time DESC LIMIT 10 SLIMIT 2 " ++
    "TZ('Europe/Berlin')").toList := by decide +kernel

example : ClauseSelect exF1 [⟨.varRef ['b'] .Unknown, []⟩] exTgt exQ [([], [], ['m'])] exCond exDims exSort 10 0 2 0 exLoc := by
  decide +kernel

-- not in the class: a sort field other than time, a location name with a quote
example : sortOKB [⟨"host".toList, true⟩] = false ∧ locOKB (some "a'b".toList) = false ∧ locOKB (some []) = false := by
  decide +kernel

section
attribute [local irreducible] wp
example : wp (runHandler 204 .parseSelectStatement_targetNotRequired) (PState.init exClausesText [] [])
    (fun st s' => st = .select (clauseSelect exF1 [⟨.varRef ['b'] .Unknown, []⟩] exTgt exQ [([], [], ['m'])] exCond exDims
      exSort 10 0 2 0 exLoc) ∧ RT.Stand s' [eofRune]) (· = .fuel) :=
  selectClauses_print_parse_partial 200 (PState.init exClausesText [] []) exF1 [⟨.varRef ['b'] .Unknown, []⟩] exTgt exQ
    [([], [], ['m'])] exCond exDims exSort 10 0 2 0 exLoc [eofRune] (by decide +kernel) (Follow.eof _ (by decide))
    (init_before exClausesText (by decide +kernel))
end

example : (match (runHandler 204 .parseSelectStatement_targetNotRequired).run (PState.init exClausesText [] []) with
    | .ok (.select st, _) => st.print == tx "SELECT" ++ exClausesText
    | _ => false) = true := by decide +kernel

/-! ### the frame property of `parseSelectStatement` -/

/-- **No step of `parseSelectStatement` changes the bound parameters or the lower-casing table** (subqueries to
any depth, any fuel, any input): whenever it returns, `PState.params` and `PState.lowerTbl` are those of the
start state. Proved once for the whole parser by the closure rules of `Frame` (`Lemmas/SelectFrame.lean`:
`pscanWith`, `unscan`, `peekRune`, `get` are the only primitives that touch the state); this is what carries
`lowerStr tbl "fill" = "fill"` / `RT.wOK tbl e` from the start state to the GROUP BY and fill() clauses. -/
theorem parseSelect_same_env (fuel : Nat) (tr : Bool) (s s' : PState) (st : SelectStmt)
    (h : (parseSelect fuel tr).run s = .ok (st, s')) : s'.params = s.params ∧ s'.lowerTbl = s.lowerTbl :=
  (parseSelect_frame fuel tr).run h

/-! ### SELECT over the wide class: calls, numbers, durations, wildcards; `GROUP BY time(…)`, `*`; `fill(…)` -/

/-- The statements `selectWide_print_parse_partial` covers (decidable, relative to the lower-casing table `tbl`
of the input): the clauses of `BodyOKW` and qualified measurements with a name as sources. -/
def WideSelect (tbl : List (Char × Char)) (f : Field) (fs : List Field) (tgt : Option (Str × Str × Str))
    (q : Str × Str × Str) (qs : List (Str × Str × Str)) (c : Option Expr) (ds : List Expr) (fill : FillOption)
    (fv : FillValue) (sf : List SortField) (l o sl so : Int) (loc : Option Str) : Prop :=
  BodyOKW tbl f fs tgt c ds fill fv sf l o sl so loc ∧ ∀ m ∈ q :: qs, QualOK m

instance (tbl : List (Char × Char)) (f : Field) (fs : List Field) (tgt : Option (Str × Str × Str))
    (q : Str × Str × Str) (qs : List (Str × Str × Str)) (c : Option Expr) (ds : List Expr) (fill : FillOption)
    (fv : FillValue) (sf : List SortField) (l o sl so : Int) (loc : Option Str) :
    Decidable (WideSelect tbl f fs tgt q qs c ds fill fv sf l o sl so loc) := by
  unfold WideSelect; exact inferInstance

/-- What is printed after the keyword SELECT. -/
def selectWideText (f : Field) (fs : List Field) (tgt : Option (Str × Str × Str)) (q : Str × Str × Str)
    (qs : List (Str × Str × Str)) (c : Option Expr) (ds : List Expr) (fill : FillOption) (fv : FillValue)
    (sf : List SortField) (l o sl so : Int) (loc : Option Str) : Str :=
  bodyText f fs tgt ((qualM q).print ++ moreQuals qs) c ds fill fv sf l o sl so loc

/-- The pieces are what `SelectStatement.String()` writes (sort list and fill option of the class). -/
theorem selectWide_print (tbl : List (Char × Char)) (f : Field) (fs : List Field) (tgt : Option (Str × Str × Str))
    (q : Str × Str × Str) (qs : List (Str × Str × Str)) (c : Option Expr) (ds : List Expr) (fill : FillOption)
    (fv : FillValue) (sf : List SortField) (l o sl so : Int) (loc : Option Str) (hsf : sortOKB sf = true)
    (hfill : fillOKW tbl fill fv = true) :
    (Statement.select (wideSelect f fs tgt ((q :: qs).map qualSrc) c ds fill fv sf l o sl so loc)).print =
      tx "SELECT" ++ selectWideText f fs tgt q qs c ds fill fv sf l o sl so loc := by
  show (wideSelect f fs tgt ((q :: qs).map qualSrc) c ds fill fv sf l o sl so loc).print = _
  rw [wideSelect_print tbl f fs tgt _ c ds fill fv sf l o sl so loc (by simp) hsf hfill, printSources_quals]
  rfl

/-- **Print → parse, SELECT over the wide class.** `parseSelectStatement` on the text printed after the keyword
`SELECT`, followed by `k`, returns exactly the statement and stands before `k` — or the fuel was too small.

Partial — the class `WideSelect s.lowerTbl` (relative to the lower-casing table shipped with the input; for the
empty table, or any table without ASCII entries, no condition on names is left). New against
`selectClauses_print_parse_partial`: fields, condition and dimensions of C03's wide class — calls such as
`mean(value)`, `now()`, number and duration literals, wildcards as fields; `GROUP BY time(5m)`,
`time(5m, 1m)` (printed by `FormatDuration`), `*`; and `fill(none|previous|linear|<integer>|<number>)` exactly as
the printer writes it (`NullFill` prints nothing and is read back as `NullFill`). The table is carried to the
clauses by the frame lemma. Still excluded (all producible by the parser): subqueries (see
`selectSub_print_parse_partial`), regex sources and regex dimensions, call names that are not fixed points of the
table or need quotes (open finding `call-name-printed-unquoted`), the negated-operand trees of the open finding,
non-canonical decimals, location names with a quote or backslash, empty measurement names (finding
`empty-identifier-not-printed`), the fill value `<nil>` (never parsed). -/
theorem selectWide_print_parse_partial (fuel : Nat) (s : PState) (f : Field) (fs : List Field)
    (tgt : Option (Str × Str × Str)) (q : Str × Str × Str) (qs : List (Str × Str × Str))
    (c : Option Expr) (ds : List Expr) (fill : FillOption) (fv : FillValue) (sf : List SortField) (l o sl so : Int)
    (loc : Option Str) (k : Str)
    (hok : WideSelect s.lowerTbl f fs tgt q qs c ds fill fv sf l o sl so loc) (hk : Follow k selectStop)
    (hs : s.Before (selectWideText f fs tgt q qs c ds fill fv sf l o sl so loc ++ k)) :
    wp (runHandler (fuel + 4) .parseSelectStatement_targetNotRequired) s
      (fun st s' => st = .select (wideSelect f fs tgt ((q :: qs).map qualSrc) c ds fill fv sf l o sl so loc) ∧
        RT.Stand s' k) (· = .fuel) := by
  obtain ⟨hbody, hn⟩ := hok
  simp only [runHandler, parseSelect]
  rw [wp_bind]
  refine wp_mono (selectBody_printW fuel (some (parseSelect (fuel + 3) false))
    (fun p hp => by cases hp; exact parseSelect_frame _ _) s f fs tgt ((q :: qs).map qualSrc)
    ((qualM q).print ++ moreQuals qs) c ds fill fv sf l o sl so loc k false (fun h => by cases h) hbody ?_ hk hs) ?_
    (fun _ h => h)
  · intro s3 k' _ hk' hb
    obtain ⟨s4, h4, st4⟩ := parseSourcesWith_quals (some (parseSelect (fuel + 3) false)) s3 q qs k' hn hk'
      (by simpa [List.append_assoc] using hb)
    rw [wp_of_run_ok h4]
    exact ⟨rfl, st4⟩
  · intro st s' ⟨hst, hs'⟩
    rw [wp_pure, hst]
    exact ⟨rfl, hs'⟩

/-- Non-vacuity: `SELECT mean(value), *, a * 2.5 AS x INTO "my db"..tgt FROM db.rp."x.y", m WHERE time > now() - 1h
GROUP BY time(5m, 1m), host, * fill(-5) ORDER BY time DESC LIMIT 10 SLIMIT 2 TZ('Europe/Berlin')`. -/
def exWF1 : Field := ⟨.call "mean".toList [.varRef "value".toList .Unknown], []⟩
def exWFs : List Field :=
  [⟨.wildcard .ILLEGAL, []⟩, ⟨.binary .MUL (.varRef ['a'] .Unknown) (.number ⟨false, 25, 1⟩), ['x']⟩]
def exWCond : Option Expr :=
  some (.binary .GT (.varRef "time".toList .Unknown) (.binary .SUB (.call "now".toList []) (.duration 3600000000000)))
def exWDims : List Expr :=
  [.call "time".toList [.duration 300000000000, .duration 60000000000], .varRef "host".toList .Unknown, .wildcard .ILLEGAL]
def exWideText : Str :=
  selectWideText exWF1 exWFs exTgt exQ [([], [], ['m'])] exWCond exWDims .number (.int (-5)) exSort 10 0 2 0 exLoc

example : exWideText = (" mean(value), *, a * 2.5 AS x INTO \"my db\"..tgt FROM db.rp.\"x.y\", m " ++
    "WHERE time > now() - 1h GROUP BY time(5m, 1m), host, * fill(-5) ORDER BY time DESC LIMIT 10 SLIMIT 2 " ++
    "TZ('Europe/Berlin')").toList := by decide +kernel

example : WideSelect [] exWF1 exWFs exTgt exQ [([], [], ['m'])] exWCond exWDims .number (.int (-5)) exSort 10 0 2 0 exLoc := by
  decide +kernel

-- the other fill options; not in the class: a number fill without a value (`fill(<nil>)` is never parsed),
-- a table that changes the word `fill`, a call name with a capital
example : fillOKW [] .none .none = true ∧ fillOKW [] .previous .none = true ∧ fillOKW [] .linear .none = true ∧
    fillOKW [] .null .none = true ∧ fillOKW [] .number (.num ⟨true, 15, 1⟩) = true ∧
    fillOKW [] .number .none = false ∧ fillOKW [('f', 'g')] .none .none = false ∧
    fillText .linear .none = " fill(linear)".toList ∧ fillText .number (.num ⟨true, 15, 1⟩) = " fill(-1.5)".toList ∧
    RT.wOK [] (.call "Mean".toList []) = false := by
  decide +kernel

section
attribute [local irreducible] wp
example : wp (runHandler 204 .parseSelectStatement_targetNotRequired) (PState.init exWideText [] [])
    (fun st s' => st = .select (wideSelect exWF1 exWFs exTgt ((exQ :: [([], [], ['m'])]).map qualSrc) exWCond exWDims .number
      (.int (-5)) exSort 10 0 2 0 exLoc) ∧ RT.Stand s' [eofRune]) (· = .fuel) :=
  selectWide_print_parse_partial 200 (PState.init exWideText [] []) exWF1 exWFs exTgt exQ
    [([], [], ['m'])] exWCond exWDims .number (.int (-5)) exSort 10 0 2 0 exLoc [eofRune] (by decide +kernel)
    (Follow.eof _ (by decide)) (init_before exWideText (by decide +kernel))
end

example : (match (runHandler 204 .parseSelectStatement_targetNotRequired).run (PState.init exWideText [] []) with
    | .ok (.select st, _) => st.print == tx "SELECT" ++ exWideText
    | _ => false) = true := by decide +kernel

/-! ### SELECT with subqueries as sources, nested to any depth -/

/-- A statement of the class `selOKB tbl n` prints as the keyword `SELECT` and its tail. -/
theorem selectSub_print (tbl : List (Char × Char)) (n : Nat) (st : SelectStmt) (h : selOKB tbl n st = true) :
    (Statement.select st).print = tx "SELECT" ++ selectTail st := by
  obtain ⟨y, hy⟩ := selOKB_print tbl n st h
  show st.print = _
  rw [selectTail_of_print hy]
  exact hy

/-- **Print → parse, SELECT with subqueries.** For every nesting depth `n`: `parseSelectStatement` on the text
`SelectStatement.String()` writes after the keyword `SELECT`, followed by `k`, returns exactly the statement — every
`FROM (SELECT …)` as a `SubQuery` source with its own statement, recursively — and stands before `k`, or the fuel
was too small. (The model hands the subquery parser to `parseSource` and `parseSelect` is structural on its fuel;
the proof is an induction on the depth over the body lemma `selectBody_printW`, which is generic in the sources.)

Partial — the class `selOKB s.lowerTbl n st`, a decidable predicate on the AST: at every level the clauses of
`selectWide_print_parse_partial` (`BodyOKW`), sources that are qualified measurements with a name or subqueries of
the class, less than `n` levels deep. Excluded as there: regex sources and dimensions, call names needing quotes
or changed by the table, the negated-operand trees, non-canonical decimals, empty measurement names; and statements
whose `TimeAlias` / `OmitTime` / `StripName` / `EmitName` / `Dedupe` were set by a later pass (not printed). -/
theorem selectSub_print_parse_partial (n fuel : Nat) (s : PState) (st : SelectStmt) (k : Str)
    (hok : selOKB s.lowerTbl n st = true) (hk : Follow k selectStop) (hs : s.Before (selectTail st ++ k)) :
    wp (runHandler (fuel + n + 3) .parseSelectStatement_targetNotRequired) s
      (fun r s' => r = .select st ∧ RT.Stand s' k) (· = .fuel) := by
  simp only [runHandler]
  rw [wp_bind]
  refine wp_mono (parseSelect_sub s.lowerTbl n fuel false st s k hok (fun h => by cases h) rfl hk hs) ?_ (fun _ h => h)
  intro r s' ⟨hr, hs'⟩
  rw [wp_pure, hr]
  exact ⟨rfl, hs'⟩

/-- Non-vacuity: `SELECT mean(x) FROM (SELECT max(value) AS x FROM (SELECT value FROM db.rp.cpu WHERE host = 'a')
GROUP BY time(5m) fill(none)), m GROUP BY host LIMIT 5`. -/
def exSub2 : SelectStmt :=
  wideSelect ⟨.varRef "value".toList .Unknown, []⟩ [] none [qualSrc ("db".toList, "rp".toList, "cpu".toList)]
    (some (.binary .EQ (.varRef "host".toList .Unknown) (.string ['a']))) [] .null .none [] 0 0 0 0 none
def exSub1 : SelectStmt :=
  wideSelect ⟨.call "max".toList [.varRef "value".toList .Unknown], ['x']⟩ [] none [.subquery exSub2] none
    [.call "time".toList [.duration 300000000000]] .none .none [] 0 0 0 0 none
def exSub0 : SelectStmt :=
  wideSelect ⟨.call "mean".toList [.varRef ['x'] .Unknown], []⟩ [] none [.subquery exSub1, qualSrc ([], [], ['m'])] none
    [.varRef "host".toList .Unknown] .null .none [] 5 0 0 0 none

example : selectTail exSub0 = (" mean(x) FROM (SELECT max(value) AS x FROM (SELECT value FROM db.rp.cpu " ++
    "WHERE host = 'a') GROUP BY time(5m) fill(none)), m GROUP BY host LIMIT 5").toList := by decide +kernel

-- in the class at depth 3, not at depth 2; a regex source is outside
example : selOKB [] 3 exSub0 = true ∧ selOKB [] 2 exSub0 = false ∧
    selOKB [] 1 (wideSelect ⟨.varRef ['a'] .Unknown, []⟩ [] none [.measurement { regex := some ['x'] }] none [] .null .none []
      0 0 0 0 none) = false := by decide +kernel

section
attribute [local irreducible] wp
example : wp (runHandler 206 .parseSelectStatement_targetNotRequired) (PState.init (selectTail exSub0) [] [])
    (fun st s' => st = .select exSub0 ∧ RT.Stand s' [eofRune]) (· = .fuel) :=
  selectSub_print_parse_partial 3 200 (PState.init (selectTail exSub0) [] []) exSub0 [eofRune] (by decide +kernel)
    (Follow.eof _ (by decide)) (init_before (selectTail exSub0) (by decide +kernel))
end

example : (match (runHandler 206 .parseSelectStatement_targetNotRequired).run (PState.init (selectTail exSub0) [] []) with
    | .ok (.select st, _) => st.print == exSub0.print
    | _ => false) = true := by decide +kernel

/-! ### EXPLAIN [ANALYZE] [VERBOSE] SELECT … -/

/-- The pieces are what `ExplainStatement.String()` writes, for a SELECT of the class. -/
theorem explain_print (tbl : List (Char × Char)) (n : Nat) (st : SelectStmt) (analyze verbose : Bool)
    (h : selOKB tbl n st = true) :
    (Statement.explain st analyze verbose).print = tx "EXPLAIN" ++ explainText analyze verbose st :=
  explain_print_eq tbl n st analyze verbose h

/-- **Print → parse, EXPLAIN.** `parseExplainStatement` on the text printed after the keyword `EXPLAIN`
(` ANALYZE` / ` VERBOSE` when set, ` SELECT` and the statement), followed by `k`, returns exactly the statement with
both flags and stands before `k` — or the fuel was too small.

Partial — the SELECT statement is of the class `selOKB s.lowerTbl n` (wide class at every level, subqueries nested
less than `n` deep; exclusions as in `selectSub_print_parse_partial`). -/
theorem explain_print_parse_partial (n fuel : Nat) (s : PState) (st : SelectStmt) (analyze verbose : Bool) (k : Str)
    (hok : selOKB s.lowerTbl n st = true) (hk : Follow k selectStop)
    (hs : s.Before (explainText analyze verbose st ++ k)) :
    wp (runHandler (fuel + n + 3) .parseExplainStatement) s
      (fun r s' => r = .explain st analyze verbose ∧ RT.Stand s' k) (· = .fuel) :=
  parseExplain_print n fuel s st analyze verbose k hok hk hs

/-- Non-vacuity: `EXPLAIN ANALYZE SELECT mean(x) FROM (SELECT … FROM (SELECT …) …), m GROUP BY host LIMIT 5`. -/
def exExplainText : Str := explainText true false exSub0

example : tx "EXPLAIN" ++ exExplainText = ("EXPLAIN ANALYZE SELECT mean(x) FROM (SELECT max(value) AS x FROM " ++
    "(SELECT value FROM db.rp.cpu WHERE host = 'a') GROUP BY time(5m) fill(none)), m GROUP BY host LIMIT 5").toList := by
  decide +kernel

section
attribute [local irreducible] wp
example : wp (runHandler 206 .parseExplainStatement) (PState.init exExplainText [] [])
    (fun st s' => st = .explain exSub0 true false ∧ RT.Stand s' [eofRune]) (· = .fuel) :=
  explain_print_parse_partial 3 200 (PState.init exExplainText [] []) exSub0 true false [eofRune] (by decide +kernel)
    (Follow.eof _ (by decide)) (init_before exExplainText (by decide +kernel))
end

example : (match (runHandler 206 .parseExplainStatement).run (PState.init (explainText true true exSub0) [] []) with
    | .ok (st, _) => st.print == (Statement.explain exSub0 true true).print
    | _ => false) = true := by decide +kernel

/-! ### CREATE CONTINUOUS QUERY … [RESAMPLE …] BEGIN SELECT … INTO … END -/

/-- The pieces are what `CreateContinuousQueryStatement.String()` writes, for a SELECT of the class. -/
theorem createContinuousQuery_print (tbl : List (Char × Char)) (n : Nat) (name db : Str) (ev fo : Int) (st : SelectStmt)
    (h : selOKB tbl n st = true) :
    (Statement.createContinuousQuery name db st ev fo).print =
      tx "CREATE CONTINUOUS QUERY" ++ cqText name db ev fo st :=
  cq_print_eq tbl n name db ev fo st h

/-- **Print → parse, CREATE CONTINUOUS QUERY.** `parseCreateContinuousQueryStatement` on the text printed after the
keywords `CREATE CONTINUOUS QUERY` — name, `ON` database, `RESAMPLE [EVERY d] [FOR d]` when one of the two durations
is positive (printed by `FormatDuration`), `BEGIN`, the SELECT statement, `END` —, followed by `k`, returns exactly the
statement (name, database, source, both durations) and stands before `k`, or the fuel was too small.

The hypotheses `htgt` (there is an `INTO`) and `hcq` (`cqOKB`: a query with calls has a non-zero `GROUP BY time(…)`
interval and `validate()` accepts the durations) are what the handler checks: every statement it returns satisfies
them. Partial — the SELECT statement is of the class `selOKB s.lowerTbl n` (exclusions as in
`selectSub_print_parse_partial`); names are expressible (no NUL, no CR), durations in `0 … MaxInt64` (what
`ParseDuration` returns). `k` does not continue the keyword `END`. -/
theorem createContinuousQuery_print_parse_partial (n fuel : Nat) (s : PState) (name db : Str) (ev fo : Int)
    (st : SelectStmt) (k : Str) (hex1 : Expressible name) (hex2 : Expressible db) (hev : LimOK ev) (hfo : LimOK fo)
    (hok : selOKB s.lowerTbl n st = true) (htgt : st.target ≠ none) (hcq : cqOKB st ev fo = true) (hk : WordEnd k)
    (hs : s.Before (cqText name db ev fo st ++ k)) :
    wp (runHandler (fuel + n + 3) .parseCreateContinuousQueryStatement) s
      (fun r s' => r = .createContinuousQuery name db st ev fo ∧ RT.Stand s' k) (· = .fuel) :=
  parseCQ_print n fuel s name db ev fo st k hex1 hex2 hev hfo hok htgt hcq hk hs

/-- Non-vacuity: `CREATE CONTINUOUS QUERY "my cq" ON db0 RESAMPLE EVERY 10m FOR 1h BEGIN SELECT mean(value) INTO
"my db"..tgt FROM cpu GROUP BY time(5m) END`. -/
def exCQSel : SelectStmt :=
  wideSelect ⟨.call "mean".toList [.varRef "value".toList .Unknown], []⟩ [] exTgt [qualSrc ([], [], "cpu".toList)] none
    [.call "time".toList [.duration 300000000000]] .null .none [] 0 0 0 0 none
def exCQText : Str := cqText "my cq".toList "db0".toList 600000000000 3600000000000 exCQSel

example : tx "CREATE CONTINUOUS QUERY" ++ exCQText = ("CREATE CONTINUOUS QUERY \"my cq\" ON db0 RESAMPLE EVERY 10m FOR 1h " ++
    "BEGIN SELECT mean(value) INTO \"my db\"..tgt FROM cpu GROUP BY time(5m) END").toList := by decide +kernel

-- the handler's checks: a FOR duration below the GROUP BY interval is rejected, as is a call without GROUP BY time(…)
example : cqOKB exCQSel 600000000000 3600000000000 = true ∧ cqOKB exCQSel 0 60000000000 = false ∧
    cqOKB exSub0 0 0 = false := by decide +kernel

section
attribute [local irreducible] wp
example : wp (runHandler 204 .parseCreateContinuousQueryStatement) (PState.init exCQText [] [])
    (fun st s' => st = .createContinuousQuery "my cq".toList "db0".toList exCQSel 600000000000 3600000000000 ∧
      RT.Stand s' [eofRune]) (· = .fuel) :=
  createContinuousQuery_print_parse_partial 1 200 (PState.init exCQText [] []) "my cq".toList "db0".toList 600000000000
    3600000000000 exCQSel [eofRune] (by decide +kernel) (by decide +kernel) (by decide +kernel) (by decide +kernel)
    (by decide +kernel) (by decide +kernel) (by decide +kernel) WordEnd.eof (init_before exCQText (by decide +kernel))
end

example : (match (runHandler 204 .parseCreateContinuousQueryStatement).run (PState.init exCQText [] []) with
    | .ok (st, _) => st.print == tx "CREATE CONTINUOUS QUERY" ++ exCQText
    | _ => false) = true := by decide +kernel

/-! ## passwords -/

/-- The printed form of `CREATE USER` / `SET PASSWORD` does not depend on the password. -/
theorem print_password_redacted (name p p' : Str) (admin : Bool) :
    (Statement.createUser name p admin).print = (Statement.createUser name p' admin).print ∧
    (Statement.setPasswordUser p name).print = (Statement.setPasswordUser p' name).print :=
  ⟨rfl, rfl⟩

/-! ## administrative and SHOW statements, second round

The families that were correspondence-only so far: CREATE DATABASE with its options, CREATE
SUBSCRIPTION, SHOW TAG VALUES, SHOW MEASUREMENTS with `ON` / `WITH MEASUREMENT`, the cardinality
statements. Pieces in `Lemmas/AdminPieces.lean` and `Lemmas/ShowPieces.lean`. -/

/-! ### CREATE DATABASE … WITH options -/

/-- ` FUTURE LIMIT <d>` / ` PAST LIMIT <d>` when the option is set and positive (the test of
`CreateDatabaseStatement.String()`). -/
def posLimitText (t : Token) (v : Option Int) : Str :=
  match v with
  | some v => if v > 0 then ' ' :: (t.str ++ ' ' :: (Token.LIMIT.str ++ ' ' :: formatDuration v)) else []
  | none => []

/-- ` NAME <rp>` when the name is not empty. -/
def rpNameText (rp : Str) : Str := if rp ≠ [] then ' ' :: (Token.NAME.str ++ ' ' :: qi rp) else []

theorem kwText_optDur (d : Option Int) : KwText (optDurText d) .DURATION := by
  cases d
  · exact Or.inl rfl
  · exact Or.inr ⟨_, rfl⟩
theorem kwText_optRepl (n : Option Nat) : KwText (optReplText n) .REPLICATION := by
  cases n
  · exact Or.inl rfl
  · exact Or.inr ⟨_, rfl⟩
theorem kwText_shard (sh : Int) : KwText (shardText sh) .SHARD := by
  unfold shardText; split
  · exact Or.inr ⟨_, rfl⟩
  · exact Or.inl rfl
theorem kwText_posLimit (t : Token) (v : Option Int) : KwText (posLimitText t v) t := by
  cases v with
  | none => exact Or.inl rfl
  | some v =>
    unfold posLimitText; dsimp only; split
    · exact Or.inr ⟨_, rfl⟩
    · exact Or.inl rfl
theorem kwText_rpName (rp : Str) : KwText (rpNameText rp) .NAME := by
  unfold rpNameText; split
  · exact Or.inr ⟨_, rfl⟩
  · exact Or.inl rfl

/-- What CREATE DATABASE with a `WITH` clause prints after its keywords. -/
def cdbText (name : Str) (d : Option Int) (n : Option Nat) (sh : Int) (fu pa : Option Int) (rp : Str) : Str :=
  ' ' :: (qi name ++ ' ' :: (Token.WITH.str ++ (optDurText d ++ (optReplText n ++ (shardText sh ++
    (posLimitText .FUTURE fu ++ (posLimitText .PAST pa ++ rpNameText rp)))))))

theorem createDatabase_with_print (name : Str) (d : Option Int) (n : Option Nat) (sh : Int) (fu pa : Option Int)
    (rp : Str) :
    (Statement.createDatabase name true d (n.map Int.ofNat) rp sh fu pa).print =
      tx "CREATE DATABASE" ++ cdbText name d n sh fu pa rp := by
  have p1 : (Statement.createDatabase name true d (n.map Int.ofNat) rp sh fu pa).print =
      tx "CREATE DATABASE " ++ qi name ++
      (tx " WITH" ++ optDur " DURATION " d ++
      (match n.map Int.ofNat with
       | none => []
       | some v => tx " REPLICATION " ++ intDigits v) ++
      (if sh > 0 then tx " SHARD DURATION " ++ formatDuration sh else []) ++
      (match fu with
       | some v => if v > 0 then tx " FUTURE LIMIT " ++ formatDuration v else []
       | none => []) ++
      (match pa with
       | some v => if v > 0 then tx " PAST LIMIT " ++ formatDuration v else []
       | none => []) ++
      (if rp ≠ [] then tx " NAME " ++ qi rp else [])) := rfl
  have hd : ∀ v : Nat, intDigits (v : Int) = natDigits v := by intro v; unfold intDigits; simp
  have e1 : tx "CREATE DATABASE " = tx "CREATE DATABASE" ++ [' '] := by decide +kernel
  have e0 : tx " WITH" = ' ' :: Token.WITH.str := by decide +kernel
  have e2 : tx " DURATION " = ' ' :: (Token.DURATION.str ++ [' ']) := by decide +kernel
  have e3 : tx " REPLICATION " = ' ' :: (Token.REPLICATION.str ++ [' ']) := by decide +kernel
  have e4 : tx " SHARD DURATION " = ' ' :: (Token.SHARD.str ++ ' ' :: (Token.DURATION.str ++ [' '])) := by
    decide +kernel
  have e5 : tx " NAME " = ' ' :: (Token.NAME.str ++ [' ']) := by decide +kernel
  have e6 : tx " FUTURE LIMIT " = ' ' :: (Token.FUTURE.str ++ ' ' :: (Token.LIMIT.str ++ [' '])) := by decide +kernel
  have e7 : tx " PAST LIMIT " = ' ' :: (Token.PAST.str ++ ' ' :: (Token.LIMIT.str ++ [' '])) := by decide +kernel
  rw [p1, e0, e1, e3, e4, e5, e6, e7]
  unfold cdbText
  cases d <;> cases n <;> cases fu <;> cases pa <;>
    simp only [optDur, optDurText, optReplText, shardText, posLimitText, rpNameText, e2, hd,
      Option.map_some, Option.map_none, Int.ofNat_eq_natCast] <;>
    (repeat' split) <;>
    simp only [List.append_assoc, List.cons_append, List.nil_append, List.append_nil]

section cdb
variable (s : PState) (rest : Str)

theorem cdb_dur (d : Option Int) (hd : DurOK d) (hs : s.Around (optDurText d ++ rest))
    (hn : NextNot rest .DURATION) (hk : DurEnd rest) :
    ∃ s', (optClause .DURATION parseDurationTok).run s = .ok (d, s') ∧ s'.Around rest := by
  cases d with
  | none => exact optClause_absent_around _ _ s rest hs hn
  | some v =>
    refine optClause_some .DURATION (by decide +kernel) _ s (formatDuration v) rest v
      (by simpa only [optDurText, List.append_assoc, List.cons_append] using hs) ?_
    intro s1 b1
    exact parseDurationTok_piece s1 [' '] (formatDuration v) rest v (hd v rfl).1 (hd v rfl).2 Gap.blank b1.around
      (scansAs_dur v (hd v rfl).1 rest hk)

theorem cdb_repl (n : Option Nat) (hn : ∀ v, n = some v → 1 ≤ v ∧ (v : Int) ≤ maxInt32)
    (hs : s.Around (optReplText n ++ rest)) (hnn : NextNot rest .REPLICATION) (hk : NumEnd rest) :
    ∃ s', (optClause .REPLICATION (parseIntRange 1 maxInt32)).run s = .ok (n.map Int.ofNat, s') ∧ s'.Around rest := by
  cases n with
  | none => exact optClause_absent_around _ _ s rest hs hnn
  | some v =>
    refine optClause_some .REPLICATION (by decide +kernel) _ s (natDigits v) rest (v : Int)
      (by simpa only [optReplText, List.append_assoc, List.cons_append] using hs) ?_
    intro s1 b1
    exact parseIntRange_piece s1 [' '] (natDigits v) rest 1 maxInt32 v (by have := (hn v rfl).1; omega)
      (hn v rfl).2 (by have := (hn v rfl).2; unfold maxInt32 at this; unfold maxInt64; omega) Gap.blank b1.around
      (scansAs_nat v rest hk)

theorem cdb_shard (sh : Int) (h0 : 0 ≤ sh) (hm : sh ≤ maxInt64) (hs : s.Around (shardText sh ++ rest))
    (hn : NextNot rest .SHARD) (hk : DurEnd rest) :
    ∃ o s', (optClause .SHARD (do
        expectTok .DURATION ["DURATION"]
        parseDurationTok)).run s = .ok (o, s') ∧ o.getD 0 = sh ∧ s'.Around rest := by
  unfold shardText at hs
  by_cases hp : sh > 0
  · rw [if_pos hp] at hs
    obtain ⟨s', h, b⟩ := optClause_some .SHARD (by decide +kernel) (do
        expectTok .DURATION ["DURATION"]
        parseDurationTok) s (Token.DURATION.str ++ ' ' :: formatDuration sh) rest sh
      (by simpa only [List.append_assoc, List.cons_append] using hs) (by
        intro s1 b1
        have b1' : s1.Before ([' '] ++ (Token.DURATION.str ++ (' ' :: (formatDuration sh ++ rest)))) := by
          simpa only [List.append_assoc, List.cons_append, List.nil_append] using b1
        obtain ⟨s2, h2, b2⟩ := expectTok_piece s1 [' '] Token.DURATION.str _ .DURATION [] ["DURATION"] Gap.blank
          b1'.around (scansAs_kw .DURATION _ (by decide +kernel) (WordEnd.blank _))
        obtain ⟨s3, h3, b3⟩ := parseDurationTok_piece s2 [' '] (formatDuration sh) rest sh h0 hm Gap.blank b2.around
          (scansAs_dur sh h0 rest hk)
        exact ⟨s3, by rw [P.run_bind _ _ s1 () s2 h2]; exact h3, b3⟩)
    exact ⟨some sh, s', h, rfl, b⟩
  · rw [if_neg hp] at hs
    obtain ⟨s', h, b⟩ := optClause_absent_around .SHARD (do
        expectTok .DURATION ["DURATION"]
        parseDurationTok) s rest hs hn
    exact ⟨none, s', h, by simp only [Option.getD_none]; omega, b⟩

theorem cdb_limit (t : Token) (ht : t.isKw = true) (v : Option Int) (hv : DurOK v) (hz : v ≠ some 0)
    (hs : s.Around (posLimitText t v ++ rest)) (hn : NextNot rest t) (hk : DurEnd rest) :
    ∃ s', (optClause t parseWriteLimit).run s = .ok (v, s') ∧ s'.Around rest := by
  cases v with
  | none => exact optClause_absent_around _ _ s rest hs hn
  | some v =>
    have hp : v > 0 := by
      have := (hv v rfl).1
      have : v ≠ 0 := fun e => hz (by rw [e])
      omega
    refine optClause_some t ht _ s (Token.LIMIT.str ++ ' ' :: formatDuration v) rest v
      (by simpa only [posLimitText, hp, if_true, List.append_assoc, List.cons_append] using hs) ?_
    intro s1 b1
    exact parseWriteLimit_piece s1 v rest (hv v rfl).1 (hv v rfl).2
      (by simpa only [List.append_assoc, List.cons_append] using b1.around) hk

theorem cdb_name (rp : Str) (hex : Expressible rp) (hs : s.Around (rpNameText rp ++ rest))
    (hn : NextNot rest .NAME) (hk : IdentEnd rp rest) :
    ∃ o s', (optClause .NAME parseIdent).run s = .ok (o, s') ∧ o.getD [] = rp ∧ s'.Around rest := by
  unfold rpNameText at hs
  by_cases hp : rp ≠ []
  · rw [if_pos hp] at hs
    obtain ⟨s', h, b⟩ := optClause_some .NAME (by decide +kernel) parseIdent s (qi rp) rest rp
      (by simpa only [List.append_assoc, List.cons_append] using hs) (by
        intro s1 b1
        exact parseIdent_piece s1 [' '] (qi rp) rest rp Gap.blank b1.around (scansAs_ident rp rest hex hk))
    exact ⟨some rp, s', h, rfl, b⟩
  · rw [if_neg hp] at hs
    obtain ⟨s', h, b⟩ := optClause_absent_around .NAME parseIdent s rest hs hn
    exact ⟨none, s', h, by simpa using Eq.symm (by simpa using hp : rp = []), b⟩

end cdb

/-- The option keywords of `CREATE DATABASE … WITH`. -/
def cdbKws : List Token := [.DURATION, .REPLICATION, .SHARD, .FUTURE, .PAST, .NAME]

/-- **Print → parse, CREATE DATABASE name WITH …** (partial): every subset of the six options in the
printer's order `DURATION`, `REPLICATION`, `SHARD DURATION`, `FUTURE LIMIT`, `PAST LIMIT`, `NAME`, all
values in the ranges the parser guarantees (`ParseDuration` returns a non-negative `int64`, the
replication factor is read by `ParseInt(1, MaxInt32)`). A retention duration of zero is printed
(`DURATION 0s`) and read back; a shard duration of zero and an empty policy name print nothing and
are read back as zero / empty.

*Excluded* — exactly the region of the recorded open finding `zero-duration-option-not-printed`:
a `FUTURE LIMIT` / `PAST LIMIT` of zero (`hfz`, `hpz`: stored as `&0`, not printed, read back as
`nil`), and a statement none of whose options is printed (`hany`: `WITH SHARD DURATION 0s`, `WITH NAME ""` —
the latter also an instance of `empty-identifier-not-printed`; the printed text ends with a lone
`WITH`, which is rejected). Witness: `createDatabase_zero_option_counterexample`.
`k` must not begin with a token that names an option. -/
theorem createDatabase_with_print_parse_partial (fuel : Nat) (s : PState) (name : Str) (d : Option Int)
    (n : Option Nat) (sh : Int) (fu pa : Option Int) (rp k : Str)
    (hex1 : Expressible name) (hex2 : Expressible rp) (hd : DurOK d)
    (hn : ∀ v, n = some v → 1 ≤ v ∧ (v : Int) ≤ maxInt32) (hsh : 0 ≤ sh ∧ sh ≤ maxInt64) (hfu : DurOK fu) (hpa : DurOK pa)
    (hfz : fu ≠ some 0) (hpz : pa ≠ some 0)
    (hany : d.isSome ∨ n.isSome ∨ sh > 0 ∨ fu.isSome ∨ pa.isSome ∨ rp ≠ []) (hk : TokEnd k) (hke : IdentEnd rp k)
    (hstop : ∀ t ∈ cdbKws, NextNot k t)
    (hs : s.Before (cdbText name d n sh fu pa rp ++ k)) :
    ∃ s', (runHandler fuel .parseCreateDatabaseStatement).run s =
        .ok (.createDatabase name true d (n.map Int.ofNat) rp sh fu pa, s') ∧ s'.Around k := by
  have e : cdbText name d n sh fu pa rp ++ k = ' ' :: (qi name ++ ' ' :: (Token.WITH.str ++ (optDurText d ++
      (optReplText n ++ (shardText sh ++ (posLimitText .FUTURE fu ++ (posLimitText .PAST pa ++
        (rpNameText rp ++ k)))))))) := by
    simp only [cdbText, List.append_assoc, List.cons_append]
  rw [e] at hs
  -- what may follow each optional clause
  have k6 : TokEnd (rpNameText rp ++ k) := TokEnd.opt (kwText_rpName rp).optText hk
  have k5 := TokEnd.opt (kwText_posLimit .PAST pa).optText k6
  have k4 := TokEnd.opt (kwText_posLimit .FUTURE fu).optText k5
  have k3 := TokEnd.opt (kwText_shard sh).optText k4
  have k2 := TokEnd.opt (kwText_optRepl n).optText k3
  have k1 := TokEnd.opt (kwText_optDur d).optText k2
  -- the first token of each tail is none of the keywords before it
  have m6 : ∀ t ∈ cdbKws, t ≠ .NAME → NextNot (rpNameText rp ++ k) t := fun t ht h =>
    nextNot_kwText t (kwText_rpName rp) (by decide +kernel) (Ne.symm h) (hstop t ht)
  have m5 : ∀ t ∈ cdbKws, t ≠ .NAME → t ≠ .PAST → NextNot (posLimitText .PAST pa ++ (rpNameText rp ++ k)) t :=
    fun t ht h1 h2 => nextNot_kwText t (kwText_posLimit .PAST pa) (by decide +kernel) (Ne.symm h2) (m6 t ht h1)
  have m4 : ∀ t ∈ cdbKws, t ≠ .NAME → t ≠ .PAST → t ≠ .FUTURE →
      NextNot (posLimitText .FUTURE fu ++ (posLimitText .PAST pa ++ (rpNameText rp ++ k))) t :=
    fun t ht h1 h2 h3 => nextNot_kwText t (kwText_posLimit .FUTURE fu) (by decide +kernel) (Ne.symm h3) (m5 t ht h1 h2)
  have m3 : ∀ t ∈ cdbKws, t ≠ .NAME → t ≠ .PAST → t ≠ .FUTURE → t ≠ .SHARD →
      NextNot (shardText sh ++ (posLimitText .FUTURE fu ++ (posLimitText .PAST pa ++ (rpNameText rp ++ k)))) t :=
    fun t ht h1 h2 h3 h4 => nextNot_kwText t (kwText_shard sh) (by decide +kernel) (Ne.symm h4) (m4 t ht h1 h2 h3)
  have m2 : ∀ t ∈ cdbKws, t ≠ .NAME → t ≠ .PAST → t ≠ .FUTURE → t ≠ .SHARD → t ≠ .REPLICATION →
      NextNot (optReplText n ++ (shardText sh ++ (posLimitText .FUTURE fu ++ (posLimitText .PAST pa ++
        (rpNameText rp ++ k))))) t :=
    fun t ht h1 h2 h3 h4 h5 => nextNot_kwText t (kwText_optRepl n) (by decide +kernel) (Ne.symm h5) (m3 t ht h1 h2 h3 h4)
  -- the probe after WITH sees an option keyword
  have hfirst : FirstIn (optDurText d ++ (optReplText n ++ (shardText sh ++ (posLimitText .FUTURE fu ++
      (posLimitText .PAST pa ++ (rpNameText rp ++ k)))))) cdbKws := by
    refine firstIn_kwText (kwText_optDur d) (by decide +kernel) (by decide) (fun e1 => ?_)
    refine firstIn_kwText (kwText_optRepl n) (by decide +kernel) (by decide) (fun e2 => ?_)
    refine firstIn_kwText (kwText_shard sh) (by decide +kernel) (by decide) (fun e3 => ?_)
    refine firstIn_kwText (kwText_posLimit .FUTURE fu) (by decide +kernel) (by decide) (fun e4 => ?_)
    refine firstIn_kwText (kwText_posLimit .PAST pa) (by decide +kernel) (by decide) (fun e5 => ?_)
    refine firstIn_kwText (kwText_rpName rp) (by decide +kernel) (by decide) (fun e6 => ?_)
    exfalso
    rcases hany with h | h | h | h | h | h
    · cases d with
      | none => cases h
      | some v => cases e1
    · cases n with
      | none => cases h
      | some v => cases e2
    · rw [shardText, if_pos h] at e3; cases e3
    · cases fu with
      | none => cases h
      | some v =>
        have : v > 0 := by
          have := (hfu v rfl).1
          have : v ≠ 0 := fun e => hfz (by rw [e])
          omega
        simp only [posLimitText, this, if_true] at e4
        cases e4
    · cases pa with
      | none => cases h
      | some v =>
        have : v > 0 := by
          have := (hpa v rfl).1
          have : v ≠ 0 := fun e => hpz (by rw [e])
          omega
        simp only [posLimitText, this, if_true] at e5
        cases e5
    · rw [rpNameText, if_pos h] at e6; cases e6
  obtain ⟨s1, h1, b1⟩ := parseIdent_piece s [' '] (qi name) _ name Gap.blank hs.around
    (scansAs_ident name _ hex1 (.of_wordEnd (WordEnd.blank _)))
  obtain ⟨s2, h2, b2⟩ := optTok_piece s1 [' '] Token.WITH.str _ .WITH [] Gap.blank b1.around
    (scansAs_kw .WITH _ (by decide +kernel) k1.1)
  obtain ⟨lx, s3, h3, t3⟩ := hfirst s2 b2
  have b3 : PState.Around { s3 with n := s3.n + 1 } (optDurText d ++ (optReplText n ++ (shardText sh ++
      (posLimitText .FUTURE fu ++ (posLimitText .PAST pa ++ (rpNameText rp ++ k)))))) :=
    ⟨s2, b2, Or.inr ⟨lx, s3, h3, rfl⟩⟩
  obtain ⟨s4, h4, b4⟩ := cdb_dur _ _ d hd b3 (m2 _ (by decide) (by decide) (by decide) (by decide) (by decide) (by decide))
    k2.2.2
  obtain ⟨s5, h5, b5⟩ := cdb_repl s4 _ n hn b4 (m3 _ (by decide) (by decide) (by decide) (by decide) (by decide)) k3.2.1
  obtain ⟨osh, s6, h6, esh, b6⟩ := cdb_shard s5 _ sh hsh.1 hsh.2 b5
    (m4 _ (by decide) (by decide) (by decide) (by decide)) k4.2.2
  obtain ⟨s7, h7, b7⟩ := cdb_limit s6 _ .FUTURE (by decide +kernel) fu hfu hfz b6
    (m5 _ (by decide) (by decide) (by decide)) k5.2.2
  obtain ⟨s8, h8, b8⟩ := cdb_limit s7 _ .PAST (by decide +kernel) pa hpa hpz b7 (m6 _ (by decide) (by decide)) k6.2.2
  obtain ⟨orp, s9, h9, erp, b9⟩ := cdb_name s8 k rp hex2 b8 (hstop _ (by decide)) hke
  refine ⟨s9, ?_, b9⟩
  have hprobe : ¬ (lx.tok ≠ .DURATION ∧ lx.tok ≠ .NAME ∧ lx.tok ≠ .REPLICATION ∧ lx.tok ≠ .SHARD ∧ lx.tok ≠ .FUTURE ∧
      lx.tok ≠ .PAST) := by
    simp only [cdbKws, List.mem_cons, List.not_mem_nil, or_false] at t3
    rcases t3 with h | h | h | h | h | h <;> simp [h]
  simp only [runHandler, parseCreateDatabase]
  rw [P.run_bind _ _ s name s1 h1, P.run_bind _ _ s1 true s2 h2]
  simp only [if_true]
  rw [P.run_bind _ _ s2 lx s3 h3]
  simp only [hprobe, if_false]
  rw [P.run_bind _ _ s3 () _ (unscan_run s3)]
  rw [P.run_bind _ _ _ d s4 h4, P.run_bind _ _ s4 _ s5 h5, P.run_bind _ _ s5 osh s6 h6, P.run_bind _ _ s6 fu s7 h7,
    P.run_bind _ _ s7 pa s8 h8, P.run_bind _ _ s8 orp s9 h9, esh, erp]
  rfl

/-- `CREATE DATABASE "my db" WITH DURATION 0s REPLICATION 2 FUTURE LIMIT 90m NAME "rp 1"`. -/
example : ∃ s', (runHandler 10 .parseCreateDatabaseStatement).run
    (PState.init (cdbText "my db".toList (some 0) (some 2) 0 (some 5400000000000) none "rp 1".toList) [] []) =
      .ok (.createDatabase "my db".toList true (some 0) (some 2) "rp 1".toList 0 (some 5400000000000) none, s') := by
  obtain ⟨s', h, _⟩ := createDatabase_with_print_parse_partial 10
    (PState.init (cdbText "my db".toList (some 0) (some 2) 0 (some 5400000000000) none "rp 1".toList) [] [])
    "my db".toList (some 0) (some 2) 0 (some 5400000000000) none "rp 1".toList [eofRune]
    (by decide) (by decide) (by intro v h; cases h; decide) (by intro v h; cases h; decide) (by decide)
    (by intro v h; cases h; decide) (by intro v h; cases h) (by decide) (by decide)
    (Or.inl rfl) .eof (.of_wordEnd .eof) (stop_eof _ (by decide)) (init_before _ (by decide +kernel))
  exact ⟨s', h⟩

example : cdbText "my db".toList (some 0) (some 2) 0 (some 5400000000000) none "rp 1".toList =
    " \"my db\" WITH DURATION 0s REPLICATION 2 FUTURE LIMIT 90m NAME \"rp 1\"".toList := by decide +kernel

/-- Why the hypotheses of `createDatabase_with_print_parse_partial` are needed (the recorded finding
`zero-duration-option-not-printed`): (1) `CREATE DATABASE d WITH SHARD DURATION 0s` is accepted, its
statement prints as `CREATE DATABASE d WITH`, and that text is rejected; (2) `CREATE DATABASE d WITH
DURATION 1h FUTURE LIMIT 0s` is accepted with `FutureWriteLimit = &0`, prints without the limit, and
that text re-parses to a *different* statement (`FutureWriteLimit = nil`). -/
theorem createDatabase_zero_option_counterexample :
    ((match parseStatementText "CREATE DATABASE d WITH SHARD DURATION 0s".toList [] [] with
     | .ok (.createDatabase n true none none [] 0 none none) => n == "d".toList
     | _ => false) = true ∧
    (Statement.createDatabase "d".toList true none none [] 0 none none).print = "CREATE DATABASE d WITH".toList ∧
    (match parseStatementText "CREATE DATABASE d WITH".toList [] [] with
     | .ok _ => false
     | .error _ => true) = true) ∧
    ((match parseStatementText "CREATE DATABASE d WITH DURATION 1h FUTURE LIMIT 0s".toList [] [] with
     | .ok (.createDatabase n true (some 3600000000000) none [] 0 (some 0) none) => n == "d".toList
     | _ => false) = true ∧
    (Statement.createDatabase "d".toList true (some 3600000000000) none [] 0 (some 0) none).print =
      "CREATE DATABASE d WITH DURATION 1h".toList ∧
    (match parseStatementText "CREATE DATABASE d WITH DURATION 1h".toList [] [] with
     | .ok (.createDatabase n true (some 3600000000000) none [] 0 none none) => n == "d".toList
     | _ => false) = true) := by
  refine ⟨⟨?_, ?_, ?_⟩, ⟨?_, ?_, ?_⟩⟩ <;> decide +kernel

/-! ### CREATE SUBSCRIPTION -/

/-- What CREATE SUBSCRIPTION prints after its keywords: `<name> ON <db>.<rp> DESTINATIONS <mode> '<d1>', '<d2>', …`
(`mode` is the keyword `ALL` or `ANY`). -/
def createSubscriptionText (name db rp : Str) (mode : Token) (v : Str) (vs : List Str) : Str :=
  ' ' :: (qi name ++ ' ' :: (Token.ON.str ++ ' ' :: (qi db ++ '.' :: (qi rp ++ ' ' :: (Token.DESTINATIONS.str ++
    ' ' :: (mode.str ++ ' ' :: (quoteString v ++ moreStrings vs)))))))

theorem createSubscription_print (name db rp : Str) (mode : Token) (v : Str) (vs : List Str) :
    (Statement.createSubscription name db rp (v :: vs) mode.str).print =
      tx "CREATE SUBSCRIPTION" ++ createSubscriptionText name db rp mode v vs := by
  have p1 : (Statement.createSubscription name db rp (v :: vs) mode.str).print =
      tx "CREATE SUBSCRIPTION " ++ qi name ++ tx " ON " ++ qi db ++ tx "." ++ qi rp ++ tx " DESTINATIONS " ++ mode.str ++
        tx " " ++ joinWith (tx ", ") ((v :: vs).map quoteString) := rfl
  have e1 : tx "CREATE SUBSCRIPTION " = tx "CREATE SUBSCRIPTION" ++ [' '] := by decide +kernel
  have e2 : tx "." = ['.'] := by decide +kernel
  have e3 : tx " DESTINATIONS " = ' ' :: (Token.DESTINATIONS.str ++ [' ']) := by decide +kernel
  have e4 : tx " " = [' '] := by decide +kernel
  rw [p1, joinStrings, e1, e2, e3, e4, tx_on]
  simp only [createSubscriptionText, List.append_assoc, List.cons_append, List.nil_append]

/-- **Print → parse, CREATE SUBSCRIPTION name ON db.rp DESTINATIONS ALL|ANY 'd1', 'd2', …** — every
statement the handler can return: any names, either mode, a destination list of any positive length
(`parseStringList` reads at least one string). The dot is read with a raw `Scan` (no blank around
it, as printed). The handler looks one token ahead for a further `,` and stays around `k`. -/
theorem createSubscription_print_parse (fuel : Nat) (s : PState) (name db rp : Str) (mode : Token) (v : Str)
    (vs : List Str) (k : Str) (hex1 : Expressible name) (hex2 : Expressible db) (hex3 : Expressible rp)
    (hmode : mode = .ALL ∨ mode = .ANY) (hexv : ∀ x ∈ v :: vs, Expressible x) (hk : NextNot k .COMMA)
    (hs : s.Before (createSubscriptionText name db rp mode v vs ++ k)) :
    ∃ s', (runHandler fuel .parseCreateSubscriptionStatement).run s =
        .ok (.createSubscription name db rp (v :: vs) mode.str, s') ∧ s'.Around k := by
  have e : createSubscriptionText name db rp mode v vs ++ k =
      ' ' :: (qi name ++ ' ' :: (Token.ON.str ++ ' ' :: (qi db ++ '.' :: (qi rp ++ ' ' :: (Token.DESTINATIONS.str ++
        ' ' :: (mode.str ++ ' ' :: (quoteString v ++ (moreStrings vs ++ k)))))))) := by
    simp only [createSubscriptionText, List.append_assoc, List.cons_append]
  rw [e] at hs
  have hmk : mode.isKw = true := by rcases hmode with rfl | rfl <;> decide +kernel
  obtain ⟨s1, h1, b1⟩ := parseIdent_piece s [' '] (qi name) _ name Gap.blank hs.around
    (scansAs_ident name _ hex1 (.of_wordEnd (WordEnd.blank _)))
  obtain ⟨s2, h2, b2⟩ := expectTok_piece s1 [' '] Token.ON.str _ .ON [] ["ON"] Gap.blank b1.around
    (scansAs_kw .ON _ (by decide +kernel) (WordEnd.blank _))
  obtain ⟨s3, h3, b3⟩ := parseIdent_piece s2 [' '] (qi db) _ db Gap.blank b2.around
    (scansAs_ident db _ hex2 (.of_wordEnd (WordEnd.dot _)))
  obtain ⟨dot, s4, h4, t4, _, b4⟩ := pscan_piece s3 ['.'] _ .DOT [] b3
    (scansAs_dot _ (quoteIdent_head_not_digit rp _))
  obtain ⟨s5, h5, b5⟩ := parseIdent_piece s4 [] (qi rp) _ rp Gap.none b4.around
    (scansAs_ident rp _ hex3 (.of_wordEnd (WordEnd.blank _)))
  obtain ⟨s6, h6, b6⟩ := expectTok_piece s5 [' '] Token.DESTINATIONS.str _ .DESTINATIONS [] ["DESTINATIONS"] Gap.blank
    b5.around (scansAs_kw .DESTINATIONS _ (by decide +kernel) (WordEnd.blank _))
  obtain ⟨m, s7, h7, t7, _, b7⟩ := scanIW_piece s6 [' '] mode.str _ mode [] Gap.blank b6.around
    (scansAs_kw mode _ hmk (WordEnd.blank _))
  obtain ⟨s8, h8, b8⟩ := parseStringList_print s7 v vs k hexv hk b7
  refine ⟨s8, ?_, b8⟩
  have hm : ¬ (m.tok ≠ .ALL ∧ m.tok ≠ .ANY) := by
    rw [t7]; rcases hmode with rfl | rfl <;> simp
  simp only [runHandler, parseCreateSubscription]
  rw [P.run_bind _ _ s name s1 h1, P.run_bind _ _ s1 () s2 h2, P.run_bind _ _ s2 db s3 h3,
    P.run_bind _ _ s3 dot s4 h4]
  simp only [t4, ne_eq, not_true_eq_false, if_false]
  rw [P.run_bind _ _ s4 rp s5 h5, P.run_bind _ _ s5 () s6 h6, P.run_bind _ _ s6 m s7 h7]
  simp only [hm, if_false]
  rw [P.run_bind _ _ s7 (v :: vs) s8 h8, t7]
  rfl

/-- `CREATE SUBSCRIPTION "sub 0" ON mydb."rp.1" DESTINATIONS ANY 'udp://h1:9090', 'it''s', ''` (three
destinations, one with an escaped quote, one empty). -/
example : ∃ s', (runHandler 10 .parseCreateSubscriptionStatement).run
    (PState.init (createSubscriptionText "sub 0".toList "mydb".toList "rp.1".toList .ANY "udp://h1:9090".toList
      ["it's".toList, []]) [] []) =
      .ok (.createSubscription "sub 0".toList "mydb".toList "rp.1".toList ["udp://h1:9090".toList, "it's".toList, []]
        "ANY".toList, s') := by
  obtain ⟨s', h, _⟩ := createSubscription_print_parse 10
    (PState.init (createSubscriptionText "sub 0".toList "mydb".toList "rp.1".toList .ANY "udp://h1:9090".toList
      ["it's".toList, []]) [] [])
    "sub 0".toList "mydb".toList "rp.1".toList .ANY "udp://h1:9090".toList ["it's".toList, []] [eofRune]
    (by decide) (by decide) (by decide) (Or.inr rfl) (by decide) (nextNot_eof _ (by decide))
    (init_before _ (by decide +kernel))
  exact ⟨s', h⟩

example : createSubscriptionText "sub 0".toList "mydb".toList "rp.1".toList .ANY "udp://h1:9090".toList ["it's".toList, []] =
    " \"sub 0\" ON mydb.\"rp.1\" DESTINATIONS ANY 'udp://h1:9090', 'it\\'s', ''".toList := by decide +kernel

/-! ### SHOW TAG VALUES -/

/-- The continuations of the clauses `[WHERE cond] [ORDER BY …] [LIMIT l] [OFFSET o]` of the SHOW statements. -/
theorem showOrder_follow (c : Option Expr) (sf : List SortField) (l o : Int) (k : Str) (hk : Follow k showStop) :
    Follow (posText .OFFSET o ++ k) [.EXACT, .CARDINALITY, .ON, .FROM, .COMMA, .WITH, .WHERE, .ORDER, .LIMIT, .SLIMIT, .SOFFSET] ∧
    Follow (posText .LIMIT l ++ (posText .OFFSET o ++ k)) [.EXACT, .CARDINALITY, .ON, .FROM, .COMMA, .WITH, .WHERE, .ORDER] ∧
    Follow (orderText sf ++ (posText .LIMIT l ++ (posText .OFFSET o ++ k)))
      [.EXACT, .CARDINALITY, .ON, .FROM, .COMMA, .WITH, .WHERE] ∧
    Follow (whereText c ++ (orderText sf ++ (posText .LIMIT l ++ (posText .OFFSET o ++ k))))
      [.EXACT, .CARDINALITY, .ON, .FROM, .COMMA, .WITH] := by
  obtain ⟨g4, g3, _, _⟩ := show_follow [] c l o k hk
  have gO : Follow (orderText sf ++ (posText .LIMIT l ++ (posText .OFFSET o ++ k)))
      [.EXACT, .CARDINALITY, .ON, .FROM, .COMMA, .WITH, .WHERE] :=
    Follow.opt (kwText_order _) (by decide +kernel) rfl (by decide) (g3.mono (by decide))
  exact ⟨g4, g3, gO, Follow.opt (kwText_where _) (by decide +kernel) rfl (by decide) (gO.mono (by decide))⟩

/-- `[ON db] [FROM qs] WITH KEY <op> <key> [WHERE cond] [ORDER BY …] [LIMIT l] [OFFSET o]`. -/
def showTagValuesText (db : Str) (qs : List (Str × Str × Str)) (op : Token) (key : Expr) (c : Option Expr) (sf : List SortField)
    (l o : Int) : Str :=
  onDbText db ++ (fromQualsText qs ++ (withKeyText op key ++ (whereText c ++ (orderText sf ++
    (posText .LIMIT l ++ posText .OFFSET o)))))

theorem showTagValues_print_partial (db : Str) (qs : List (Str × Str × Str)) (op : Token) (key : Expr) (c : Option Expr)
    (sf : List SortField) (l o : Int) (hsf : sortOKB sf = true) :
    (Statement.showTagValues db (qs.map qualSrc) op (some key) c sf l o).print =
      tx "SHOW TAG VALUES" ++ showTagValuesText db qs op key c sf l o := by
  have p1 : (Statement.showTagValues db (qs.map qualSrc) op (some key) c sf l o).print =
      tx "SHOW TAG VALUES" ++ clauseOn db ++ clauseFrom (qs.map qualSrc) ++ printTagKey op key ++ clauseWhere c ++
        clauseOrderBy sf ++ clausePos "LIMIT" l ++ clausePos "OFFSET" o := rfl
  rw [p1, clauseFrom_quals qs, clauseWhere_eq, clauseOn_onDbText, (clausePos_eq l).1, (clausePos_eq o).2.1,
    clauseOrderBy_eq sf hsf, printTagKey_eq]
  simp only [showTagValuesText, List.append_assoc, List.append_nil]

/-- **Print → parse, SHOW TAG VALUES** `[ON db] [FROM m1, …] WITH KEY = k | != k | =~ /re/ | !~ /re/ | IN (k1, k2, …)
[WHERE cond] [ORDER BY [time] ASC|DESC] [LIMIT l] [OFFSET o]`, the key clause as `printTagKey` writes it (a string-literal key is printed
as identifier and read back by `ParseIdent` into a string literal). The key clause is complete: `tagKeyOKB`
holds of every operator / key pair `parseTagKeyExpr` returns for a regex written as text (key names and the
list of `IN` of any length); so is the sort clause (`sortOKB`: the lists `parseOrderBy` returns).
Partial: the sources are measurements `db.rp.m` / `db..m` / `rp.m` / `m` printed by `Measurement.String()`
(`QualOK`: the measurement name is not empty — finding `empty-identifier-not-printed` —; no regex sources),
the condition is `Printable` (C03's class, see `deleteLike_print_parse_partial`). -/
theorem showTagValues_print_parse_partial (fuel : Nat) (s : PState) (db : Str) (qs : List (Str × Str × Str)) (op : Token)
    (key : Expr) (c : Option Expr) (sf : List SortField) (l o : Int) (k : Str)
    (hexdb : Expressible db) (hq : ∀ m ∈ qs, QualOK m) (hkey : tagKeyOKB op key = true) (hc : CondOK c)
    (hsf : sortOKB sf = true)
    (hl : 0 ≤ l ∧ l ≤ maxInt64) (ho : 0 ≤ o ∧ o ≤ maxInt64) (hk : Follow k showStop)
    (hs : s.Before (showTagValuesText db qs op key c sf l o ++ k)) :
    wp (runHandler fuel .parseShowTagValuesStatement) s
      (fun st s' => st = .showTagValues db (qs.map qualSrc) op (some key) c sf l o ∧ RT.Stand s' k) (· = .fuel) := by
  obtain ⟨g4, g3, gO, g2⟩ := showOrder_follow c sf l o k hk
  have gW : Follow (withKeyText op key ++ (whereText c ++ (orderText sf ++ (posText .LIMIT l ++ (posText .OFFSET o ++ k)))))
      [.EXACT, .CARDINALITY, .ON, .FROM, .COMMA] :=
    Follow.opt (kwText_withKey op key) (by decide +kernel) rfl (by decide) (g2.mono (by decide))
  have gF : Follow (fromQualsText qs ++ (withKeyText op key ++ (whereText c ++ (orderText sf ++ (posText .LIMIT l ++ (posText .OFFSET o ++ k))))))
      [.EXACT, .CARDINALITY, .ON] :=
    Follow.opt (kwText_fromQuals _) (by decide +kernel) rfl (by decide) (gW.mono (by decide))
  have g0 : Follow (onDbText db ++ (fromQualsText qs ++ (withKeyText op key ++ (whereText c ++ (orderText sf ++ (posText .LIMIT l ++
      (posText .OFFSET o ++ k))))))) [.EXACT, .CARDINALITY] :=
    Follow.opt (kwText_onDb _) (by decide +kernel) rfl (by decide) (gF.mono (by decide))
  have hs0 : RT.Stand s (onDbText db ++ (fromQualsText qs ++ (withKeyText op key ++ (whereText c ++ (orderText sf ++ (posText .LIMIT l ++
      (posText .OFFSET o ++ k))))))) := by
    have := hs.stand
    simpa only [showTagValuesText, List.append_assoc] using this
  obtain ⟨_, T, hT, _, hnot⟩ := g0
  obtain ⟨lx, s1, h1, t1, st1, _⟩ := RT.scanIW_starts s _ T hs0 hT
  have hne1 : ¬ lx.tok = .EXACT := by rw [t1]; intro e; exact hnot (by rw [e]; simp)
  have hne2 : ¬ lx.tok = .CARDINALITY := by rw [t1]; intro e; exact hnot (by rw [e]; simp)
  obtain ⟨s3, h3, st3⟩ := parseOnDb_stand (unsc s1) db _ hexdb (gF.mono (by decide)) st1
  obtain ⟨s4, h4, st4⟩ := parseOptFrom_quals s3 qs _ hq (gW.mono (by decide)) st3
  obtain ⟨s5, h5, b5⟩ := parseTagKeyExpr_print s4 op key _ hkey g2.tokEnd.1 st4
  simp only [runHandler, parseShowTagValues]
  rw [wp_bind, wp_of_run_ok h1]
  simp only [hne1, hne2, if_false]
  rw [wp_bind, unscan_wp, wp_bind, wp_of_run_ok h3, wp_bind, wp_of_run_ok h4, wp_bind, wp_of_run_ok h5]
  dsimp only
  rw [wp_bind]
  refine wp_mono (parseCondition_print fuel s5 c _ hc (gO.mono (by decide)) b5.stand) ?_ (fun _ h => h)
  intro c' s6 ⟨hc', st6⟩
  subst hc'
  obtain ⟨s7, h7, st7⟩ := parseOrderBy_print s6 sf _ hsf (g3.mono (by decide)) st6
  obtain ⟨s8, h8, st8⟩ := parseOptTokInt_print .LIMIT (by decide +kernel) s7 l _ hl.1 hl.2 (g4.mono (by decide)) st7
  obtain ⟨s9, h9, st9⟩ := parseOptTokInt_print .OFFSET (by decide +kernel) s8 o k ho.1 ho.2 (hk.mono (by decide)) st8
  rw [wp_bind, wp_of_run_ok h7, wp_bind, wp_of_run_ok h8, wp_bind, wp_of_run_ok h9, wp_pure]
  exact ⟨rfl, st9⟩

/-- Non-vacuity: the five forms of the key clause. -/
def exKeyIn : Expr := .list ["host".toList, "my tag".toList, "select".toList]
def exTagValuesText1 : Str := showTagValuesText "my db".toList exQs .IN exKeyIn exCond exSort 10 3
def exTagValuesText2 : Str := showTagValuesText [] [] .NEQREGEX (.regex "^a/b".toList) none [] 0 0
def exTagValuesText3 : Str := showTagValuesText [] [([], [], "cpu".toList)] .EQ (.string "my tag".toList) none [⟨[], true⟩] 5 0

example : exTagValuesText1 = (" ON \"my db\" FROM \"my db\"..cpu, rp.m, m WITH KEY IN (host, \"my tag\", \"select\") " ++
      "WHERE host = 'a' AND (x > -1 OR y =~ /^b/) ORDER BY time DESC LIMIT 10 OFFSET 3").toList ∧
    exTagValuesText2 = " WITH KEY !~ /^a\\/b/".toList ∧
    exTagValuesText3 = " FROM cpu WITH KEY = \"my tag\" ORDER BY ASC LIMIT 5".toList := by decide +kernel

example : tagKeyOKB .IN exKeyIn = true ∧ tagKeyOKB .NEQREGEX (.regex "^a/b".toList) = true ∧
    tagKeyOKB .EQ (.string "my tag".toList) = true ∧ tagKeyOKB .NEQ (.string []) = true ∧
    tagKeyOKB .EQREGEX (.regex "a\\".toList) = false ∧ tagKeyOKB .IN (.list []) = false ∧
    tagKeyOKB .EQ (.regex ['a']) = false := by decide +kernel

section
attribute [local irreducible] wp
example : wp (runHandler 200 .parseShowTagValuesStatement) (PState.init exTagValuesText1 [] [])
    (fun st s' => st = .showTagValues "my db".toList (exQs.map qualSrc) .IN (some exKeyIn) exCond exSort 10 3 ∧
      RT.Stand s' [eofRune]) (· = .fuel) :=
  showTagValues_print_parse_partial 200 (PState.init exTagValuesText1 [] []) "my db".toList exQs .IN exKeyIn exCond exSort 10 3
    [eofRune] (by decide +kernel) (by decide +kernel) (by decide +kernel) (by decide +kernel) (by decide +kernel) (by decide)
    (by decide)
    (Follow.eof _ (by decide)) (init_before exTagValuesText1 (by decide +kernel))

example : wp (runHandler 200 .parseShowTagValuesStatement) (PState.init exTagValuesText2 [] [])
    (fun st s' => st = .showTagValues [] [] .NEQREGEX (some (.regex "^a/b".toList)) none [] 0 0 ∧
      RT.Stand s' [eofRune]) (· = .fuel) :=
  showTagValues_print_parse_partial 200 (PState.init exTagValuesText2 [] []) [] [] .NEQREGEX (.regex "^a/b".toList) none [] 0 0
    [eofRune] (by decide +kernel) (by decide +kernel) (by decide +kernel) (by decide +kernel) (by decide +kernel) (by decide)
    (by decide)
    (Follow.eof _ (by decide)) (init_before exTagValuesText2 (by decide +kernel))
end

/-- … and the fuel suffices on these inputs. -/
example : (match (runHandler 200 .parseShowTagValuesStatement).run (PState.init exTagValuesText1 [] []) with
    | .ok _ => true
    | .error _ => false) = true ∧
    (match (runHandler 200 .parseShowTagValuesStatement).run (PState.init exTagValuesText3 [] []) with
    | .ok (.showTagValues [] [.measurement m] .EQ (some (.string v)) none [f] 5 0, _) =>
      m.name == "cpu".toList && v == "my tag".toList && f.name == [] && f.ascending
    | _ => false) = true := by decide +kernel

/-! ### SHOW MEASUREMENTS with `ON` and `WITH MEASUREMENT` -/

/-- `[ON db[.rp] | ON * | ON *.* …] [WITH MEASUREMENT = m | =~ /re/] [WHERE cond] [ORDER BY …] [LIMIT l] [OFFSET o]`. -/
def showMeasText (db rp : Str) (wdb wrp : Bool) (m : MeasSpec) (c : Option Expr) (sf : List SortField) (l o : Int) : Str :=
  onMeasText db rp wdb wrp ++ (withMeasText m ++ (whereText c ++ (orderText sf ++ (posText .LIMIT l ++ posText .OFFSET o))))

/-- The text equation; a measurement name is not empty (finding `empty-identifier-not-printed`:
`WITH MEASUREMENT = ""` prints no name). -/
theorem showMeasurements_full_print_partial (db rp : Str) (wdb wrp : Bool) (m : MeasSpec) (c : Option Expr)
    (sf : List SortField) (l o : Int) (hm : ∀ n, m = .name n → n ≠ []) (hsf : sortOKB sf = true) :
    (Statement.showMeasurements db rp wdb wrp m.source c sf l o).print =
      tx "SHOW MEASUREMENTS" ++ showMeasText db rp wdb wrp m c sf l o := by
  have p1 : (Statement.showMeasurements db rp wdb wrp m.source c sf l o).print =
      tx "SHOW MEASUREMENTS" ++
      (if db ≠ [] ∨ wdb then
        tx " ON " ++ (if wdb then tx "*" else qi db) ++
        (if wrp then tx ".*" else if rp ≠ [] then tx "." ++ qi rp else [])
       else []) ++
      (match m.source with
       | none => []
       | some (.measurement m) =>
         tx " WITH MEASUREMENT " ++ (if m.regex.isSome then tx "=~ " else tx "= ") ++ m.print
       | some x => tx " WITH MEASUREMENT = " ++ x.print) ++
      clauseWhere c ++ clauseOrderBy sf ++ clausePos "LIMIT" l ++ clausePos "OFFSET" o := rfl
  have eon : (if db ≠ [] ∨ wdb then
        tx " ON " ++ (if wdb then tx "*" else qi db) ++
        (if wrp then tx ".*" else if rp ≠ [] then tx "." ++ qi rp else [])
       else []) = onMeasText db rp wdb wrp := by
    have e1 : tx "*" = ['*'] := by decide +kernel
    have e2 : tx ".*" = ['.', '*'] := by decide +kernel
    have e3 : tx "." = ['.'] := by decide +kernel
    rw [tx_on, e1, e2, e3]
    unfold onMeasText starText rpMeasText
    by_cases h1 : db ≠ [] ∨ wdb = true
    · rw [if_pos h1, if_pos h1]
      by_cases h2 : wdb = true <;> by_cases h3 : wrp = true <;> by_cases h4 : rp ≠ [] <;>
        simp only [h2, h3, h4, if_true, if_false, not_false_eq_true, List.append_assoc, List.cons_append,
          List.nil_append, List.append_nil]
    · rw [if_neg h1, if_neg h1]
  have ems : (match m.source with
       | none => []
       | some (.measurement m) =>
         tx " WITH MEASUREMENT " ++ (if m.regex.isSome then tx "=~ " else tx "= ") ++ m.print
       | some x => tx " WITH MEASUREMENT = " ++ x.print) = withMeasText m := by
    have e1 : tx " WITH MEASUREMENT " = ' ' :: (Token.WITH.str ++ ' ' :: (Token.MEASUREMENT.str ++ [' '])) := by
      decide +kernel
    have e2 : tx "=~ " = ['=', '~', ' '] := by decide +kernel
    have e3 : tx "= " = ['=', ' '] := by decide +kernel
    cases m with
    | none => rfl
    | name n =>
      have hp : Measurement.print { name := n } = qi n := nameSrc_print n (hm n rfl)
      show tx " WITH MEASUREMENT " ++ (if (none : Option Str).isSome then tx "=~ " else tx "= ") ++
        Measurement.print { name := n } = _
      rw [hp, e1, e3]
      simp [withMeasText]
    | regex src =>
      have hp : Measurement.print { regex := some src } = '/' :: (escapeSlashes src ++ ['/']) := by
        unfold Measurement.print; simp
      show tx " WITH MEASUREMENT " ++ (if (some src : Option Str).isSome then tx "=~ " else tx "= ") ++
        Measurement.print { regex := some src } = _
      rw [hp, e1, e2]
      simp [withMeasText]
  rw [p1, eon, ems, clauseWhere_eq, (clausePos_eq l).1, (clausePos_eq o).2.1, clauseOrderBy_eq sf hsf]
  simp only [showMeasText, List.append_assoc, List.append_nil]

/-- The tokens that continue a SHOW MEASUREMENTS statement: those of `showStop` and `.` (after `ON db`). -/
def showMeasStop : List Token := .DOT :: showStop

/-- **Print → parse, SHOW MEASUREMENTS** `[ON db | ON db.rp | ON * | ON *.* | ON db.* | ON *.rp]
[WITH MEASUREMENT = m | WITH MEASUREMENT =~ /re/] [WHERE cond] [ORDER BY [time] ASC|DESC] [LIMIT l] [OFFSET o]`.
Partial: `OnMeasOK` excludes `ON "".rp` / `ON "".*` (finding `empty-identifier-not-printed`: the clause is not
printed when the database is the empty name); the measurement of `WITH MEASUREMENT` is a plain name (no
database / retention policy qualification) or a regex that can be written as text; the condition is
`Printable`. The sort clause is complete (`sortOKB`: the lists `parseOrderBy` returns). `WITH MEASUREMENT = /re/`
(accepted by the parser) yields the same statement as `=~`. -/
theorem showMeasurements_full_print_parse_partial (fuel : Nat) (s : PState) (db rp : Str) (wdb wrp : Bool) (m : MeasSpec)
    (c : Option Expr) (sf : List SortField) (l o : Int) (k : Str)
    (hex1 : Expressible db) (hex2 : Expressible rp) (hon : OnMeasOK db rp wdb wrp) (hm : m.okB = true) (hc : CondOK c)
    (hsf : sortOKB sf = true)
    (hl : 0 ≤ l ∧ l ≤ maxInt64) (ho : 0 ≤ o ∧ o ≤ maxInt64) (hk : Follow k showMeasStop)
    (hs : s.Before (showMeasText db rp wdb wrp m c sf l o ++ k)) :
    wp (runHandler fuel .parseShowMeasurementsStatement) s
      (fun st s' => st = .showMeasurements db rp wdb wrp m.source c sf l o ∧ RT.Stand s' k) (· = .fuel) := by
  have g4 : Follow (posText .OFFSET o ++ k) [.DOT, .ON, .WITH, .WHERE, .ORDER, .COMMA, .LIMIT] :=
    Follow.opt (kwText_pos _ _) (by decide +kernel) rfl (by decide) (hk.mono (by decide))
  have g3 : Follow (posText .LIMIT l ++ (posText .OFFSET o ++ k)) [.DOT, .ON, .WITH, .WHERE, .ORDER, .COMMA] :=
    Follow.opt (kwText_pos _ _) (by decide +kernel) rfl (by decide) (g4.mono (by decide))
  have gO : Follow (orderText sf ++ (posText .LIMIT l ++ (posText .OFFSET o ++ k))) [.DOT, .ON, .WITH, .WHERE] :=
    Follow.opt (kwText_order _) (by decide +kernel) rfl (by decide) (g3.mono (by decide))
  have g2 : Follow (whereText c ++ (orderText sf ++ (posText .LIMIT l ++ (posText .OFFSET o ++ k)))) [.DOT, .ON, .WITH] :=
    Follow.opt (kwText_where _) (by decide +kernel) rfl (by decide) (gO.mono (by decide))
  have g1 : Follow (withMeasText m ++ (whereText c ++ (orderText sf ++ (posText .LIMIT l ++ (posText .OFFSET o ++ k)))))
      [.DOT, .ON] :=
    Follow.opt (kwText_withMeas _) (by decide +kernel) rfl (by decide) (g2.mono (by decide))
  have hs0 : RT.Stand s (onMeasText db rp wdb wrp ++ (withMeasText m ++ (whereText c ++ (orderText sf ++ (posText .LIMIT l ++
      (posText .OFFSET o ++ k)))))) := by
    have := hs.stand
    simpa only [showMeasText, List.append_assoc] using this
  obtain ⟨s1, h1, st1⟩ := parseOnMeas_print s db rp wdb wrp _ hex1 hex2 hon (g1.mono (by decide)) hs0
  obtain ⟨s2, h2, st2⟩ := parseWithMeas_print s1 m _ hm (g2.mono (by decide)) st1
  simp only [runHandler]
  rw [parseShowMeasurements_eq, wp_bind, wp_of_run_ok h1]
  dsimp only
  rw [wp_bind, wp_of_run_ok h2, wp_bind]
  refine wp_mono (parseCondition_print fuel s2 c _ hc (gO.mono (by decide)) st2) ?_ (fun _ h => h)
  intro c' s5 ⟨hc', st5⟩
  subst hc'
  obtain ⟨s6, h6, st6⟩ := parseOrderBy_print s5 sf _ hsf (g3.mono (by decide)) st5
  obtain ⟨s7, h7, st7⟩ := parseOptTokInt_print .LIMIT (by decide +kernel) s6 l _ hl.1 hl.2 (g4.mono (by decide)) st6
  obtain ⟨s8, h8, st8⟩ := parseOptTokInt_print .OFFSET (by decide +kernel) s7 o k ho.1 ho.2 (hk.mono (by decide)) st7
  rw [wp_bind, wp_of_run_ok h6, wp_bind, wp_of_run_ok h7, wp_bind, wp_of_run_ok h8, wp_pure]
  exact ⟨rfl, st8⟩

/-- Non-vacuity: `ON "my db"."rp.1" WITH MEASUREMENT = "my m" WHERE … LIMIT 10 OFFSET 3`, `ON *.* WITH MEASUREMENT =~ /^c\/pu/`,
`ON db0.*`, `ON *`. -/
def exMeasText1 : Str := showMeasText "my db".toList "rp.1".toList false false (.name "my m".toList) exCond exSort 10 3
def exMeasText2 : Str := showMeasText [] [] true true (.regex "^c/pu".toList) none [] 0 0
def exMeasText3 : Str := showMeasText "db0".toList [] false true .none none [] 0 2
def exMeasText4 : Str := showMeasText [] [] true false .none none [] 0 0

example : exMeasText1 = (" ON \"my db\".\"rp.1\" WITH MEASUREMENT = \"my m\" " ++
      "WHERE host = 'a' AND (x > -1 OR y =~ /^b/) ORDER BY time DESC LIMIT 10 OFFSET 3").toList ∧
    exMeasText2 = " ON *.* WITH MEASUREMENT =~ /^c\\/pu/".toList ∧
    exMeasText3 = " ON db0.* OFFSET 2".toList ∧ exMeasText4 = " ON *".toList := by decide +kernel

example : OnMeasOK "my db".toList "rp.1".toList false false ∧ OnMeasOK [] [] true true ∧ OnMeasOK "db0".toList [] false true ∧
    OnMeasOK [] [] true false ∧ OnMeasOK [] "rp".toList true false ∧ OnMeasOK [] [] false false ∧
    ¬ OnMeasOK [] "rp".toList false false ∧ ¬ OnMeasOK [] [] false true := by decide +kernel

section
attribute [local irreducible] wp
example : wp (runHandler 200 .parseShowMeasurementsStatement) (PState.init exMeasText1 [] [])
    (fun st s' => st = .showMeasurements "my db".toList "rp.1".toList false false (some (nameSrc "my m".toList)) exCond exSort 10 3 ∧
      RT.Stand s' [eofRune]) (· = .fuel) :=
  showMeasurements_full_print_parse_partial 200 (PState.init exMeasText1 [] []) "my db".toList "rp.1".toList false false
    (.name "my m".toList) exCond exSort 10 3 [eofRune] (by decide +kernel) (by decide +kernel) (by decide +kernel)
    (by decide +kernel) (by decide +kernel) (by decide +kernel) (by decide) (by decide) (Follow.eof _ (by decide))
    (init_before exMeasText1 (by decide +kernel))

example : wp (runHandler 200 .parseShowMeasurementsStatement) (PState.init exMeasText2 [] [])
    (fun st s' => st = .showMeasurements [] [] true true (some (.measurement { regex := some "^c/pu".toList })) none [] 0 0 ∧
      RT.Stand s' [eofRune]) (· = .fuel) :=
  showMeasurements_full_print_parse_partial 200 (PState.init exMeasText2 [] []) [] [] true true
    (.regex "^c/pu".toList) none [] 0 0 [eofRune] (by decide +kernel) (by decide +kernel) (by decide +kernel)
    (by decide +kernel) (by decide +kernel) (by decide +kernel) (by decide) (by decide) (Follow.eof _ (by decide))
    (init_before exMeasText2 (by decide +kernel))

example : wp (runHandler 200 .parseShowMeasurementsStatement) (PState.init exMeasText3 [] [])
    (fun st s' => st = .showMeasurements "db0".toList [] false true none none [] 0 2 ∧ RT.Stand s' [eofRune]) (· = .fuel) :=
  showMeasurements_full_print_parse_partial 200 (PState.init exMeasText3 [] []) "db0".toList [] false true
    .none none [] 0 2 [eofRune] (by decide +kernel) (by decide +kernel) (by decide +kernel)
    (by decide +kernel) (by decide +kernel) (by decide +kernel) (by decide) (by decide) (Follow.eof _ (by decide))
    (init_before exMeasText3 (by decide +kernel))
end

/-- … and the fuel suffices. -/
example : (match (runHandler 200 .parseShowMeasurementsStatement).run (PState.init exMeasText1 [] []) with
    | .ok _ => true
    | .error _ => false) = true := by decide +kernel

/-- The excluded `ON` clauses (finding `empty-identifier-not-printed`): `SHOW MEASUREMENTS ON "".rp` is accepted
and prints without the clause. -/
example : (match parseStatementText "SHOW MEASUREMENTS ON \"\".rp".toList [] [] with
     | .ok (.showMeasurements [] r false false none none [] 0 0) => r == "rp".toList
     | _ => false) = true ∧
    (Statement.showMeasurements [] "rp".toList false false none none [] 0 0).print = "SHOW MEASUREMENTS".toList := by
  constructor <;> decide +kernel

/-! ### the cardinality statements -/

/-- `[ON db] [FROM qs] [WHERE cond] [GROUP BY dims] [LIMIT l] [OFFSET o]`. -/
def cardText (db : Str) (qs : List (Str × Str × Str)) (c : Option Expr) (ds : List Expr) (l o : Int) : Str :=
  onDbText db ++ (fromQualsText qs ++ (whereText c ++ (groupText ds ++ (posText .LIMIT l ++ posText .OFFSET o))))

/-- The same with the `WITH KEY` clause of SHOW TAG VALUES CARDINALITY. -/
def cardKeyText (db : Str) (qs : List (Str × Str × Str)) (op : Token) (key : Expr) (c : Option Expr) (ds : List Expr) (l o : Int) : Str :=
  onDbText db ++ (fromQualsText qs ++ (withKeyText op key ++ (whereText c ++ (groupText ds ++
    (posText .LIMIT l ++ posText .OFFSET o)))))

/-- ` [EXACT] CARDINALITY`. -/
def exactCardText (ex : Bool) : Str := exactText ex ++ ' ' :: Token.CARDINALITY.str

theorem exactCard_eq (ex : Bool) :
    (if ex then tx " EXACT" else []) ++ tx " CARDINALITY" = exactCardText ex ∧
    tx " " ++ exactCardinality ex = exactCardText ex := by
  cases ex <;> decide +kernel

/-- The text equations (for all values). -/
theorem cardinality_print_partial (db : Str) (ex : Bool) (qs : List (Str × Str × Str)) (op : Token) (key : Expr) (c : Option Expr)
    (ds : List Expr) (l o : Int) :
    (Statement.showSeriesCardinality db ex (qs.map qualSrc) c ds l o).print =
      tx "SHOW SERIES" ++ (exactCardText ex ++ cardText db qs c ds l o) ∧
    (Statement.showMeasurementCardinality ex db (qs.map qualSrc) c ds l o).print =
      tx "SHOW MEASUREMENT" ++ (exactCardText ex ++ cardText db qs c ds l o) ∧
    (Statement.showTagKeyCardinality db ex (qs.map qualSrc) c ds l o).print =
      tx "SHOW TAG KEY" ++ (exactCardText ex ++ cardText db qs c ds l o) ∧
    (Statement.showFieldKeyCardinality db ex (qs.map qualSrc) c ds l o).print =
      tx "SHOW FIELD KEY" ++ (exactCardText ex ++ cardText db qs c ds l o) ∧
    (Statement.showTagValuesCardinality db ex (qs.map qualSrc) op (some key) c ds l o).print =
      tx "SHOW TAG VALUES" ++ (exactCardText ex ++ cardKeyText db qs op key c ds l o) := by
  have p1 : (Statement.showSeriesCardinality db ex (qs.map qualSrc) c ds l o).print =
      tx "SHOW SERIES" ++ (if ex then tx " EXACT" else []) ++ tx " CARDINALITY" ++ clauseOn db ++
        clauseFrom (qs.map qualSrc) ++ clauseWhere c ++ clauseGroupBy ds ++ clausePos "LIMIT" l ++ clausePos "OFFSET" o := rfl
  have p2 : (Statement.showMeasurementCardinality ex db (qs.map qualSrc) c ds l o).print =
      tx "SHOW MEASUREMENT" ++ (if ex then tx " EXACT" else []) ++ tx " CARDINALITY" ++ clauseOn db ++
        clauseFrom (qs.map qualSrc) ++ clauseWhere c ++ clauseGroupBy ds ++ clausePos "LIMIT" l ++ clausePos "OFFSET" o := rfl
  have p3 : (Statement.showTagKeyCardinality db ex (qs.map qualSrc) c ds l o).print =
      tx "SHOW TAG KEY " ++ exactCardinality ex ++ clauseOn db ++
        clauseFrom (qs.map qualSrc) ++ clauseWhere c ++ clauseGroupBy ds ++ clausePos "LIMIT" l ++ clausePos "OFFSET" o := rfl
  have p4 : (Statement.showFieldKeyCardinality db ex (qs.map qualSrc) c ds l o).print =
      tx "SHOW FIELD KEY " ++ exactCardinality ex ++ clauseOn db ++
        clauseFrom (qs.map qualSrc) ++ clauseWhere c ++ clauseGroupBy ds ++ clausePos "LIMIT" l ++ clausePos "OFFSET" o := rfl
  have p5 : (Statement.showTagValuesCardinality db ex (qs.map qualSrc) op (some key) c ds l o).print =
      tx "SHOW TAG VALUES " ++ exactCardinality ex ++ clauseOn db ++
        clauseFrom (qs.map qualSrc) ++ printTagKey op key ++ clauseWhere c ++ clauseGroupBy ds ++ clausePos "LIMIT" l ++
        clausePos "OFFSET" o := rfl
  have e3 : tx "SHOW TAG KEY " = tx "SHOW TAG KEY" ++ tx " " := by decide +kernel
  have e4 : tx "SHOW FIELD KEY " = tx "SHOW FIELD KEY" ++ tx " " := by decide +kernel
  have e5 : tx "SHOW TAG VALUES " = tx "SHOW TAG VALUES" ++ tx " " := by decide +kernel
  have a1 : ∀ x y : Str, x ++ (if ex then tx " EXACT" else []) ++ tx " CARDINALITY" ++ y = x ++ (exactCardText ex ++ y) := by
    intro x y; rw [← (exactCard_eq ex).1]; simp only [List.append_assoc]
  have a2 : ∀ x y : Str, x ++ tx " " ++ exactCardinality ex ++ y = x ++ (exactCardText ex ++ y) := by
    intro x y; rw [← (exactCard_eq ex).2]; simp only [List.append_assoc]
  rw [p1, p2, p3, p4, p5, e3, e4, e5, clauseFrom_quals qs, clauseWhere_eq, clauseOn_onDbText, (clausePos_eq l).1,
    (clausePos_eq o).2.1, clauseGroupBy_eq, printTagKey_eq]
  simp only [List.append_assoc] at a1 a2 ⊢
  simp only [a1, a2, cardText, cardKeyText, List.append_assoc, and_self]

section cardinality
variable (db : Str) (qs : List (Str × Str × Str)) (c : Option Expr) (ds : List Expr) (l o : Int) (k : Str)

theorem card_follow (hk : Follow k cardStop) :
    Follow (fromQualsText qs ++ (whereText c ++ (groupText ds ++ (posText .LIMIT l ++ (posText .OFFSET o ++ k)))))
      [.EXACT, .CARDINALITY, .ON] ∧
    Follow (onDbText db ++ (fromQualsText qs ++ (whereText c ++ (groupText ds ++ (posText .LIMIT l ++
      (posText .OFFSET o ++ k)))))) [.EXACT, .CARDINALITY] := by
  obtain ⟨_, _, _, g2⟩ := cardRest_follow c ds l o k hk
  have gF : Follow (fromQualsText qs ++ (whereText c ++ (groupText ds ++ (posText .LIMIT l ++ (posText .OFFSET o ++ k)))))
      [.EXACT, .CARDINALITY, .ON] := Follow.opt (kwText_fromQuals _) (by decide +kernel) rfl (by decide) (g2.mono (by decide))
  exact ⟨gF, Follow.opt (kwText_onDb _) (by decide +kernel) rfl (by decide) (gF.mono (by decide))⟩

/-- `[ON db] [FROM qs]` and the common tail, from a state standing before them. -/
theorem cardBody_print (fuel : Nat) (s : PState) (C : Str → List Source → Option Expr → List Expr → Int → Int → Statement)
    (hexdb : Expressible db) (hq : ∀ m ∈ qs, QualOK m) (hc : CondOK c)
    (hds : ∀ x ∈ ds, RT.rtOK false x = true) (hl : 0 ≤ l ∧ l ≤ maxInt64) (ho : 0 ≤ o ∧ o ≤ maxInt64)
    (hk : Follow k cardStop)
    (hs : RT.Stand s (onDbText db ++ (fromQualsText qs ++ (whereText c ++ (groupText ds ++ (posText .LIMIT l ++
      (posText .OFFSET o ++ k))))))) :
    wp (do
      let db ← parseOnDb
      let sources ← parseOptFrom
      let cond ← parseCondition fuel
      let dims ← parseDimensions fuel
      let limit ← parseOptTokInt .LIMIT
      let offset ← parseOptTokInt .OFFSET
      pure (C db sources cond dims limit offset)) s
      (fun st s' => st = C db (qs.map qualSrc) c ds l o ∧ RT.Stand s' k) (· = .fuel) := by
  obtain ⟨_, _, _, g2⟩ := cardRest_follow c ds l o k hk
  obtain ⟨gF, _⟩ := card_follow db qs c ds l o k hk
  obtain ⟨s3, h3, st3⟩ := parseOnDb_stand s db _ hexdb (gF.mono (by decide)) hs
  obtain ⟨s4, h4, st4⟩ := parseOptFrom_quals s3 qs _ hq (g2.mono (by decide)) st3
  rw [wp_bind, wp_of_run_ok h3, wp_bind, wp_of_run_ok h4]
  exact cardRest_print fuel s4 (C db (qs.map qualSrc)) c ds l o k hc hds hl ho hk st4

variable (ex : Bool)

/-- **Print → parse, SHOW SERIES [EXACT] CARDINALITY** `[ON db] [FROM m1, …] [WHERE cond] [GROUP BY d1, …] [LIMIT l]
[OFFSET o]`. Partial: sources `db.rp.m` / `db..m` / `rp.m` / `m` with a non-empty name (`QualOK`), no regex
sources; condition and dimensions of C03's class `Printable`
(tag qs, printable expressions; no `time(…)`, `*`, regex dimensions). -/
theorem showSeriesCardinality_print_parse_partial (fuel : Nat) (s : PState)
    (hexdb : Expressible db) (hq : ∀ m ∈ qs, QualOK m) (hc : CondOK c)
    (hds : ∀ x ∈ ds, RT.rtOK false x = true) (hl : 0 ≤ l ∧ l ≤ maxInt64) (ho : 0 ≤ o ∧ o ≤ maxInt64)
    (hk : Follow k cardStop) (hs : s.Before (exactCardText ex ++ cardText db qs c ds l o ++ k)) :
    wp (runHandler fuel .parseShowSeriesStatement) s
      (fun st s' => st = .showSeriesCardinality db ex (qs.map qualSrc) c ds l o ∧ RT.Stand s' k) (· = .fuel) := by
  obtain ⟨_, g0⟩ := card_follow db qs c ds l o k hk
  have hs0 : s.Before (exactText ex ++ (' ' :: (Token.CARDINALITY.str ++ (onDbText db ++ (fromQualsText qs ++ (whereText c ++
      (groupText ds ++ (posText .LIMIT l ++ (posText .OFFSET o ++ k))))))))) := by
    simpa only [exactCardText, cardText, List.append_assoc, List.cons_append] using hs
  obtain ⟨s1, h1, b1⟩ := optExact_print s ex _ g0.tokEnd.1 hs0.around
  obtain ⟨s2, h2, b2⟩ := optTok_piece s1 [' '] Token.CARDINALITY.str _ .CARDINALITY [] Gap.blank b1
    (scansAs_kw .CARDINALITY _ (by decide +kernel) g0.tokEnd.1)
  simp only [runHandler, parseShowSeries]
  rw [wp_bind, wp_of_run_ok h1, wp_bind, wp_of_run_ok h2]
  simp only [if_true]
  exact cardBody_print db qs c ds l o k fuel s2 (fun db ss c ds l o => .showSeriesCardinality db ex ss c ds l o)
    hexdb hq hc hds hl ho hk b2.stand

/-- **Print → parse, SHOW MEASUREMENT [EXACT] CARDINALITY …**: the dispatch reads `SHOW MEASUREMENT EXACT` /
`SHOW MEASUREMENT CARDINALITY`; the handler for the first expects `CARDINALITY`. Partial as above. -/
theorem showMeasurementCardinality_print_parse_partial (fuel : Nat) (s : PState)
    (hexdb : Expressible db) (hq : ∀ m ∈ qs, QualOK m) (hc : CondOK c)
    (hds : ∀ x ∈ ds, RT.rtOK false x = true) (hl : 0 ≤ l ∧ l ≤ maxInt64) (ho : 0 ≤ o ∧ o ≤ maxInt64)
    (hk : Follow k cardStop)
    (hs : s.Before ((if ex then ' ' :: Token.CARDINALITY.str else []) ++ cardText db qs c ds l o ++ k)) :
    wp (runHandler fuel (if ex then .parseShowMeasurementCardinalityStatement_true
        else .parseShowMeasurementCardinalityStatement_false)) s
      (fun st s' => st = .showMeasurementCardinality ex db (qs.map qualSrc) c ds l o ∧ RT.Stand s' k) (· = .fuel) := by
  obtain ⟨_, g0⟩ := card_follow db qs c ds l o k hk
  cases ex with
  | true =>
    have hs0 : s.Before ([' '] ++ (Token.CARDINALITY.str ++ (onDbText db ++ (fromQualsText qs ++ (whereText c ++
        (groupText ds ++ (posText .LIMIT l ++ (posText .OFFSET o ++ k)))))))) := by
      simpa only [cardText, if_true, List.append_assoc, List.cons_append, List.nil_append] using hs
    obtain ⟨s2, h2, b2⟩ := expectTok_piece s [' '] Token.CARDINALITY.str _ .CARDINALITY [] ["CARDINALITY"] Gap.blank
      hs0.around (scansAs_kw .CARDINALITY _ (by decide +kernel) g0.tokEnd.1)
    simp only [if_true, runHandler, parseShowMeasurementCardinality]
    rw [wp_bind, wp_of_run_ok h2]
    exact cardBody_print db qs c ds l o k fuel s2 (fun db ss c ds l o => .showMeasurementCardinality true db ss c ds l o)
      hexdb hq hc hds hl ho hk b2.stand
  | false =>
    have hs0 : s.Before (onDbText db ++ (fromQualsText qs ++ (whereText c ++
        (groupText ds ++ (posText .LIMIT l ++ (posText .OFFSET o ++ k)))))) := by
      simpa only [cardText, Bool.false_eq_true, if_false, List.append_assoc, List.nil_append] using hs
    simp only [Bool.false_eq_true, if_false, runHandler, parseShowMeasurementCardinality]
    exact cardBody_print db qs c ds l o k fuel s (fun db ss c ds l o => .showMeasurementCardinality false db ss c ds l o)
      hexdb hq hc hds hl ho hk hs0.stand

/-- `parseExactCardinality` on ` [EXACT] CARDINALITY`. -/
theorem parseExactCardinality_print (s : PState) (rest : Str) (hw : WordEnd rest)
    (hs : s.Before (exactText ex ++ (' ' :: (Token.CARDINALITY.str ++ rest)))) :
    ∃ s', parseExactCardinality.run s = .ok (ex, s') ∧ s'.Before rest := by
  obtain ⟨s1, h1, b1⟩ := optExact_print s ex rest hw hs.around
  obtain ⟨lx, s2, h2, t2, _, b2⟩ := scanIW_piece s1 [' '] Token.CARDINALITY.str rest .CARDINALITY [] Gap.blank b1
    (scansAs_kw .CARDINALITY _ (by decide +kernel) hw)
  refine ⟨s2, ?_, b2⟩
  unfold parseExactCardinality
  rw [P.run_bind _ _ s ex s1 h1, P.run_bind _ _ s1 lx s2 h2]
  simp only [t2, ne_eq, not_true_eq_false, if_false]
  rfl

/-- **Print → parse, SHOW TAG KEY [EXACT] CARDINALITY … / SHOW FIELD KEY [EXACT] CARDINALITY …**. Partial as above. -/
theorem showKeyCardinality_print_parse_partial (fuel : Nat) (s : PState)
    (hexdb : Expressible db) (hq : ∀ m ∈ qs, QualOK m) (hc : CondOK c)
    (hds : ∀ x ∈ ds, RT.rtOK false x = true) (hl : 0 ≤ l ∧ l ≤ maxInt64) (ho : 0 ≤ o ∧ o ≤ maxInt64)
    (hk : Follow k cardStop) (hs : s.Before (exactCardText ex ++ cardText db qs c ds l o ++ k)) :
    wp (runHandler fuel .parseShowTagKeyCardinalityStatement) s
      (fun st s' => st = .showTagKeyCardinality db ex (qs.map qualSrc) c ds l o ∧ RT.Stand s' k) (· = .fuel) ∧
    wp (runHandler fuel .parseShowFieldKeyCardinalityStatement) s
      (fun st s' => st = .showFieldKeyCardinality db ex (qs.map qualSrc) c ds l o ∧ RT.Stand s' k) (· = .fuel) := by
  obtain ⟨_, g0⟩ := card_follow db qs c ds l o k hk
  have hs0 : s.Before (exactText ex ++ (' ' :: (Token.CARDINALITY.str ++ (onDbText db ++ (fromQualsText qs ++ (whereText c ++
      (groupText ds ++ (posText .LIMIT l ++ (posText .OFFSET o ++ k))))))))) := by
    simpa only [exactCardText, cardText, List.append_assoc, List.cons_append] using hs
  obtain ⟨s2, h2, b2⟩ := parseExactCardinality_print ex s _ g0.tokEnd.1 hs0
  constructor
  · simp only [runHandler, parseShowTagKeyCardinality]
    rw [wp_bind, wp_of_run_ok h2]
    exact cardBody_print db qs c ds l o k fuel s2 (fun db ss c ds l o => .showTagKeyCardinality db ex ss c ds l o)
      hexdb hq hc hds hl ho hk b2.stand
  · simp only [runHandler, parseShowFieldKeyCardinality]
    rw [wp_bind, wp_of_run_ok h2]
    exact cardBody_print db qs c ds l o k fuel s2 (fun db ss c ds l o => .showFieldKeyCardinality db ex ss c ds l o)
      hexdb hq hc hds hl ho hk b2.stand

/-- **Print → parse, SHOW TAG VALUES [EXACT] CARDINALITY** `[ON db] [FROM m1, …] WITH KEY … [WHERE cond] [GROUP BY …]
[LIMIT l] [OFFSET o]`; the key clause as in `showTagValues_print_parse_partial` (complete). Partial as above. -/
theorem showTagValuesCardinality_print_parse_partial (fuel : Nat) (s : PState) (op : Token) (key : Expr)
    (hexdb : Expressible db) (hq : ∀ m ∈ qs, QualOK m) (hkey : tagKeyOKB op key = true) (hc : CondOK c)
    (hds : ∀ x ∈ ds, RT.rtOK false x = true) (hl : 0 ≤ l ∧ l ≤ maxInt64) (ho : 0 ≤ o ∧ o ≤ maxInt64)
    (hk : Follow k cardStop) (hs : s.Before (exactCardText ex ++ cardKeyText db qs op key c ds l o ++ k)) :
    wp (runHandler fuel .parseShowTagValuesStatement) s
      (fun st s' => st = .showTagValuesCardinality db ex (qs.map qualSrc) op (some key) c ds l o ∧ RT.Stand s' k)
      (· = .fuel) := by
  obtain ⟨_, _, _, g2⟩ := cardRest_follow c ds l o k hk
  have gW : Follow (withKeyText op key ++ (whereText c ++ (groupText ds ++ (posText .LIMIT l ++ (posText .OFFSET o ++ k)))))
      [.EXACT, .CARDINALITY, .ON, .FROM, .COMMA] :=
    Follow.opt (kwText_withKey op key) (by decide +kernel) rfl (by decide) (g2.mono (by decide))
  have gF : Follow (fromQualsText qs ++ (withKeyText op key ++ (whereText c ++ (groupText ds ++ (posText .LIMIT l ++
      (posText .OFFSET o ++ k)))))) [.EXACT, .CARDINALITY, .ON] :=
    Follow.opt (kwText_fromQuals _) (by decide +kernel) rfl (by decide) (gW.mono (by decide))
  have g0 : Follow (onDbText db ++ (fromQualsText qs ++ (withKeyText op key ++ (whereText c ++ (groupText ds ++
      (posText .LIMIT l ++ (posText .OFFSET o ++ k))))))) [.EXACT, .CARDINALITY] :=
    Follow.opt (kwText_onDb _) (by decide +kernel) rfl (by decide) (gF.mono (by decide))
  -- the clauses after `[EXACT] CARDINALITY`, from a state before them
  have body : ∀ (s2 : PState), s2.Before (onDbText db ++ (fromQualsText qs ++ (withKeyText op key ++ (whereText c ++
      (groupText ds ++ (posText .LIMIT l ++ (posText .OFFSET o ++ k))))))) →
      wp (do
        let db ← parseOnDb
        let sources ← parseOptFrom
        let (op, key) ← parseTagKeyExpr
        let cond ← parseCondition fuel
        let dims ← parseDimensions fuel
        let limit ← parseOptTokInt .LIMIT
        let offset ← parseOptTokInt .OFFSET
        pure (Statement.showTagValuesCardinality db ex sources op (some key) cond dims limit offset)) s2
        (fun st s' => st = Statement.showTagValuesCardinality db ex (qs.map qualSrc) op (some key) c ds l o ∧
          RT.Stand s' k)
        (· = .fuel) := by
    intro s2 b2
    obtain ⟨s3, h3, st3⟩ := parseOnDb_stand s2 db _ hexdb (gF.mono (by decide)) b2.stand
    obtain ⟨s4, h4, st4⟩ := parseOptFrom_quals s3 qs _ hq (gW.mono (by decide)) st3
    obtain ⟨s5, h5, b5⟩ := parseTagKeyExpr_print s4 op key _ hkey g2.tokEnd.1 st4
    rw [wp_bind, wp_of_run_ok h3, wp_bind, wp_of_run_ok h4, wp_bind, wp_of_run_ok h5]
    dsimp only
    exact cardRest_print fuel s5 (fun c ds l o => .showTagValuesCardinality db ex (qs.map qualSrc) op (some key) c ds l o)
      c ds l o k hc hds hl ho hk b5.stand
  cases ex with
  | true =>
    have hs0 : s.Before ([' '] ++ (Token.EXACT.str ++ (' ' :: (Token.CARDINALITY.str ++ (onDbText db ++ (fromQualsText qs ++
        (withKeyText op key ++ (whereText c ++ (groupText ds ++ (posText .LIMIT l ++ (posText .OFFSET o ++ k)))))))))))
        := by
      simpa only [exactCardText, exactText, cardKeyText, if_true, List.append_assoc, List.cons_append, List.nil_append]
        using hs
    obtain ⟨lx, s1, h1, t1, _, b1⟩ := scanIW_piece s [' '] Token.EXACT.str _ .EXACT [] Gap.blank hs0.around
      (scansAs_kw .EXACT _ (by decide +kernel) (WordEnd.blank _))
    obtain ⟨s2, h2, b2⟩ := expectTok_piece s1 [' '] Token.CARDINALITY.str _ .CARDINALITY [] ["CARDINALITY"] Gap.blank
      b1.around (scansAs_kw .CARDINALITY _ (by decide +kernel) g0.tokEnd.1)
    simp only [runHandler, parseShowTagValues]
    rw [wp_bind, wp_of_run_ok h1]
    simp only [t1, if_true, parseShowTagValuesCardinality]
    rw [wp_bind, wp_of_run_ok h2]
    exact body s2 b2
  | false =>
    have hs0 : s.Before ([' '] ++ (Token.CARDINALITY.str ++ (onDbText db ++ (fromQualsText qs ++
        (withKeyText op key ++ (whereText c ++ (groupText ds ++ (posText .LIMIT l ++ (posText .OFFSET o ++ k)))))))))
        := by
      simpa only [exactCardText, exactText, cardKeyText, Bool.false_eq_true, if_false, List.append_assoc,
        List.cons_append, List.nil_append] using hs
    obtain ⟨lx, s1, h1, t1, _, b1⟩ := scanIW_piece s [' '] Token.CARDINALITY.str _ .CARDINALITY [] Gap.blank hs0.around
      (scansAs_kw .CARDINALITY _ (by decide +kernel) g0.tokEnd.1)
    simp only [runHandler, parseShowTagValues]
    rw [wp_bind, wp_of_run_ok h1]
    simp only [t1, reduceCtorEq, if_false, if_true, parseShowTagValuesCardinality, Bool.false_eq_true]
    exact body s1 b1

end cardinality

/-- Non-vacuity of the cardinality theorems. -/
def exCardText : Str := exactCardText true ++ cardText "my db".toList exQs exCond exDims 10 3
def exCardText2 : Str := exactCardText false ++ cardText [] [] none exDims 0 0
def exCardKeyText : Str := exactCardText true ++ cardKeyText [] [([], [], "cpu".toList)] .IN exKeyIn none exDims 5 0

example : exCardText = (" EXACT CARDINALITY ON \"my db\" FROM \"my db\"..cpu, rp.m, m WHERE host = 'a' AND (x > -1 OR y =~ /^b/) " ++
      "GROUP BY host, \"my tag\" LIMIT 10 OFFSET 3").toList ∧
    exCardText2 = " CARDINALITY GROUP BY host, \"my tag\"".toList ∧
    exCardKeyText = (" EXACT CARDINALITY FROM cpu WITH KEY IN (host, \"my tag\", \"select\") " ++
      "GROUP BY host, \"my tag\" LIMIT 5").toList := by decide +kernel

section
attribute [local irreducible] wp
example : wp (runHandler 200 .parseShowSeriesStatement) (PState.init exCardText [] [])
    (fun st s' => st = .showSeriesCardinality "my db".toList true (exQs.map qualSrc) exCond exDims 10 3 ∧
      RT.Stand s' [eofRune]) (· = .fuel) :=
  showSeriesCardinality_print_parse_partial "my db".toList exQs exCond exDims 10 3 [eofRune] true 200
    (PState.init exCardText [] []) (by decide +kernel) (by decide +kernel) (by decide +kernel) (by decide +kernel)
    (by decide) (by decide) (Follow.eof _ (by decide)) (init_before exCardText (by decide +kernel))

example : wp (runHandler 200 .parseShowMeasurementCardinalityStatement_false) (PState.init (cardText [] [] none exDims 0 0) [] [])
    (fun st s' => st = .showMeasurementCardinality false [] [] none exDims 0 0 ∧ RT.Stand s' [eofRune]) (· = .fuel) :=
  showMeasurementCardinality_print_parse_partial [] [] none exDims 0 0 [eofRune] false 200
    (PState.init (cardText [] [] none exDims 0 0) [] []) (by decide +kernel) (by decide +kernel) (by decide +kernel)
    (by decide +kernel) (by decide) (by decide) (Follow.eof _ (by decide))
    (init_before (cardText [] [] none exDims 0 0) (by decide +kernel))

example : wp (runHandler 200 .parseShowTagKeyCardinalityStatement) (PState.init exCardText2 [] [])
    (fun st s' => st = .showTagKeyCardinality [] false [] none exDims 0 0 ∧ RT.Stand s' [eofRune]) (· = .fuel) :=
  (showKeyCardinality_print_parse_partial [] [] none exDims 0 0 [eofRune] false 200
    (PState.init exCardText2 [] []) (by decide +kernel) (by decide +kernel) (by decide +kernel) (by decide +kernel)
    (by decide) (by decide) (Follow.eof _ (by decide)) (init_before exCardText2 (by decide +kernel))).1

example : wp (runHandler 200 .parseShowFieldKeyCardinalityStatement) (PState.init exCardText [] [])
    (fun st s' => st = .showFieldKeyCardinality "my db".toList true (exQs.map qualSrc) exCond exDims 10 3 ∧
      RT.Stand s' [eofRune]) (· = .fuel) :=
  (showKeyCardinality_print_parse_partial "my db".toList exQs exCond exDims 10 3 [eofRune] true 200
    (PState.init exCardText [] []) (by decide +kernel) (by decide +kernel) (by decide +kernel) (by decide +kernel)
    (by decide) (by decide) (Follow.eof _ (by decide)) (init_before exCardText (by decide +kernel))).2

example : wp (runHandler 200 .parseShowTagValuesStatement) (PState.init exCardKeyText [] [])
    (fun st s' => st = .showTagValuesCardinality [] true ([([], [], "cpu".toList)].map qualSrc) .IN (some exKeyIn) none exDims 5 0 ∧
      RT.Stand s' [eofRune]) (· = .fuel) :=
  showTagValuesCardinality_print_parse_partial [] [([], [], "cpu".toList)] none exDims 5 0 [eofRune] true 200
    (PState.init exCardKeyText [] []) .IN exKeyIn (by decide +kernel) (by decide +kernel) (by decide +kernel)
    (by decide +kernel) (by decide +kernel) (by decide) (by decide) (Follow.eof _ (by decide))
    (init_before exCardKeyText (by decide +kernel))
end

/-- … and the fuel suffices. -/
example : (match (runHandler 200 .parseShowSeriesStatement).run (PState.init exCardText [] []) with
    | .ok _ => true
    | .error _ => false) = true ∧
    (match (runHandler 200 .parseShowTagValuesStatement).run (PState.init exCardKeyText [] []) with
    | .ok _ => true
    | .error _ => false) = true := by decide +kernel

/-! ### the dispatch keywords of the families of this round -/

/-- The keyword paths of the families above (see `familyPaths`): what is printed before the handler's part,
the keywords, the handler they select. `SHOW MEASUREMENT` splits on the next keyword. -/
def adminShowPaths : List (Str × List Token × Handler) :=
  [(tx "CREATE DATABASE", [.CREATE, .DATABASE], .parseCreateDatabaseStatement),
   (tx "CREATE SUBSCRIPTION", [.CREATE, .SUBSCRIPTION], .parseCreateSubscriptionStatement),
   (tx "SHOW TAG VALUES", [.SHOW, .TAG, .VALUES], .parseShowTagValuesStatement),
   (tx "SHOW MEASUREMENTS", [.SHOW, .MEASUREMENTS], .parseShowMeasurementsStatement),
   (tx "SHOW SERIES", [.SHOW, .SERIES], .parseShowSeriesStatement),
   (tx "SHOW MEASUREMENT EXACT", [.SHOW, .MEASUREMENT, .EXACT], .parseShowMeasurementCardinalityStatement_true),
   (tx "SHOW MEASUREMENT CARDINALITY", [.SHOW, .MEASUREMENT, .CARDINALITY], .parseShowMeasurementCardinalityStatement_false),
   (tx "SHOW TAG KEYS", [.SHOW, .TAG, .KEYS], .parseShowTagKeysStatement),
   (tx "SHOW TAG KEY", [.SHOW, .TAG, .KEY], .parseShowTagKeyCardinalityStatement),
   (tx "SHOW FIELD KEY", [.SHOW, .FIELD, .KEY], .parseShowFieldKeyCardinalityStatement)]

/-- Obligation on the regenerated tables: every path above is printed as its keywords, consists of
keywords of the scanner's table, and selects its handler from the root of the dispatch tree. -/
theorem gen_adminShowPaths : ∀ p ∈ adminShowPaths,
    p.1 = kwText p.2.1 ∧ (∀ t ∈ p.2.1, t.isKw = true) ∧ dispatchPath 0 p.2.1 = some p.2.2 ∧
      p.2.1.length ≤ dispatch.length + 1 := by decide +kernel

/-- **End to end, an instance:** `ParseStatement` on the whole printed text of a CREATE SUBSCRIPTION
statement, followed by `k`, returns that statement and stays around `k`. -/
theorem createSubscription_statement_print_parse (fuel : Nat) (s : PState) (name db rp : Str) (mode : Token) (v : Str)
    (vs : List Str) (k : Str) (hex1 : Expressible name) (hex2 : Expressible db) (hex3 : Expressible rp)
    (hmode : mode = .ALL ∨ mode = .ANY) (hexv : ∀ x ∈ v :: vs, Expressible x) (hk : NextNot k .COMMA)
    (hs : s.Before ((Statement.createSubscription name db rp (v :: vs) mode.str).print ++ k)) :
    ∃ s', (parseStatement fuel).run s = .ok (.createSubscription name db rp (v :: vs) mode.str, s') ∧ s'.Around k := by
  rw [createSubscription_print] at hs
  obtain ⟨hpr, hkw, hpath, hlen⟩ := gen_adminShowPaths (tx "CREATE SUBSCRIPTION", [.CREATE, .SUBSCRIPTION],
    .parseCreateSubscriptionStatement) (by simp [adminShowPaths])
  simp only at hpr hkw hpath hlen
  rw [hpr, List.append_assoc] at hs
  obtain ⟨s1, h1, b1⟩ := parseStatement_print fuel _ _ s [] (createSubscriptionText name db rp mode v vs ++ k) hpath hkw
    hlen Gap.none (WordEnd.blank _) hs
  obtain ⟨s', h2, b2⟩ := createSubscription_print_parse fuel s1 name db rp mode v vs k hex1 hex2 hex3 hmode hexv hk b1
  exact ⟨s', by rw [h1]; exact h2, b2⟩

/-! ### SHOW TAG KEYS with `WITH KEY`, SLIMIT and SOFFSET -/

/-- ` WITH KEY <op> <key>` when there is a key. -/
def optKeyText (op : Token) : Option Expr → Str
  | none => []
  | some key => withKeyText op key

/-- `[ON db] [FROM qs] [WITH KEY …] [WHERE cond] [ORDER BY …] [LIMIT l] [OFFSET o] [SLIMIT sl] [SOFFSET so]`. -/
def showTagKeysText (db : Str) (qs : List (Str × Str × Str)) (op : Token) (key : Option Expr) (c : Option Expr) (sf : List SortField)
    (l o sl so : Int) : Str :=
  onDbText db ++ (fromQualsText qs ++ (optKeyText op key ++ (whereText c ++ (orderText sf ++ (posText .LIMIT l ++
    (posText .OFFSET o ++ (posText .SLIMIT sl ++ posText .SOFFSET so)))))))

theorem showTagKeys_withKey_print_partial (db : Str) (qs : List (Str × Str × Str)) (op : Token) (key : Option Expr) (c : Option Expr)
    (sf : List SortField) (l o sl so : Int) (hsf : sortOKB sf = true) :
    (Statement.showTagKeys db (qs.map qualSrc) op key c sf l o sl so).print =
      tx "SHOW TAG KEYS" ++ showTagKeysText db qs op key c sf l o sl so := by
  cases key with
  | none =>
    have p1 : (Statement.showTagKeys db (qs.map qualSrc) op none c sf l o sl so).print =
        tx "SHOW TAG KEYS" ++ clauseOn db ++ clauseFrom (qs.map qualSrc) ++ [] ++
        clauseWhere c ++ clauseOrderBy sf ++ clausePos "LIMIT" l ++ clausePos "OFFSET" o ++ clausePos "SLIMIT" sl ++
        clausePos "SOFFSET" so := rfl
    rw [p1, clauseFrom_quals qs, clauseWhere_eq, clauseOn_onDbText, (clausePos_eq l).1, (clausePos_eq o).2.1,
      (clausePos_eq sl).2.2.1, (clausePos_eq so).2.2.2, clauseOrderBy_eq sf hsf]
    simp only [showTagKeysText, optKeyText, List.append_assoc, List.append_nil, List.nil_append]
  | some k =>
    have p1 : (Statement.showTagKeys db (qs.map qualSrc) op (some k) c sf l o sl so).print =
        tx "SHOW TAG KEYS" ++ clauseOn db ++ clauseFrom (qs.map qualSrc) ++ printTagKey op k ++
        clauseWhere c ++ clauseOrderBy sf ++ clausePos "LIMIT" l ++ clausePos "OFFSET" o ++ clausePos "SLIMIT" sl ++
        clausePos "SOFFSET" so := rfl
    rw [p1, printTagKey_eq, clauseFrom_quals qs, clauseWhere_eq, clauseOn_onDbText, (clausePos_eq l).1,
      (clausePos_eq o).2.1, (clausePos_eq sl).2.2.1, (clausePos_eq so).2.2.2, clauseOrderBy_eq sf hsf]
    simp only [showTagKeysText, optKeyText, List.append_assoc, List.append_nil]

/-- The key clause of SHOW TAG KEYS: absent (the handler then returns the operator `ILLEGAL`), or as in
`tagKeyOKB`. -/
def optKeyOKB (op : Token) : Option Expr → Bool
  | none => op == .ILLEGAL
  | some key => tagKeyOKB op key

/-- **Print → parse, SHOW TAG KEYS** `[ON db] [FROM m1, …] [WITH KEY = k | != k | =~ /re/ | !~ /re/ | IN (k1, …)]
[WHERE cond] [ORDER BY [time] ASC|DESC] [LIMIT l] [OFFSET o] [SLIMIT sl] [SOFFSET so]` — `showTagKeys_print_parse_partial`
extended by the key clause, `ORDER BY` (`sortOKB`) and the series limits. Partial: sources as in `showTagValues_print_parse_partial` (`QualOK`), `Printable` condition. -/
theorem showTagKeys_withKey_print_parse_partial (fuel : Nat) (s : PState) (db : Str) (qs : List (Str × Str × Str)) (op : Token)
    (key : Option Expr) (c : Option Expr) (sf : List SortField) (l o sl so : Int) (k : Str)
    (hexdb : Expressible db) (hq : ∀ m ∈ qs, QualOK m) (hkey : optKeyOKB op key = true) (hc : CondOK c)
    (hsf : sortOKB sf = true)
    (hl : 0 ≤ l ∧ l ≤ maxInt64) (ho : 0 ≤ o ∧ o ≤ maxInt64) (hsl : 0 ≤ sl ∧ sl ≤ maxInt64)
    (hso : 0 ≤ so ∧ so ≤ maxInt64) (hk : Follow k showStop)
    (hs : s.Before (showTagKeysText db qs op key c sf l o sl so ++ k)) :
    wp (runHandler fuel .parseShowTagKeysStatement) s
      (fun st s' => st = .showTagKeys db (qs.map qualSrc) op key c sf l o sl so ∧ RT.Stand s' k) (· = .fuel) := by
  have g6 : Follow (posText .SOFFSET so ++ k) [.EXACT, .CARDINALITY, .ON, .FROM, .COMMA, .WITH, .WHERE, .ORDER, .LIMIT, .OFFSET,
      .SLIMIT] := Follow.opt (kwText_pos _ _) (by decide +kernel) rfl (by decide) (hk.mono (by decide))
  have g5 : Follow (posText .SLIMIT sl ++ (posText .SOFFSET so ++ k)) [.EXACT, .CARDINALITY, .ON, .FROM, .COMMA, .WITH, .WHERE,
      .ORDER, .LIMIT, .OFFSET] := Follow.opt (kwText_pos _ _) (by decide +kernel) rfl (by decide) (g6.mono (by decide))
  have g4 : Follow (posText .OFFSET o ++ (posText .SLIMIT sl ++ (posText .SOFFSET so ++ k))) [.EXACT, .CARDINALITY, .ON, .FROM,
      .COMMA, .WITH, .WHERE, .ORDER, .LIMIT] :=
    Follow.opt (kwText_pos _ _) (by decide +kernel) rfl (by decide) (g5.mono (by decide))
  have g3 : Follow (posText .LIMIT l ++ (posText .OFFSET o ++ (posText .SLIMIT sl ++ (posText .SOFFSET so ++ k))))
      [.EXACT, .CARDINALITY, .ON, .FROM, .COMMA, .WITH, .WHERE, .ORDER] :=
    Follow.opt (kwText_pos _ _) (by decide +kernel) rfl (by decide) (g4.mono (by decide))
  have gO : Follow (orderText sf ++ (posText .LIMIT l ++ (posText .OFFSET o ++ (posText .SLIMIT sl ++ (posText .SOFFSET so ++ k)))))
      [.EXACT, .CARDINALITY, .ON, .FROM, .COMMA, .WITH, .WHERE] :=
    Follow.opt (kwText_order _) (by decide +kernel) rfl (by decide) (g3.mono (by decide))
  have g2 : Follow (whereText c ++ (orderText sf ++ (posText .LIMIT l ++ (posText .OFFSET o ++ (posText .SLIMIT sl ++
      (posText .SOFFSET so ++ k)))))) [.EXACT, .CARDINALITY, .ON, .FROM, .COMMA, .WITH] :=
    Follow.opt (kwText_where _) (by decide +kernel) rfl (by decide) (gO.mono (by decide))
  have gW : Follow (optKeyText op key ++ (whereText c ++ (orderText sf ++ (posText .LIMIT l ++ (posText .OFFSET o ++
      (posText .SLIMIT sl ++ (posText .SOFFSET so ++ k))))))) [.EXACT, .CARDINALITY, .ON, .FROM, .COMMA] := by
    cases key with
    | none => exact g2.mono (by decide)
    | some key => exact Follow.opt (kwText_withKey op key) (by decide +kernel) rfl (by decide) (g2.mono (by decide))
  have gF : Follow (fromQualsText qs ++ (optKeyText op key ++ (whereText c ++ (orderText sf ++ (posText .LIMIT l ++
      (posText .OFFSET o ++ (posText .SLIMIT sl ++ (posText .SOFFSET so ++ k)))))))) [.EXACT, .CARDINALITY, .ON] :=
    Follow.opt (kwText_fromQuals _) (by decide +kernel) rfl (by decide) (gW.mono (by decide))
  have hs0 : RT.Stand s (onDbText db ++ (fromQualsText qs ++ (optKeyText op key ++ (whereText c ++ (orderText sf ++
      (posText .LIMIT l ++ (posText .OFFSET o ++ (posText .SLIMIT sl ++ (posText .SOFFSET so ++ k))))))))) := by
    have := hs.stand
    simpa only [showTagKeysText, List.append_assoc] using this
  obtain ⟨s3, h3, st3⟩ := parseOnDb_stand s db _ hexdb (gF.mono (by decide)) hs0
  obtain ⟨s4, h4, st4⟩ := parseOptFrom_quals s3 qs _ hq (gW.mono (by decide)) st3
  -- the common tail
  have tail : ∀ s6 : PState, RT.Stand s6 (whereText c ++ (orderText sf ++ (posText .LIMIT l ++ (posText .OFFSET o ++
      (posText .SLIMIT sl ++ (posText .SOFFSET so ++ k)))))) →
      wp (do
        let cond ← parseCondition fuel
        let sort ← parseOrderBy
        let limit ← parseOptTokInt .LIMIT
        let offset ← parseOptTokInt .OFFSET
        let slimit ← parseOptTokInt .SLIMIT
        let soffset ← parseOptTokInt .SOFFSET
        pure (Statement.showTagKeys db (qs.map qualSrc) op key cond sort limit offset slimit soffset)) s6
        (fun st s' => st = Statement.showTagKeys db (qs.map qualSrc) op key c sf l o sl so ∧ RT.Stand s' k)
        (· = .fuel) := by
    intro s6 st6
    rw [wp_bind]
    refine wp_mono (parseCondition_print fuel s6 c _ hc (gO.mono (by decide)) st6) ?_ (fun _ h => h)
    intro c' s7 ⟨hc', st7⟩
    subst hc'
    obtain ⟨s8, h8, st8⟩ := parseOrderBy_print s7 sf _ hsf (g3.mono (by decide)) st7
    obtain ⟨s9, h9, st9⟩ := parseOptTokInt_print .LIMIT (by decide +kernel) s8 l _ hl.1 hl.2 (g4.mono (by decide)) st8
    obtain ⟨s10, h10, st10⟩ := parseOptTokInt_print .OFFSET (by decide +kernel) s9 o _ ho.1 ho.2 (g5.mono (by decide)) st9
    obtain ⟨s11, h11, st11⟩ := parseOptTokInt_print .SLIMIT (by decide +kernel) s10 sl _ hsl.1 hsl.2 (g6.mono (by decide))
      st10
    obtain ⟨s12, h12, st12⟩ := parseOptTokInt_print .SOFFSET (by decide +kernel) s11 so k hso.1 hso.2 (hk.mono (by decide))
      st11
    rw [wp_bind, wp_of_run_ok h8, wp_bind, wp_of_run_ok h9, wp_bind, wp_of_run_ok h10, wp_bind, wp_of_run_ok h11,
      wp_bind, wp_of_run_ok h12, wp_pure]
    exact ⟨rfl, st12⟩
  simp only [runHandler, parseShowTagKeys]
  rw [wp_bind, wp_of_run_ok h3, wp_bind, wp_of_run_ok h4]
  cases key with
  | none =>
    have hop : op = .ILLEGAL := by simpa [optKeyOKB] using hkey
    subst hop
    obtain ⟨lx, s5, h5, t5, st5⟩ := peek_stand s4 _ _ .WITH g2 (by decide)
      (by simpa only [optKeyText, List.nil_append] using st4)
    rw [wp_bind, wp_of_run_ok h5, wp_bind, unscan_wp]
    simp only [t5, if_false, pure_bind]
    exact tail (unsc s5) st5
  | some key =>
    have hst : RT.Starts (withKeyText op key ++ (whereText c ++ (orderText sf ++ (posText .LIMIT l ++ (posText .OFFSET o ++
        (posText .SLIMIT sl ++ (posText .SOFFSET so ++ k))))))) .WITH := by
      have := starts_kw .WITH (' ' :: (Token.KEY.str ++ ' ' :: (op.str ++ ' ' :: (tagKeyValText key ++ (whereText c ++
        (orderText sf ++ (posText .LIMIT l ++ (posText .OFFSET o ++ (posText .SLIMIT sl ++ (posText .SOFFSET so ++ k))))))))))
        (by decide +kernel) (WordEnd.blank _)
      simpa only [withKeyText, List.append_assoc, List.cons_append] using this
    obtain ⟨lx, s5, h5, t5, st5, _⟩ := RT.scanIW_starts s4 _ .WITH st4 hst
    obtain ⟨s6, h6, b6⟩ := parseTagKeyExpr_print (unsc s5) op key _ hkey g2.tokEnd.1 st5
    rw [wp_bind, wp_of_run_ok h5, wp_bind, unscan_wp]
    simp only [t5, if_true]
    rw [wp_bind, wp_bind, wp_of_run_ok h6]
    dsimp only
    rw [wp_pure]
    exact tail s6 b6.stand

/-- Non-vacuity: `SHOW TAG KEYS ON "my db" FROM cpu, "my m" WITH KEY =~ /^h/ WHERE … LIMIT 10 OFFSET 3 SLIMIT 2 SOFFSET 1`. -/
def exTagKeysText : Str := showTagKeysText "my db".toList exQs .EQREGEX (some (.regex "^h".toList)) exCond [⟨[], false⟩] 10 3 2 1

example : exTagKeysText = (" ON \"my db\" FROM \"my db\"..cpu, rp.m, m WITH KEY =~ /^h/ WHERE host = 'a' AND (x > -1 OR y =~ /^b/) " ++
    "ORDER BY DESC LIMIT 10 OFFSET 3 SLIMIT 2 SOFFSET 1").toList := by decide +kernel

section
attribute [local irreducible] wp
example : wp (runHandler 200 .parseShowTagKeysStatement) (PState.init exTagKeysText [] [])
    (fun st s' => st = .showTagKeys "my db".toList (exQs.map qualSrc) .EQREGEX (some (.regex "^h".toList)) exCond
      [⟨[], false⟩] 10 3 2 1 ∧ RT.Stand s' [eofRune]) (· = .fuel) :=
  showTagKeys_withKey_print_parse_partial 200 (PState.init exTagKeysText [] []) "my db".toList exQs .EQREGEX
    (some (.regex "^h".toList)) exCond [⟨[], false⟩] 10 3 2 1 [eofRune] (by decide +kernel) (by decide +kernel)
    (by decide +kernel) (by decide +kernel) (by decide +kernel) (by decide) (by decide) (by decide) (by decide)
    (Follow.eof _ (by decide))
    (init_before exTagKeysText (by decide +kernel))
end

example : (match (runHandler 200 .parseShowTagKeysStatement).run (PState.init exTagKeysText [] []) with
    | .ok _ => true
    | .error _ => false) = true := by decide +kernel

/-! ### end to end: `ParseStatement` on the whole printed statement

The family theorems above start after the dispatch keywords. With `parseStatement_print` and the
obligation `gen_adminShowPaths` they give the property in its own terms: `ParseStatement` on
`stmt.String()` followed by `k` returns `stmt` and stops at `k`. -/

/-- From the handler's theorem to `ParseStatement` (families with the fuel alternative). -/
theorem statement_of_handler {Q : Statement → PState → Prop} {E : Fail → Prop} (fuel : Nat) (p : Str × List Token × Handler)
    (hp : p ∈ adminShowPaths) (s : PState) (rest : Str) (hw : WordEnd rest) (hs : s.Before (p.1 ++ rest))
    (H : ∀ s1 : PState, s1.Before rest → wp (runHandler fuel p.2.2) s1 Q E) :
    wp (parseStatement fuel) s Q E := by
  obtain ⟨hpr, hkw, hpath, hlen⟩ := gen_adminShowPaths p hp
  rw [hpr] at hs
  obtain ⟨s1, h1, b1⟩ := parseStatement_print fuel _ _ s [] rest hpath hkw hlen Gap.none hw hs
  have := H s1 b1
  unfold wp at this ⊢
  rw [h1]
  exact this

theorem wordEnd_opt {x k : Str} (hx : OptText x) (hk : WordEnd k) : WordEnd (x ++ k) := by
  rcases hx with rfl | ⟨y, rfl⟩
  · exact hk
  · exact WordEnd.blank _

/-- **C02 for CREATE DATABASE … WITH** (partial as `createDatabase_with_print_parse_partial`). -/
theorem createDatabase_with_statement_print_parse_partial (fuel : Nat) (s : PState) (name : Str) (d : Option Int)
    (n : Option Nat) (sh : Int) (fu pa : Option Int) (rp k : Str)
    (hex1 : Expressible name) (hex2 : Expressible rp) (hd : DurOK d)
    (hn : ∀ v, n = some v → 1 ≤ v ∧ (v : Int) ≤ maxInt32) (hsh : 0 ≤ sh ∧ sh ≤ maxInt64) (hfu : DurOK fu) (hpa : DurOK pa)
    (hfz : fu ≠ some 0) (hpz : pa ≠ some 0)
    (hany : d.isSome ∨ n.isSome ∨ sh > 0 ∨ fu.isSome ∨ pa.isSome ∨ rp ≠ []) (hk : TokEnd k) (hke : IdentEnd rp k)
    (hstop : ∀ t ∈ cdbKws, NextNot k t)
    (hs : s.Before ((Statement.createDatabase name true d (n.map Int.ofNat) rp sh fu pa).print ++ k)) :
    ∃ s', (parseStatement fuel).run s = .ok (.createDatabase name true d (n.map Int.ofNat) rp sh fu pa, s') ∧
      s'.Around k := by
  rw [createDatabase_with_print, List.append_assoc] at hs
  obtain ⟨hpr, hkw, hpath, hlen⟩ := gen_adminShowPaths (tx "CREATE DATABASE", [.CREATE, .DATABASE],
    .parseCreateDatabaseStatement) (by simp [adminShowPaths])
  simp only at hpr hkw hpath hlen
  rw [hpr] at hs
  obtain ⟨s1, h1, b1⟩ := parseStatement_print fuel _ _ s [] (cdbText name d n sh fu pa rp ++ k) hpath hkw hlen Gap.none
    (WordEnd.blank _) hs
  obtain ⟨s', h2, b2⟩ := createDatabase_with_print_parse_partial fuel s1 name d n sh fu pa rp k hex1 hex2 hd hn hsh hfu hpa
    hfz hpz hany hk hke hstop b1
  exact ⟨s', by rw [h1]; exact h2, b2⟩

/-- **C02 for SHOW TAG VALUES** (partial as `showTagValues_print_parse_partial`). -/
theorem showTagValues_statement_print_parse_partial (fuel : Nat) (s : PState) (db : Str) (qs : List (Str × Str × Str)) (op : Token)
    (key : Expr) (c : Option Expr) (sf : List SortField) (l o : Int) (k : Str)
    (hexdb : Expressible db) (hq : ∀ m ∈ qs, QualOK m)
    (hkey : tagKeyOKB op key = true) (hc : CondOK c) (hsf : sortOKB sf = true)
    (hl : 0 ≤ l ∧ l ≤ maxInt64) (ho : 0 ≤ o ∧ o ≤ maxInt64) (hk : Follow k showStop)
    (hs : s.Before ((Statement.showTagValues db (qs.map qualSrc) op (some key) c sf l o).print ++ k)) :
    wp (parseStatement fuel) s
      (fun st s' => st = .showTagValues db (qs.map qualSrc) op (some key) c sf l o ∧ RT.Stand s' k) (· = .fuel) := by
  rw [showTagValues_print_partial db qs op key c sf l o hsf, List.append_assoc] at hs
  refine statement_of_handler fuel (tx "SHOW TAG VALUES", [.SHOW, .TAG, .VALUES], .parseShowTagValuesStatement)
    (by simp [adminShowPaths]) s _ ?_ hs
    (fun s1 b1 => showTagValues_print_parse_partial fuel s1 db qs op key c sf l o k hexdb hq hkey hc hsf hl ho hk b1)
  exact wordEnd_opt (OptText.append (kwText_onDb db).optText (OptText.append (kwText_fromQuals qs).optText
    (Or.inr ⟨_, rfl⟩))) hk.tokEnd.1

/-- **C02 for SHOW TAG KEYS** (partial as `showTagKeys_withKey_print_parse_partial`). -/
theorem showTagKeys_statement_print_parse_partial (fuel : Nat) (s : PState) (db : Str) (qs : List (Str × Str × Str)) (op : Token)
    (key : Option Expr) (c : Option Expr) (sf : List SortField) (l o sl so : Int) (k : Str)
    (hexdb : Expressible db) (hq : ∀ m ∈ qs, QualOK m)
    (hkey : optKeyOKB op key = true) (hc : CondOK c) (hsf : sortOKB sf = true)
    (hl : 0 ≤ l ∧ l ≤ maxInt64) (ho : 0 ≤ o ∧ o ≤ maxInt64) (hsl : 0 ≤ sl ∧ sl ≤ maxInt64)
    (hso : 0 ≤ so ∧ so ≤ maxInt64) (hk : Follow k showStop)
    (hs : s.Before ((Statement.showTagKeys db (qs.map qualSrc) op key c sf l o sl so).print ++ k)) :
    wp (parseStatement fuel) s
      (fun st s' => st = .showTagKeys db (qs.map qualSrc) op key c sf l o sl so ∧ RT.Stand s' k) (· = .fuel) := by
  rw [showTagKeys_withKey_print_partial db qs op key c sf l o sl so hsf, List.append_assoc] at hs
  refine statement_of_handler fuel (tx "SHOW TAG KEYS", [.SHOW, .TAG, .KEYS], .parseShowTagKeysStatement)
    (by simp [adminShowPaths]) s _ ?_ hs
    (fun s1 b1 => showTagKeys_withKey_print_parse_partial fuel s1 db qs op key c sf l o sl so k hexdb hq hkey hc hsf hl ho
      hsl hso hk b1)
  have hkey' : OptText (optKeyText op key) := by
    cases key with
    | none => exact Or.inl rfl
    | some key => exact Or.inr ⟨_, rfl⟩
  exact wordEnd_opt (OptText.append (kwText_onDb db).optText (OptText.append (kwText_fromQuals qs).optText
    (OptText.append hkey' (OptText.append (kwText_where c).optText (OptText.append (kwText_order sf).optText
    (OptText.append (kwText_pos _ l).optText (OptText.append (kwText_pos _ o).optText
    (OptText.append (kwText_pos _ sl).optText (kwText_pos _ so).optText)))))))) hk.tokEnd.1

/-- **C02 for SHOW MEASUREMENTS** (partial as `showMeasurements_full_print_parse_partial`). -/
theorem showMeasurements_statement_print_parse_partial (fuel : Nat) (s : PState) (db rp : Str) (wdb wrp : Bool)
    (m : MeasSpec) (c : Option Expr) (sf : List SortField) (l o : Int) (k : Str)
    (hex1 : Expressible db) (hex2 : Expressible rp) (hon : OnMeasOK db rp wdb wrp) (hm : m.okB = true)
    (hmn : ∀ n, m = .name n → n ≠ []) (hc : CondOK c) (hsf : sortOKB sf = true)
    (hl : 0 ≤ l ∧ l ≤ maxInt64) (ho : 0 ≤ o ∧ o ≤ maxInt64) (hk : Follow k showMeasStop)
    (hs : s.Before ((Statement.showMeasurements db rp wdb wrp m.source c sf l o).print ++ k)) :
    wp (parseStatement fuel) s
      (fun st s' => st = .showMeasurements db rp wdb wrp m.source c sf l o ∧ RT.Stand s' k) (· = .fuel) := by
  rw [showMeasurements_full_print_partial db rp wdb wrp m c sf l o hmn hsf, List.append_assoc] at hs
  refine statement_of_handler fuel (tx "SHOW MEASUREMENTS", [.SHOW, .MEASUREMENTS], .parseShowMeasurementsStatement)
    (by simp [adminShowPaths]) s _ ?_ hs
    (fun s1 b1 => showMeasurements_full_print_parse_partial fuel s1 db rp wdb wrp m c sf l o k hex1 hex2 hon hm hc hsf hl ho
      hk b1)
  exact wordEnd_opt (OptText.append (kwText_onMeas db rp wdb wrp).optText (OptText.append (kwText_withMeas m).optText
    (OptText.append (kwText_where c).optText (OptText.append (kwText_order sf).optText
    (OptText.append (kwText_pos _ l).optText (kwText_pos _ o).optText))))) hk.tokEnd.1

/-- **C02 for the five cardinality statements** (partial as the family theorems). -/
theorem cardinality_statement_print_parse_partial (fuel : Nat) (s : PState) (db : Str) (ex : Bool) (qs : List (Str × Str × Str))
    (op : Token) (key : Expr) (c : Option Expr) (ds : List Expr) (l o : Int) (k : Str)
    (hexdb : Expressible db) (hq : ∀ m ∈ qs, QualOK m)
    (hkey : tagKeyOKB op key = true) (hc : CondOK c) (hds : ∀ x ∈ ds, RT.rtOK false x = true)
    (hl : 0 ≤ l ∧ l ≤ maxInt64) (ho : 0 ≤ o ∧ o ≤ maxInt64) (hk : Follow k cardStop) :
    (s.Before ((Statement.showSeriesCardinality db ex (qs.map qualSrc) c ds l o).print ++ k) →
      wp (parseStatement fuel) s
        (fun st s' => st = .showSeriesCardinality db ex (qs.map qualSrc) c ds l o ∧ RT.Stand s' k) (· = .fuel)) ∧
    (s.Before ((Statement.showMeasurementCardinality ex db (qs.map qualSrc) c ds l o).print ++ k) →
      wp (parseStatement fuel) s
        (fun st s' => st = .showMeasurementCardinality ex db (qs.map qualSrc) c ds l o ∧ RT.Stand s' k) (· = .fuel)) ∧
    (s.Before ((Statement.showTagKeyCardinality db ex (qs.map qualSrc) c ds l o).print ++ k) →
      wp (parseStatement fuel) s
        (fun st s' => st = .showTagKeyCardinality db ex (qs.map qualSrc) c ds l o ∧ RT.Stand s' k) (· = .fuel)) ∧
    (s.Before ((Statement.showFieldKeyCardinality db ex (qs.map qualSrc) c ds l o).print ++ k) →
      wp (parseStatement fuel) s
        (fun st s' => st = .showFieldKeyCardinality db ex (qs.map qualSrc) c ds l o ∧ RT.Stand s' k) (· = .fuel)) ∧
    (s.Before ((Statement.showTagValuesCardinality db ex (qs.map qualSrc) op (some key) c ds l o).print ++ k) →
      wp (parseStatement fuel) s
        (fun st s' => st = .showTagValuesCardinality db ex (qs.map qualSrc) op (some key) c ds l o ∧ RT.Stand s' k)
        (· = .fuel)) := by
  obtain ⟨p1, p2, p3, p4, p5⟩ := cardinality_print_partial db ex qs op key c ds l o
  have hw : ∀ x : Str, WordEnd (exactCardText ex ++ x ++ k) := by
    intro x
    cases ex with
    | true => exact WordEnd.blank _
    | false => exact WordEnd.blank _
  refine ⟨?_, ?_, ?_, ?_, ?_⟩
  · intro hs
    rw [p1, List.append_assoc] at hs
    exact statement_of_handler fuel (tx "SHOW SERIES", [.SHOW, .SERIES], .parseShowSeriesStatement)
      (by simp [adminShowPaths]) s _ (hw _) hs
      (fun s1 b1 => showSeriesCardinality_print_parse_partial db qs c ds l o k ex fuel s1 hexdb hq hc hds hl ho hk b1)
  · intro hs
    rw [p2] at hs
    cases ex with
    | true =>
      have e : tx "SHOW MEASUREMENT" ++ (exactCardText true ++ cardText db qs c ds l o) ++ k =
          tx "SHOW MEASUREMENT EXACT" ++ ((' ' :: Token.CARDINALITY.str) ++ cardText db qs c ds l o ++ k) := by
        have e1 : tx "SHOW MEASUREMENT" ++ exactCardText true = tx "SHOW MEASUREMENT EXACT" ++ (' ' :: Token.CARDINALITY.str) := by
          decide +kernel
        rw [← List.append_assoc (tx "SHOW MEASUREMENT"), e1]
        simp only [List.append_assoc]
      rw [e] at hs
      exact statement_of_handler fuel (tx "SHOW MEASUREMENT EXACT", [.SHOW, .MEASUREMENT, .EXACT],
        .parseShowMeasurementCardinalityStatement_true) (by simp [adminShowPaths]) s
        ((' ' :: Token.CARDINALITY.str) ++ cardText db qs c ds l o ++ k) (WordEnd.blank _) hs
        (fun s1 b1 => showMeasurementCardinality_print_parse_partial db qs c ds l o k true fuel s1 hexdb hq hc hds hl ho hk
          (by simpa only [if_true] using b1))
    | false =>
      have e : tx "SHOW MEASUREMENT" ++ (exactCardText false ++ cardText db qs c ds l o) ++ k =
          tx "SHOW MEASUREMENT CARDINALITY" ++ (cardText db qs c ds l o ++ k) := by
        have e1 : tx "SHOW MEASUREMENT" ++ exactCardText false = tx "SHOW MEASUREMENT CARDINALITY" := by decide +kernel
        rw [← List.append_assoc (tx "SHOW MEASUREMENT"), e1]
        simp only [List.append_assoc]
      rw [e] at hs
      have hwc : WordEnd (cardText db qs c ds l o ++ k) :=
        wordEnd_opt (OptText.append (kwText_onDb db).optText (OptText.append (kwText_fromQuals qs).optText
          (OptText.append (kwText_where c).optText (OptText.append (kwText_group ds).optText
          (OptText.append (kwText_pos _ l).optText (kwText_pos _ o).optText))))) hk.tokEnd.1
      exact statement_of_handler fuel (tx "SHOW MEASUREMENT CARDINALITY", [.SHOW, .MEASUREMENT, .CARDINALITY],
        .parseShowMeasurementCardinalityStatement_false) (by simp [adminShowPaths]) s _ hwc hs
        (fun s1 b1 => showMeasurementCardinality_print_parse_partial db qs c ds l o k false fuel s1 hexdb hq hc hds hl ho hk
          (by simpa only [Bool.false_eq_true, if_false, List.nil_append] using b1))
  · intro hs
    rw [p3, List.append_assoc] at hs
    exact statement_of_handler fuel (tx "SHOW TAG KEY", [.SHOW, .TAG, .KEY], .parseShowTagKeyCardinalityStatement)
      (by simp [adminShowPaths]) s _ (hw _) hs
      (fun s1 b1 => (showKeyCardinality_print_parse_partial db qs c ds l o k ex fuel s1 hexdb hq hc hds hl ho hk b1).1)
  · intro hs
    rw [p4, List.append_assoc] at hs
    exact statement_of_handler fuel (tx "SHOW FIELD KEY", [.SHOW, .FIELD, .KEY], .parseShowFieldKeyCardinalityStatement)
      (by simp [adminShowPaths]) s _ (hw _) hs
      (fun s1 b1 => (showKeyCardinality_print_parse_partial db qs c ds l o k ex fuel s1 hexdb hq hc hds hl ho hk b1).2)
  · intro hs
    rw [p5, List.append_assoc] at hs
    exact statement_of_handler fuel (tx "SHOW TAG VALUES", [.SHOW, .TAG, .VALUES], .parseShowTagValuesStatement)
      (by simp [adminShowPaths]) s _ (hw _) hs
      (fun s1 b1 => showTagValuesCardinality_print_parse_partial db qs c ds l o k ex fuel s1 op key hexdb hq hkey hc hds hl
        ho hk b1)

/-- Non-vacuity, end to end: `ParseStatement` on the printed statements themselves. -/
def exTagValuesStmt : Statement :=
  .showTagValues "my db".toList (exQs.map qualSrc) .IN (some exKeyIn) exCond exSort 10 3
def exCardStmt : Statement :=
  .showMeasurementCardinality true "my db".toList (exQs.map qualSrc) exCond exDims 10 3

example : exTagValuesStmt.print = ("SHOW TAG VALUES ON \"my db\" FROM \"my db\"..cpu, rp.m, m WITH KEY IN (host, \"my tag\", \"select\") " ++
      "WHERE host = 'a' AND (x > -1 OR y =~ /^b/) ORDER BY time DESC LIMIT 10 OFFSET 3").toList ∧
    exCardStmt.print = ("SHOW MEASUREMENT EXACT CARDINALITY ON \"my db\" FROM \"my db\"..cpu, rp.m, m " ++
      "WHERE host = 'a' AND (x > -1 OR y =~ /^b/) GROUP BY host, \"my tag\" LIMIT 10 OFFSET 3").toList := by
  decide +kernel

section
attribute [local irreducible] wp
example : wp (parseStatement 200) (PState.init exTagValuesStmt.print [] [])
    (fun st s' => st = exTagValuesStmt ∧ RT.Stand s' [eofRune]) (· = .fuel) :=
  showTagValues_statement_print_parse_partial 200 (PState.init exTagValuesStmt.print [] []) "my db".toList exQs .IN exKeyIn
    exCond exSort 10 3 [eofRune] (by decide +kernel) (by decide +kernel) (by decide +kernel) (by decide +kernel)
    (by decide +kernel) (by decide) (by decide) (Follow.eof _ (by decide))
    (init_before exTagValuesStmt.print (by decide +kernel))

example : wp (parseStatement 200) (PState.init exCardStmt.print [] [])
    (fun st s' => st = exCardStmt ∧ RT.Stand s' [eofRune]) (· = .fuel) :=
  (cardinality_statement_print_parse_partial 200 (PState.init exCardStmt.print [] []) "my db".toList true exQs .EQ
    (.string ['k']) exCond exDims 10 3 [eofRune] (by decide +kernel) (by decide +kernel) (by decide +kernel)
    (by decide +kernel) (by decide +kernel) (by decide) (by decide) (Follow.eof _ (by decide))).2.1
    (init_before exCardStmt.print (by decide +kernel))
end

example : (match (parseStatement 200).run (PState.init exTagValuesStmt.print [] []) with
    | .ok _ => true
    | .error _ => false) = true := by decide +kernel

/-! ### the same families with conditions of the wide class

`Printable` excludes calls, number and duration literals in conditions (`time > now() - 1h`). C03's wide class
(`RT.wOK tbl`, `CondOKW`) covers them; it depends on the lower-casing table of the parser state *at the WHERE
clause*. The clause parsers before it do not change the table (`tot_frame`: C04's totality contracts), given
the ring invariant at the start (`Fr s`, true of `PState.init`: `Fr.init`). -/

/-- `showTagValues_print_parse_partial` with a condition of the wide class. -/
theorem showTagValues_print_parse_wide_partial (fuel : Nat) (s : PState) (db : Str) (qs : List (Str × Str × Str)) (op : Token)
    (key : Expr) (c : Option Expr) (sf : List SortField) (l o : Int) (k : Str)
    (hexdb : Expressible db) (hq : ∀ m ∈ qs, QualOK m) (hkey : tagKeyOKB op key = true)
    (hg : Fr s) (hc : CondOKW s.lowerTbl c)
    (hsf : sortOKB sf = true)
    (hl : 0 ≤ l ∧ l ≤ maxInt64) (ho : 0 ≤ o ∧ o ≤ maxInt64) (hk : Follow k showStop)
    (hs : s.Before (showTagValuesText db qs op key c sf l o ++ k)) :
    wp (runHandler fuel .parseShowTagValuesStatement) s
      (fun st s' => st = .showTagValues db (qs.map qualSrc) op (some key) c sf l o ∧ RT.Stand s' k) (· = .fuel) := by
  obtain ⟨g4, g3, gO, g2⟩ := showOrder_follow c sf l o k hk
  have gW : Follow (withKeyText op key ++ (whereText c ++ (orderText sf ++ (posText .LIMIT l ++ (posText .OFFSET o ++ k)))))
      [.EXACT, .CARDINALITY, .ON, .FROM, .COMMA] :=
    Follow.opt (kwText_withKey op key) (by decide +kernel) rfl (by decide) (g2.mono (by decide))
  have gF : Follow (fromQualsText qs ++ (withKeyText op key ++ (whereText c ++ (orderText sf ++ (posText .LIMIT l ++ (posText .OFFSET o ++ k))))))
      [.EXACT, .CARDINALITY, .ON] :=
    Follow.opt (kwText_fromQuals _) (by decide +kernel) rfl (by decide) (gW.mono (by decide))
  have g0 : Follow (onDbText db ++ (fromQualsText qs ++ (withKeyText op key ++ (whereText c ++ (orderText sf ++ (posText .LIMIT l ++
      (posText .OFFSET o ++ k))))))) [.EXACT, .CARDINALITY] :=
    Follow.opt (kwText_onDb _) (by decide +kernel) rfl (by decide) (gF.mono (by decide))
  have hs0 : RT.Stand s (onDbText db ++ (fromQualsText qs ++ (withKeyText op key ++ (whereText c ++ (orderText sf ++ (posText .LIMIT l ++
      (posText .OFFSET o ++ k))))))) := by
    have := hs.stand
    simpa only [showTagValuesText, List.append_assoc] using this
  obtain ⟨_, T, hT, _, hnot⟩ := g0
  obtain ⟨lx, s1, h1, t1, st1, _⟩ := RT.scanIW_starts s _ T hs0 hT
  have hne1 : ¬ lx.tok = .EXACT := by rw [t1]; intro e; exact hnot (by rw [e]; simp)
  have hne2 : ¬ lx.tok = .CARDINALITY := by rw [t1]; intro e; exact hnot (by rw [e]; simp)
  obtain ⟨f1, m1⟩ := peek_frame .EXACT h1 hne1 hg
  obtain ⟨s3, h3, st3⟩ := parseOnDb_stand (unsc s1) db _ hexdb (gF.mono (by decide)) st1
  obtain ⟨f3, m3⟩ := tot_frame (fun _ => parseOnDb_tot) h3 f1
  obtain ⟨s4, h4, st4⟩ := parseOptFrom_quals s3 qs _ hq (gW.mono (by decide)) st3
  obtain ⟨f4, m4⟩ := tot_frame (fun _ => parseOptFrom_tot) h4 f3
  obtain ⟨s5, h5, b5⟩ := parseTagKeyExpr_print s4 op key _ hkey g2.tokEnd.1 st4
  obtain ⟨_, m5⟩ := tot_frame (fun _ => parseTagKeyExpr_tot) h5 f4
  have hc5 : CondOKW s5.lowerTbl c := by rw [(((m1.trans m3).trans m4).trans m5).2]; exact hc
  simp only [runHandler, parseShowTagValues]
  rw [wp_bind, wp_of_run_ok h1]
  simp only [hne1, hne2, if_false]
  rw [wp_bind, unscan_wp, wp_bind, wp_of_run_ok h3, wp_bind, wp_of_run_ok h4, wp_bind, wp_of_run_ok h5]
  dsimp only
  rw [wp_bind]
  refine wp_mono (parseCondition_printW fuel s5 c _ hc5 (gO.mono (by decide)) b5.stand) ?_ (fun _ h => h)
  intro c' s6 ⟨hc', st6, _⟩
  subst hc'
  obtain ⟨s7, h7, st7⟩ := parseOrderBy_print s6 sf _ hsf (g3.mono (by decide)) st6
  obtain ⟨s8, h8, st8⟩ := parseOptTokInt_print .LIMIT (by decide +kernel) s7 l _ hl.1 hl.2 (g4.mono (by decide)) st7
  obtain ⟨s9, h9, st9⟩ := parseOptTokInt_print .OFFSET (by decide +kernel) s8 o k ho.1 ho.2 (hk.mono (by decide)) st8
  rw [wp_bind, wp_of_run_ok h7, wp_bind, wp_of_run_ok h8, wp_bind, wp_of_run_ok h9, wp_pure]
  exact ⟨rfl, st9⟩

/-- `showMeasurements_full_print_parse_partial` with a condition of the wide class. -/
theorem showMeasurements_full_print_parse_wide_partial (fuel : Nat) (s : PState) (db rp : Str) (wdb wrp : Bool) (m : MeasSpec)
    (c : Option Expr) (sf : List SortField) (l o : Int) (k : Str)
    (hex1 : Expressible db) (hex2 : Expressible rp) (hon : OnMeasOK db rp wdb wrp) (hm : m.okB = true)
    (hg : Fr s) (hc : CondOKW s.lowerTbl c)
    (hsf : sortOKB sf = true)
    (hl : 0 ≤ l ∧ l ≤ maxInt64) (ho : 0 ≤ o ∧ o ≤ maxInt64) (hk : Follow k showMeasStop)
    (hs : s.Before (showMeasText db rp wdb wrp m c sf l o ++ k)) :
    wp (runHandler fuel .parseShowMeasurementsStatement) s
      (fun st s' => st = .showMeasurements db rp wdb wrp m.source c sf l o ∧ RT.Stand s' k) (· = .fuel) := by
  have g4 : Follow (posText .OFFSET o ++ k) [.DOT, .ON, .WITH, .WHERE, .ORDER, .COMMA, .LIMIT] :=
    Follow.opt (kwText_pos _ _) (by decide +kernel) rfl (by decide) (hk.mono (by decide))
  have g3 : Follow (posText .LIMIT l ++ (posText .OFFSET o ++ k)) [.DOT, .ON, .WITH, .WHERE, .ORDER, .COMMA] :=
    Follow.opt (kwText_pos _ _) (by decide +kernel) rfl (by decide) (g4.mono (by decide))
  have gO : Follow (orderText sf ++ (posText .LIMIT l ++ (posText .OFFSET o ++ k))) [.DOT, .ON, .WITH, .WHERE] :=
    Follow.opt (kwText_order _) (by decide +kernel) rfl (by decide) (g3.mono (by decide))
  have g2 : Follow (whereText c ++ (orderText sf ++ (posText .LIMIT l ++ (posText .OFFSET o ++ k)))) [.DOT, .ON, .WITH] :=
    Follow.opt (kwText_where _) (by decide +kernel) rfl (by decide) (gO.mono (by decide))
  have g1 : Follow (withMeasText m ++ (whereText c ++ (orderText sf ++ (posText .LIMIT l ++ (posText .OFFSET o ++ k)))))
      [.DOT, .ON] :=
    Follow.opt (kwText_withMeas _) (by decide +kernel) rfl (by decide) (g2.mono (by decide))
  have hs0 : RT.Stand s (onMeasText db rp wdb wrp ++ (withMeasText m ++ (whereText c ++ (orderText sf ++ (posText .LIMIT l ++
      (posText .OFFSET o ++ k)))))) := by
    have := hs.stand
    simpa only [showMeasText, List.append_assoc] using this
  obtain ⟨s1, h1, st1⟩ := parseOnMeas_print s db rp wdb wrp _ hex1 hex2 hon (g1.mono (by decide)) hs0
  obtain ⟨f1, m1⟩ := tot_frame (fun _ => parseOnMeas_tot) h1 hg
  obtain ⟨s2, h2, st2⟩ := parseWithMeas_print s1 m _ hm (g2.mono (by decide)) st1
  obtain ⟨_, m2⟩ := tot_frame (fun _ => parseWithMeas_tot) h2 f1
  have hc2 : CondOKW s2.lowerTbl c := by rw [(m1.trans m2).2]; exact hc
  simp only [runHandler]
  rw [parseShowMeasurements_eq, wp_bind, wp_of_run_ok h1]
  dsimp only
  rw [wp_bind, wp_of_run_ok h2, wp_bind]
  refine wp_mono (parseCondition_printW fuel s2 c _ hc2 (gO.mono (by decide)) st2) ?_ (fun _ h => h)
  intro c' s5 ⟨hc', st5, _⟩
  subst hc'
  obtain ⟨s6, h6, st6⟩ := parseOrderBy_print s5 sf _ hsf (g3.mono (by decide)) st5
  obtain ⟨s7, h7, st7⟩ := parseOptTokInt_print .LIMIT (by decide +kernel) s6 l _ hl.1 hl.2 (g4.mono (by decide)) st6
  obtain ⟨s8, h8, st8⟩ := parseOptTokInt_print .OFFSET (by decide +kernel) s7 o k ho.1 ho.2 (hk.mono (by decide)) st7
  rw [wp_bind, wp_of_run_ok h6, wp_bind, wp_of_run_ok h7, wp_bind, wp_of_run_ok h8, wp_pure]
  exact ⟨rfl, st8⟩

/-- `showTagKeys_withKey_print_parse_partial` with a condition of the wide class. -/
theorem showTagKeys_withKey_print_parse_wide_partial (fuel : Nat) (s : PState) (db : Str) (qs : List (Str × Str × Str)) (op : Token)
    (key : Option Expr) (c : Option Expr) (sf : List SortField) (l o sl so : Int) (k : Str)
    (hexdb : Expressible db) (hq : ∀ m ∈ qs, QualOK m) (hkey : optKeyOKB op key = true)
    (hg : Fr s) (hc : CondOKW s.lowerTbl c)
    (hsf : sortOKB sf = true)
    (hl : 0 ≤ l ∧ l ≤ maxInt64) (ho : 0 ≤ o ∧ o ≤ maxInt64) (hsl : 0 ≤ sl ∧ sl ≤ maxInt64)
    (hso : 0 ≤ so ∧ so ≤ maxInt64) (hk : Follow k showStop)
    (hs : s.Before (showTagKeysText db qs op key c sf l o sl so ++ k)) :
    wp (runHandler fuel .parseShowTagKeysStatement) s
      (fun st s' => st = .showTagKeys db (qs.map qualSrc) op key c sf l o sl so ∧ RT.Stand s' k) (· = .fuel) := by
  have g6 : Follow (posText .SOFFSET so ++ k) [.EXACT, .CARDINALITY, .ON, .FROM, .COMMA, .WITH, .WHERE, .ORDER, .LIMIT, .OFFSET,
      .SLIMIT] := Follow.opt (kwText_pos _ _) (by decide +kernel) rfl (by decide) (hk.mono (by decide))
  have g5 : Follow (posText .SLIMIT sl ++ (posText .SOFFSET so ++ k)) [.EXACT, .CARDINALITY, .ON, .FROM, .COMMA, .WITH, .WHERE,
      .ORDER, .LIMIT, .OFFSET] := Follow.opt (kwText_pos _ _) (by decide +kernel) rfl (by decide) (g6.mono (by decide))
  have g4 : Follow (posText .OFFSET o ++ (posText .SLIMIT sl ++ (posText .SOFFSET so ++ k))) [.EXACT, .CARDINALITY, .ON, .FROM,
      .COMMA, .WITH, .WHERE, .ORDER, .LIMIT] :=
    Follow.opt (kwText_pos _ _) (by decide +kernel) rfl (by decide) (g5.mono (by decide))
  have g3 : Follow (posText .LIMIT l ++ (posText .OFFSET o ++ (posText .SLIMIT sl ++ (posText .SOFFSET so ++ k))))
      [.EXACT, .CARDINALITY, .ON, .FROM, .COMMA, .WITH, .WHERE, .ORDER] :=
    Follow.opt (kwText_pos _ _) (by decide +kernel) rfl (by decide) (g4.mono (by decide))
  have gO : Follow (orderText sf ++ (posText .LIMIT l ++ (posText .OFFSET o ++ (posText .SLIMIT sl ++ (posText .SOFFSET so ++ k)))))
      [.EXACT, .CARDINALITY, .ON, .FROM, .COMMA, .WITH, .WHERE] :=
    Follow.opt (kwText_order _) (by decide +kernel) rfl (by decide) (g3.mono (by decide))
  have g2 : Follow (whereText c ++ (orderText sf ++ (posText .LIMIT l ++ (posText .OFFSET o ++ (posText .SLIMIT sl ++
      (posText .SOFFSET so ++ k)))))) [.EXACT, .CARDINALITY, .ON, .FROM, .COMMA, .WITH] :=
    Follow.opt (kwText_where _) (by decide +kernel) rfl (by decide) (gO.mono (by decide))
  have gW : Follow (optKeyText op key ++ (whereText c ++ (orderText sf ++ (posText .LIMIT l ++ (posText .OFFSET o ++
      (posText .SLIMIT sl ++ (posText .SOFFSET so ++ k))))))) [.EXACT, .CARDINALITY, .ON, .FROM, .COMMA] := by
    cases key with
    | none => exact g2.mono (by decide)
    | some key => exact Follow.opt (kwText_withKey op key) (by decide +kernel) rfl (by decide) (g2.mono (by decide))
  have gF : Follow (fromQualsText qs ++ (optKeyText op key ++ (whereText c ++ (orderText sf ++ (posText .LIMIT l ++
      (posText .OFFSET o ++ (posText .SLIMIT sl ++ (posText .SOFFSET so ++ k)))))))) [.EXACT, .CARDINALITY, .ON] :=
    Follow.opt (kwText_fromQuals _) (by decide +kernel) rfl (by decide) (gW.mono (by decide))
  have hs0 : RT.Stand s (onDbText db ++ (fromQualsText qs ++ (optKeyText op key ++ (whereText c ++ (orderText sf ++
      (posText .LIMIT l ++ (posText .OFFSET o ++ (posText .SLIMIT sl ++ (posText .SOFFSET so ++ k))))))))) := by
    have := hs.stand
    simpa only [showTagKeysText, List.append_assoc] using this
  obtain ⟨s3, h3, st3⟩ := parseOnDb_stand s db _ hexdb (gF.mono (by decide)) hs0
  obtain ⟨f3, m3⟩ := tot_frame (fun _ => parseOnDb_tot) h3 hg
  obtain ⟨s4, h4, st4⟩ := parseOptFrom_quals s3 qs _ hq (gW.mono (by decide)) st3
  obtain ⟨f4, m4⟩ := tot_frame (fun _ => parseOptFrom_tot) h4 f3
  -- the common tail
  have tail : ∀ s6 : PState, RT.Same s s6 → RT.Stand s6 (whereText c ++ (orderText sf ++ (posText .LIMIT l ++ (posText .OFFSET o ++
      (posText .SLIMIT sl ++ (posText .SOFFSET so ++ k)))))) →
      wp (do
        let cond ← parseCondition fuel
        let sort ← parseOrderBy
        let limit ← parseOptTokInt .LIMIT
        let offset ← parseOptTokInt .OFFSET
        let slimit ← parseOptTokInt .SLIMIT
        let soffset ← parseOptTokInt .SOFFSET
        pure (Statement.showTagKeys db (qs.map qualSrc) op key cond sort limit offset slimit soffset)) s6
        (fun st s' => st = Statement.showTagKeys db (qs.map qualSrc) op key c sf l o sl so ∧ RT.Stand s' k)
        (· = .fuel) := by
    intro s6 m6 st6
    have hc6 : CondOKW s6.lowerTbl c := by rw [m6.2]; exact hc
    rw [wp_bind]
    refine wp_mono (parseCondition_printW fuel s6 c _ hc6 (gO.mono (by decide)) st6) ?_ (fun _ h => h)
    intro c' s7 ⟨hc', st7, _⟩
    subst hc'
    obtain ⟨s8, h8, st8⟩ := parseOrderBy_print s7 sf _ hsf (g3.mono (by decide)) st7
    obtain ⟨s9, h9, st9⟩ := parseOptTokInt_print .LIMIT (by decide +kernel) s8 l _ hl.1 hl.2 (g4.mono (by decide)) st8
    obtain ⟨s10, h10, st10⟩ := parseOptTokInt_print .OFFSET (by decide +kernel) s9 o _ ho.1 ho.2 (g5.mono (by decide)) st9
    obtain ⟨s11, h11, st11⟩ := parseOptTokInt_print .SLIMIT (by decide +kernel) s10 sl _ hsl.1 hsl.2 (g6.mono (by decide))
      st10
    obtain ⟨s12, h12, st12⟩ := parseOptTokInt_print .SOFFSET (by decide +kernel) s11 so k hso.1 hso.2 (hk.mono (by decide))
      st11
    rw [wp_bind, wp_of_run_ok h8, wp_bind, wp_of_run_ok h9, wp_bind, wp_of_run_ok h10, wp_bind, wp_of_run_ok h11,
      wp_bind, wp_of_run_ok h12, wp_pure]
    exact ⟨rfl, st12⟩
  simp only [runHandler, parseShowTagKeys]
  rw [wp_bind, wp_of_run_ok h3, wp_bind, wp_of_run_ok h4]
  cases key with
  | none =>
    have hop : op = .ILLEGAL := by simpa [optKeyOKB] using hkey
    subst hop
    obtain ⟨lx, s5, h5, t5, st5⟩ := peek_stand s4 _ _ .WITH g2 (by decide)
      (by simpa only [optKeyText, List.nil_append] using st4)
    rw [wp_bind, wp_of_run_ok h5, wp_bind, unscan_wp]
    simp only [t5, if_false, pure_bind]
    obtain ⟨_, m5⟩ := peek_frame .WITH h5 t5 f4
    exact tail (unsc s5) ((m3.trans m4).trans m5) st5
  | some key =>
    have hst : RT.Starts (withKeyText op key ++ (whereText c ++ (orderText sf ++ (posText .LIMIT l ++ (posText .OFFSET o ++
        (posText .SLIMIT sl ++ (posText .SOFFSET so ++ k))))))) .WITH := by
      have := starts_kw .WITH (' ' :: (Token.KEY.str ++ ' ' :: (op.str ++ ' ' :: (tagKeyValText key ++ (whereText c ++
        (orderText sf ++ (posText .LIMIT l ++ (posText .OFFSET o ++ (posText .SLIMIT sl ++ (posText .SOFFSET so ++ k))))))))))
        (by decide +kernel) (WordEnd.blank _)
      simpa only [withKeyText, List.append_assoc, List.cons_append] using this
    obtain ⟨lx, s5, h5, t5, st5, _⟩ := RT.scanIW_starts s4 _ .WITH st4 hst
    obtain ⟨f5, m5⟩ := peek_frame .EXACT h5 (by rw [t5]; decide) f4
    obtain ⟨s6, h6, b6⟩ := parseTagKeyExpr_print (unsc s5) op key _ hkey g2.tokEnd.1 st5
    obtain ⟨_, m6⟩ := tot_frame (fun _ => parseTagKeyExpr_tot) h6 f5
    rw [wp_bind, wp_of_run_ok h5, wp_bind, unscan_wp]
    simp only [t5, if_true]
    rw [wp_bind, wp_bind, wp_of_run_ok h6]
    dsimp only
    rw [wp_pure]
    exact tail s6 (((m3.trans m4).trans m5).trans m6) b6.stand

section cardinalityW
variable (db : Str) (qs : List (Str × Str × Str)) (c : Option Expr) (ds : List Expr) (l o : Int) (k : Str)


/-- `cardBody_print` with a condition of the wide class; `s0` is the state the statement started in. -/
theorem cardBody_printW (fuel : Nat) (s0 s : PState) (C : Str → List Source → Option Expr → List Expr → Int → Int → Statement)
    (hexdb : Expressible db) (hq : ∀ m ∈ qs, QualOK m)
    (hg : Fr s) (hsame : RT.Same s0 s) (hc : CondOKW s0.lowerTbl c)
    (hds : ∀ x ∈ ds, RT.rtOK false x = true) (hl : 0 ≤ l ∧ l ≤ maxInt64) (ho : 0 ≤ o ∧ o ≤ maxInt64)
    (hk : Follow k cardStop)
    (hs : RT.Stand s (onDbText db ++ (fromQualsText qs ++ (whereText c ++ (groupText ds ++ (posText .LIMIT l ++
      (posText .OFFSET o ++ k))))))) :
    wp (do
      let db ← parseOnDb
      let sources ← parseOptFrom
      let cond ← parseCondition fuel
      let dims ← parseDimensions fuel
      let limit ← parseOptTokInt .LIMIT
      let offset ← parseOptTokInt .OFFSET
      pure (C db sources cond dims limit offset)) s
      (fun st s' => st = C db (qs.map qualSrc) c ds l o ∧ RT.Stand s' k) (· = .fuel) := by
  obtain ⟨_, _, _, g2⟩ := cardRest_follow c ds l o k hk
  obtain ⟨gF, _⟩ := card_follow db qs c ds l o k hk
  obtain ⟨s3, h3, st3⟩ := parseOnDb_stand s db _ hexdb (gF.mono (by decide)) hs
  obtain ⟨s4, h4, st4⟩ := parseOptFrom_quals s3 qs _ hq (g2.mono (by decide)) st3
  obtain ⟨f3, m3⟩ := tot_frame (fun _ => parseOnDb_tot) h3 hg
  obtain ⟨_, m4⟩ := tot_frame (fun _ => parseOptFrom_tot) h4 f3
  have hc4 : CondOKW s4.lowerTbl c := by rw [((hsame.trans m3).trans m4).2]; exact hc
  rw [wp_bind, wp_of_run_ok h3, wp_bind, wp_of_run_ok h4]
  exact cardRest_printW fuel s4 (C db (qs.map qualSrc)) c ds l o k hc4 hds hl ho hk st4

variable (ex : Bool)

/-- `showSeriesCardinality_print_parse_partial` with a condition of the wide class. -/
theorem showSeriesCardinality_print_parse_wide_partial (fuel : Nat) (s : PState)
    (hexdb : Expressible db) (hq : ∀ m ∈ qs, QualOK m)
    (hg : Fr s) (hc : CondOKW s.lowerTbl c)
    (hds : ∀ x ∈ ds, RT.rtOK false x = true) (hl : 0 ≤ l ∧ l ≤ maxInt64) (ho : 0 ≤ o ∧ o ≤ maxInt64)
    (hk : Follow k cardStop) (hs : s.Before (exactCardText ex ++ cardText db qs c ds l o ++ k)) :
    wp (runHandler fuel .parseShowSeriesStatement) s
      (fun st s' => st = .showSeriesCardinality db ex (qs.map qualSrc) c ds l o ∧ RT.Stand s' k) (· = .fuel) := by
  obtain ⟨_, g0⟩ := card_follow db qs c ds l o k hk
  have hs0 : s.Before (exactText ex ++ (' ' :: (Token.CARDINALITY.str ++ (onDbText db ++ (fromQualsText qs ++ (whereText c ++
      (groupText ds ++ (posText .LIMIT l ++ (posText .OFFSET o ++ k))))))))) := by
    simpa only [exactCardText, cardText, List.append_assoc, List.cons_append] using hs
  obtain ⟨s1, h1, b1⟩ := optExact_print s ex _ g0.tokEnd.1 hs0.around
  obtain ⟨s2, h2, b2⟩ := optTok_piece s1 [' '] Token.CARDINALITY.str _ .CARDINALITY [] Gap.blank b1
    (scansAs_kw .CARDINALITY _ (by decide +kernel) g0.tokEnd.1)
  obtain ⟨f1, m1⟩ := tot_frame (fun _ => optTok_tot .EXACT) h1 hg
  obtain ⟨f2, m2⟩ := tot_frame (fun _ => optTok_tot .CARDINALITY) h2 f1
  simp only [runHandler, parseShowSeries]
  rw [wp_bind, wp_of_run_ok h1, wp_bind, wp_of_run_ok h2]
  simp only [if_true]
  exact cardBody_printW db qs c ds l o k fuel s s2 (fun db ss c ds l o => .showSeriesCardinality db ex ss c ds l o)
    hexdb hq f2 (m1.trans m2) hc hds hl ho hk b2.stand

/-- `showMeasurementCardinality_print_parse_partial` with a condition of the wide class. -/
theorem showMeasurementCardinality_print_parse_wide_partial (fuel : Nat) (s : PState)
    (hexdb : Expressible db) (hq : ∀ m ∈ qs, QualOK m)
    (hg : Fr s) (hc : CondOKW s.lowerTbl c)
    (hds : ∀ x ∈ ds, RT.rtOK false x = true) (hl : 0 ≤ l ∧ l ≤ maxInt64) (ho : 0 ≤ o ∧ o ≤ maxInt64)
    (hk : Follow k cardStop)
    (hs : s.Before ((if ex then ' ' :: Token.CARDINALITY.str else []) ++ cardText db qs c ds l o ++ k)) :
    wp (runHandler fuel (if ex then .parseShowMeasurementCardinalityStatement_true
        else .parseShowMeasurementCardinalityStatement_false)) s
      (fun st s' => st = .showMeasurementCardinality ex db (qs.map qualSrc) c ds l o ∧ RT.Stand s' k) (· = .fuel) := by
  obtain ⟨_, g0⟩ := card_follow db qs c ds l o k hk
  cases ex with
  | true =>
    have hs0 : s.Before ([' '] ++ (Token.CARDINALITY.str ++ (onDbText db ++ (fromQualsText qs ++ (whereText c ++
        (groupText ds ++ (posText .LIMIT l ++ (posText .OFFSET o ++ k)))))))) := by
      simpa only [cardText, if_true, List.append_assoc, List.cons_append, List.nil_append] using hs
    obtain ⟨s2, h2, b2⟩ := expectTok_piece s [' '] Token.CARDINALITY.str _ .CARDINALITY [] ["CARDINALITY"] Gap.blank
      hs0.around (scansAs_kw .CARDINALITY _ (by decide +kernel) g0.tokEnd.1)
    obtain ⟨f2, m2⟩ := tot_frame (fun _ => expectTok_tot .CARDINALITY ["CARDINALITY"]) h2 hg
    simp only [if_true, runHandler, parseShowMeasurementCardinality]
    rw [wp_bind, wp_of_run_ok h2]
    exact cardBody_printW db qs c ds l o k fuel s s2 (fun db ss c ds l o => .showMeasurementCardinality true db ss c ds l o)
      hexdb hq f2 m2 hc hds hl ho hk b2.stand
  | false =>
    have hs0 : s.Before (onDbText db ++ (fromQualsText qs ++ (whereText c ++
        (groupText ds ++ (posText .LIMIT l ++ (posText .OFFSET o ++ k)))))) := by
      simpa only [cardText, Bool.false_eq_true, if_false, List.append_assoc, List.nil_append] using hs
    simp only [Bool.false_eq_true, if_false, runHandler, parseShowMeasurementCardinality]
    exact cardBody_printW db qs c ds l o k fuel s s (fun db ss c ds l o => .showMeasurementCardinality false db ss c ds l o)
      hexdb hq hg (RT.Same.refl s) hc hds hl ho hk hs0.stand

/-- `showKeyCardinality_print_parse_partial` with a condition of the wide class. -/
theorem showKeyCardinality_print_parse_wide_partial (fuel : Nat) (s : PState)
    (hexdb : Expressible db) (hq : ∀ m ∈ qs, QualOK m)
    (hg : Fr s) (hc : CondOKW s.lowerTbl c)
    (hds : ∀ x ∈ ds, RT.rtOK false x = true) (hl : 0 ≤ l ∧ l ≤ maxInt64) (ho : 0 ≤ o ∧ o ≤ maxInt64)
    (hk : Follow k cardStop) (hs : s.Before (exactCardText ex ++ cardText db qs c ds l o ++ k)) :
    wp (runHandler fuel .parseShowTagKeyCardinalityStatement) s
      (fun st s' => st = .showTagKeyCardinality db ex (qs.map qualSrc) c ds l o ∧ RT.Stand s' k) (· = .fuel) ∧
    wp (runHandler fuel .parseShowFieldKeyCardinalityStatement) s
      (fun st s' => st = .showFieldKeyCardinality db ex (qs.map qualSrc) c ds l o ∧ RT.Stand s' k) (· = .fuel) := by
  obtain ⟨_, g0⟩ := card_follow db qs c ds l o k hk
  have hs0 : s.Before (exactText ex ++ (' ' :: (Token.CARDINALITY.str ++ (onDbText db ++ (fromQualsText qs ++ (whereText c ++
      (groupText ds ++ (posText .LIMIT l ++ (posText .OFFSET o ++ k))))))))) := by
    simpa only [exactCardText, cardText, List.append_assoc, List.cons_append] using hs
  obtain ⟨s2, h2, b2⟩ := parseExactCardinality_print ex s _ g0.tokEnd.1 hs0
  obtain ⟨f2, m2⟩ := tot_frame (fun _ => parseExactCardinality_tot) h2 hg
  constructor
  · simp only [runHandler, parseShowTagKeyCardinality]
    rw [wp_bind, wp_of_run_ok h2]
    exact cardBody_printW db qs c ds l o k fuel s s2 (fun db ss c ds l o => .showTagKeyCardinality db ex ss c ds l o)
      hexdb hq f2 m2 hc hds hl ho hk b2.stand
  · simp only [runHandler, parseShowFieldKeyCardinality]
    rw [wp_bind, wp_of_run_ok h2]
    exact cardBody_printW db qs c ds l o k fuel s s2 (fun db ss c ds l o => .showFieldKeyCardinality db ex ss c ds l o)
      hexdb hq f2 m2 hc hds hl ho hk b2.stand

end cardinalityW

/-- A token delivery by `ScanIgnoreWhitespace` keeps the frame. -/
theorem scan_frame {s : PState} {lx : Lexeme} {s1 : PState} (h : scanIW.run s = .ok (lx, s1)) (hs : Fr s) :
    Fr s1 ∧ RT.Same s s1 := by
  refine tot_frame (m := expectTok lx.tok []) (fun _ => expectTok_tot _ _) (a := ()) ?_ hs
  unfold expectTok
  rw [P.run_bind _ _ s lx s1 h]
  simp only [ne_eq, not_true_eq_false, if_false]
  rfl

section cardinalityW2
variable (db : Str) (qs : List (Str × Str × Str)) (c : Option Expr) (ds : List Expr) (l o : Int) (k : Str) (ex : Bool)

/-- `showTagValuesCardinality_print_parse_partial` with a condition of the wide class. -/
theorem showTagValuesCardinality_print_parse_wide_partial (fuel : Nat) (s : PState) (op : Token) (key : Expr)
    (hexdb : Expressible db) (hq : ∀ m ∈ qs, QualOK m) (hkey : tagKeyOKB op key = true)
    (hg : Fr s) (hc : CondOKW s.lowerTbl c)
    (hds : ∀ x ∈ ds, RT.rtOK false x = true) (hl : 0 ≤ l ∧ l ≤ maxInt64) (ho : 0 ≤ o ∧ o ≤ maxInt64)
    (hk : Follow k cardStop) (hs : s.Before (exactCardText ex ++ cardKeyText db qs op key c ds l o ++ k)) :
    wp (runHandler fuel .parseShowTagValuesStatement) s
      (fun st s' => st = .showTagValuesCardinality db ex (qs.map qualSrc) op (some key) c ds l o ∧ RT.Stand s' k)
      (· = .fuel) := by
  obtain ⟨_, _, _, g2⟩ := cardRest_follow c ds l o k hk
  have gW : Follow (withKeyText op key ++ (whereText c ++ (groupText ds ++ (posText .LIMIT l ++ (posText .OFFSET o ++ k)))))
      [.EXACT, .CARDINALITY, .ON, .FROM, .COMMA] :=
    Follow.opt (kwText_withKey op key) (by decide +kernel) rfl (by decide) (g2.mono (by decide))
  have gF : Follow (fromQualsText qs ++ (withKeyText op key ++ (whereText c ++ (groupText ds ++ (posText .LIMIT l ++
      (posText .OFFSET o ++ k)))))) [.EXACT, .CARDINALITY, .ON] :=
    Follow.opt (kwText_fromQuals _) (by decide +kernel) rfl (by decide) (gW.mono (by decide))
  have g0 : Follow (onDbText db ++ (fromQualsText qs ++ (withKeyText op key ++ (whereText c ++ (groupText ds ++
      (posText .LIMIT l ++ (posText .OFFSET o ++ k))))))) [.EXACT, .CARDINALITY] :=
    Follow.opt (kwText_onDb _) (by decide +kernel) rfl (by decide) (gF.mono (by decide))
  -- the clauses after `[EXACT] CARDINALITY`, from a state before them
  have body : ∀ (s2 : PState), Fr s2 → RT.Same s s2 → s2.Before (onDbText db ++ (fromQualsText qs ++ (withKeyText op key ++ (whereText c ++
      (groupText ds ++ (posText .LIMIT l ++ (posText .OFFSET o ++ k))))))) →
      wp (do
        let db ← parseOnDb
        let sources ← parseOptFrom
        let (op, key) ← parseTagKeyExpr
        let cond ← parseCondition fuel
        let dims ← parseDimensions fuel
        let limit ← parseOptTokInt .LIMIT
        let offset ← parseOptTokInt .OFFSET
        pure (Statement.showTagValuesCardinality db ex sources op (some key) cond dims limit offset)) s2
        (fun st s' => st = Statement.showTagValuesCardinality db ex (qs.map qualSrc) op (some key) c ds l o ∧
          RT.Stand s' k)
        (· = .fuel) := by
    intro s2 f2 m2 b2
    obtain ⟨s3, h3, st3⟩ := parseOnDb_stand s2 db _ hexdb (gF.mono (by decide)) b2.stand
    obtain ⟨f3, m3⟩ := tot_frame (fun _ => parseOnDb_tot) h3 f2
    obtain ⟨s4, h4, st4⟩ := parseOptFrom_quals s3 qs _ hq (gW.mono (by decide)) st3
    obtain ⟨f4, m4⟩ := tot_frame (fun _ => parseOptFrom_tot) h4 f3
    obtain ⟨s5, h5, b5⟩ := parseTagKeyExpr_print s4 op key _ hkey g2.tokEnd.1 st4
    obtain ⟨_, m5⟩ := tot_frame (fun _ => parseTagKeyExpr_tot) h5 f4
    have hc5 : CondOKW s5.lowerTbl c := by rw [(((m2.trans m3).trans m4).trans m5).2]; exact hc
    rw [wp_bind, wp_of_run_ok h3, wp_bind, wp_of_run_ok h4, wp_bind, wp_of_run_ok h5]
    dsimp only
    exact cardRest_printW fuel s5 (fun c ds l o => .showTagValuesCardinality db ex (qs.map qualSrc) op (some key) c ds l o)
      c ds l o k hc5 hds hl ho hk b5.stand
  cases ex with
  | true =>
    have hs0 : s.Before ([' '] ++ (Token.EXACT.str ++ (' ' :: (Token.CARDINALITY.str ++ (onDbText db ++ (fromQualsText qs ++
        (withKeyText op key ++ (whereText c ++ (groupText ds ++ (posText .LIMIT l ++ (posText .OFFSET o ++ k)))))))))))
        := by
      simpa only [exactCardText, exactText, cardKeyText, if_true, List.append_assoc, List.cons_append, List.nil_append]
        using hs
    obtain ⟨lx, s1, h1, t1, _, b1⟩ := scanIW_piece s [' '] Token.EXACT.str _ .EXACT [] Gap.blank hs0.around
      (scansAs_kw .EXACT _ (by decide +kernel) (WordEnd.blank _))
    obtain ⟨s2, h2, b2⟩ := expectTok_piece s1 [' '] Token.CARDINALITY.str _ .CARDINALITY [] ["CARDINALITY"] Gap.blank
      b1.around (scansAs_kw .CARDINALITY _ (by decide +kernel) g0.tokEnd.1)
    simp only [runHandler, parseShowTagValues]
    rw [wp_bind, wp_of_run_ok h1]
    simp only [t1, if_true, parseShowTagValuesCardinality]
    rw [wp_bind, wp_of_run_ok h2]
    obtain ⟨f1, m1⟩ := scan_frame h1 hg
    obtain ⟨f2, m2⟩ := tot_frame (fun _ => expectTok_tot .CARDINALITY ["CARDINALITY"]) h2 f1
    exact body s2 f2 (m1.trans m2) b2
  | false =>
    have hs0 : s.Before ([' '] ++ (Token.CARDINALITY.str ++ (onDbText db ++ (fromQualsText qs ++
        (withKeyText op key ++ (whereText c ++ (groupText ds ++ (posText .LIMIT l ++ (posText .OFFSET o ++ k)))))))))
        := by
      simpa only [exactCardText, exactText, cardKeyText, Bool.false_eq_true, if_false, List.append_assoc,
        List.cons_append, List.nil_append] using hs
    obtain ⟨lx, s1, h1, t1, _, b1⟩ := scanIW_piece s [' '] Token.CARDINALITY.str _ .CARDINALITY [] Gap.blank hs0.around
      (scansAs_kw .CARDINALITY _ (by decide +kernel) g0.tokEnd.1)
    simp only [runHandler, parseShowTagValues]
    rw [wp_bind, wp_of_run_ok h1]
    simp only [t1, reduceCtorEq, if_false, if_true, parseShowTagValuesCardinality, Bool.false_eq_true]
    obtain ⟨f1, m1⟩ := scan_frame h1 hg
    exact body s1 f1 m1 b1

end cardinalityW2

/-- Non-vacuity of the wide variants: `… WHERE time > now() - 90m AND value >= 1.5`. -/
def exCondW : Option Expr := some (.binary .AND
  (.binary .GT (.varRef "time".toList .Unknown) (.binary .SUB (.call "now".toList []) (.duration 5400000000000)))
  (.binary .GTE (.varRef "value".toList .Unknown) (.number ⟨false, 15, 1⟩)))
def exTagValuesTextW : Str := showTagValuesText [] exQs .EQ (.string "host".toList) exCondW exSort 10 0
def exMeasTextW : Str := showMeasText [] [] true false (.name "cpu".toList) exCondW [] 0 0
def exCardTextW : Str := exactCardText true ++ cardText "my db".toList exQs exCondW exDims 10 3

example : exTagValuesTextW = (" FROM \"my db\"..cpu, rp.m, m WITH KEY = host WHERE time > now() - 90m AND value >= 1.5 " ++
      "ORDER BY time DESC LIMIT 10").toList ∧
    exMeasTextW = " ON * WITH MEASUREMENT = cpu WHERE time > now() - 90m AND value >= 1.5".toList ∧
    exCardTextW = (" EXACT CARDINALITY ON \"my db\" FROM \"my db\"..cpu, rp.m, m WHERE time > now() - 90m AND value >= 1.5 " ++
      "GROUP BY host, \"my tag\" LIMIT 10 OFFSET 3").toList := by decide +kernel

example : CondOKW [] exCondW ∧ ¬ CondOK exCondW := by decide +kernel

section
attribute [local irreducible] wp
example : wp (runHandler 200 .parseShowTagValuesStatement) (PState.init exTagValuesTextW [] [])
    (fun st s' => st = .showTagValues [] (exQs.map qualSrc) .EQ (some (.string "host".toList)) exCondW exSort 10 0 ∧
      RT.Stand s' [eofRune]) (· = .fuel) :=
  showTagValues_print_parse_wide_partial 200 (PState.init exTagValuesTextW [] []) [] exQs .EQ (.string "host".toList) exCondW
    exSort 10 0 [eofRune] (by decide +kernel) (by decide +kernel) (by decide +kernel) (Fr.init _ _ _)
    (show CondOKW [] exCondW by decide +kernel) (by decide +kernel) (by decide) (by decide) (Follow.eof _ (by decide))
    (init_before exTagValuesTextW (by decide +kernel))

example : wp (runHandler 200 .parseShowMeasurementsStatement) (PState.init exMeasTextW [] [])
    (fun st s' => st = .showMeasurements [] [] true false (some (nameSrc "cpu".toList)) exCondW [] 0 0 ∧
      RT.Stand s' [eofRune]) (· = .fuel) :=
  showMeasurements_full_print_parse_wide_partial 200 (PState.init exMeasTextW [] []) [] [] true false (.name "cpu".toList)
    exCondW [] 0 0 [eofRune] (by decide +kernel) (by decide +kernel) (by decide +kernel) (by decide +kernel) (Fr.init _ _ _)
    (show CondOKW [] exCondW by decide +kernel) (by decide +kernel) (by decide) (by decide) (Follow.eof _ (by decide))
    (init_before exMeasTextW (by decide +kernel))

example : wp (runHandler 200 .parseShowSeriesStatement) (PState.init exCardTextW [] [])
    (fun st s' => st = .showSeriesCardinality "my db".toList true (exQs.map qualSrc) exCondW exDims 10 3 ∧
      RT.Stand s' [eofRune]) (· = .fuel) :=
  showSeriesCardinality_print_parse_wide_partial "my db".toList exQs exCondW exDims 10 3 [eofRune] true 200
    (PState.init exCardTextW [] []) (by decide +kernel) (by decide +kernel) (Fr.init _ _ _)
    (show CondOKW [] exCondW by decide +kernel) (by decide +kernel) (by decide) (by decide) (Follow.eof _ (by decide))
    (init_before exCardTextW (by decide +kernel))
end

example : (match (runHandler 200 .parseShowTagValuesStatement).run (PState.init exTagValuesTextW [] []) with
    | .ok _ => true
    | .error _ => false) = true := by decide +kernel

/-! ### SELECT with regex sources and regex GROUP BY dimensions (`Lemmas/SelectRegexSrc.lean`, `SelectRegexBody.lean`, `SelectRegexSelect.lean`, `SelectRegexFamilies.lean`) -/

/-- The class with regex sources and dimensions contains the class without them, at every depth. -/
theorem selOKB_selOKR (tbl : List (Char × Char)) : ∀ (n : Nat) (st : SelectStmt), selOKB tbl n st = true → selOKR tbl n st = true
  | 0, _, h => by simp [selOKB] at h
  | n + 1, st, h => by
    unfold selOKB at h
    unfold selOKR
    cases hf : st.fields with
    | nil => rw [hf] at h; simp at h
    | cons f fs =>
      rw [hf] at h
      simp only [Bool.and_eq_true, decide_eq_true_eq] at h ⊢
      obtain ⟨⟨⟨⟨⟨⟨⟨⟨⟨hb, ht⟩, hne⟩, hsrc⟩, hraw⟩, hta⟩, hot⟩, hsn⟩, hen⟩, hdd⟩ := h
      refine ⟨⟨⟨⟨⟨⟨⟨⟨⟨hb.toR, ht⟩, hne⟩, ?_⟩, hraw⟩, hta⟩, hot⟩, hsn⟩, hen⟩, hdd⟩
      rw [List.all_eq_true] at hsrc ⊢
      intro x hx
      have hx' := hsrc x hx
      cases x with
      | measurement m =>
        simp only [srcOKB] at hx'
        simp only [srcOKRB, measOKRB, hx', Bool.true_or]
      | subquery st' => exact selOKB_selOKR tbl n st' hx'

/-- A statement of the class `selOKR tbl n` prints as the keyword `SELECT` and its tail. -/
theorem selectRegex_print (tbl : List (Char × Char)) (n : Nat) (st : SelectStmt) (h : selOKR tbl n st = true) :
    (Statement.select st).print = tx "SELECT" ++ selectTail st := by
  obtain ⟨y, hy⟩ := selOKR_print tbl n st h
  show st.print = _
  rw [selectTail_of_print hy]
  exact hy

/-- A regex source prints as the optional `db.` / `rp.` prefix (as for a named measurement) and the regex literal. -/
theorem regexSource_print (db rp src : Str) :
    (Source.measurement (reM db rp src)).print = rePrefix db rp ++ '/' :: (escapeSlashes src ++ ['/']) :=
  reM_print db rp src

/-- **Print → parse, one regex source.** `parseSource` (with or without subqueries allowed) on a blank and
`Measurement.String()` of a regex measurement `/re/`, `rp./re/`, `db../re/`, `db.rp./re/`, followed by *any* text,
returns exactly the measurement — database and retention policy in their slots, the regex source unescaped — and
stands directly behind the closing slash with nothing pushed back. (`FROM /re/` is read by the regex probe at the
head of `parseSource`; after `db.rp.` the loop of `parseSegmentedIdents` stops at the slash by a rune look-ahead, and
the second probe reads the literal.) The regex source satisfies the conditions of `regex_print_scan`
(`RT.regexB`: no newline / NUL / CR, not ending in a backslash, not starting with `*`). -/
theorem regexSource_print_parse (sub : Option (P SelectStmt)) (s : PState) (db rp src rest : Str)
    (hok : ReSrcOK db rp src) (hs : s.Before (' ' :: ((Source.measurement (reM db rp src)).print ++ rest))) :
    ∃ s', (parseSourceWith sub).run s = .ok (.measurement (reM db rp src), s') ∧ s'.Before rest := by
  obtain ⟨s', h, hb, _⟩ := parseSource_regex sub s db rp src rest hok hs
  exact ⟨s', h, hb⟩

/-- **Print → parse, SELECT with regex sources and regex dimensions.** As `selectSub_print_parse_partial`, over the
larger class `selOKR s.lowerTbl n st` (decidable, on the AST; `selOKB_selOKR`): at every level a source may also be a
regex measurement `/re/`, `rp./re/`, `db../re/`, `db.rp./re/` (`reMeasOKB`: no name, expressible database and retention
policy, regex source of `RT.regexB`), and a `GROUP BY` dimension may also be a regex literal of that class
(`dimOKR`; read by `parseRegex` in `parseDimension`, followed by `ScanIgnoreWhitespace; Unscan`).

Partial — still excluded (all producible by the parser): regex sources containing a newline, NUL or CR, ending in a
backslash or starting with `*` (the first three cannot be written back by `RegexLiteral.String()`; `/*` opens a
comment), and the exclusions of `selectSub_print_parse_partial` other than regex sources / dimensions. -/
theorem selectRegex_print_parse_partial (n fuel : Nat) (s : PState) (st : SelectStmt) (k : Str)
    (hok : selOKR s.lowerTbl n st = true) (hk : Follow k selectStop) (hs : s.Before (selectTail st ++ k)) :
    wp (runHandler (fuel + n + 3) .parseSelectStatement_targetNotRequired) s
      (fun r s' => r = .select st ∧ RT.Stand s' k) (· = .fuel) := by
  simp only [runHandler]
  rw [wp_bind]
  refine wp_mono (parseSelect_subR s.lowerTbl n fuel false st s k hok (fun h => by cases h) rfl hk hs) ?_ (fun _ h => h)
  intro r s' ⟨hr, hs'⟩
  rw [wp_pure, hr]
  exact ⟨rfl, hs'⟩

/-- The pieces are what `ExplainStatement.String()` writes, for a SELECT of the class `selOKR`. -/
theorem explainRegex_print (tbl : List (Char × Char)) (n : Nat) (st : SelectStmt) (analyze verbose : Bool)
    (h : selOKR tbl n st = true) :
    (Statement.explain st analyze verbose).print = tx "EXPLAIN" ++ explainText analyze verbose st :=
  explain_print_eqR tbl n st analyze verbose h

/-- **Print → parse, EXPLAIN** over the class with regex sources and dimensions (`selOKR`); otherwise as
`explain_print_parse_partial`. Partial: exclusions as in `selectRegex_print_parse_partial`. -/
theorem explainRegex_print_parse_partial (n fuel : Nat) (s : PState) (st : SelectStmt) (analyze verbose : Bool) (k : Str)
    (hok : selOKR s.lowerTbl n st = true) (hk : Follow k selectStop)
    (hs : s.Before (explainText analyze verbose st ++ k)) :
    wp (runHandler (fuel + n + 3) .parseExplainStatement) s
      (fun r s' => r = .explain st analyze verbose ∧ RT.Stand s' k) (· = .fuel) :=
  parseExplain_printR n fuel s st analyze verbose k hok hk hs

/-- The pieces are what `CreateContinuousQueryStatement.String()` writes, for a SELECT of the class `selOKR`. -/
theorem createContinuousQueryRegex_print (tbl : List (Char × Char)) (n : Nat) (name db : Str) (ev fo : Int)
    (st : SelectStmt) (h : selOKR tbl n st = true) :
    (Statement.createContinuousQuery name db st ev fo).print =
      tx "CREATE CONTINUOUS QUERY" ++ cqText name db ev fo st :=
  cq_print_eqR tbl n name db ev fo st h

/-- **Print → parse, CREATE CONTINUOUS QUERY** over the class with regex sources and dimensions (`selOKR`); otherwise
as `createContinuousQuery_print_parse_partial`. Partial: exclusions as in `selectRegex_print_parse_partial`. -/
theorem createContinuousQueryRegex_print_parse_partial (n fuel : Nat) (s : PState) (name db : Str) (ev fo : Int)
    (st : SelectStmt) (k : Str) (hex1 : Expressible name) (hex2 : Expressible db) (hev : LimOK ev) (hfo : LimOK fo)
    (hok : selOKR s.lowerTbl n st = true) (htgt : st.target ≠ none) (hcq : cqOKB st ev fo = true) (hk : WordEnd k)
    (hs : s.Before (cqText name db ev fo st ++ k)) :
    wp (runHandler (fuel + n + 3) .parseCreateContinuousQueryStatement) s
      (fun r s' => r = .createContinuousQuery name db st ev fo ∧ RT.Stand s' k) (· = .fuel) :=
  parseCQ_printR n fuel s name db ev fo st k hex1 hex2 hev hfo hok htgt hcq hk hs

/-- Non-vacuity: `SELECT mean(x) FROM /cpu.*/, "my db".rp./a\/b/, db../x/, (SELECT value AS x FROM rp./^m$/ GROUP BY
/host/), m GROUP BY /^dc[0-9]/, region, /b\/c/ LIMIT 5`. -/
def exRe1 : SelectStmt :=
  wideSelect ⟨.varRef "value".toList .Unknown, ['x']⟩ [] none [.measurement (reM [] "rp".toList "^m$".toList)] none
    [.regex "host".toList] .null .none [] 0 0 0 0 none
def exRe0 : SelectStmt :=
  wideSelect ⟨.call "mean".toList [.varRef ['x'] .Unknown], []⟩ [] none
    [.measurement (reM [] [] "cpu.*".toList), .measurement (reM "my db".toList "rp".toList "a/b".toList),
     .measurement (reM "db".toList [] ['x']), .subquery exRe1, qualSrc ([], [], ['m'])] none
    [.regex "^dc[0-9]".toList, .varRef "region".toList .Unknown, .regex "b/c".toList] .null .none [] 5 0 0 0 none

example : selectTail exRe0 = (" mean(x) FROM /cpu.*/, \"my db\".rp./a\\/b/, db../x/, (SELECT value AS x FROM rp./^m$/ " ++
    "GROUP BY /host/), m GROUP BY /^dc[0-9]/, region, /b\\/c/ LIMIT 5").toList := by decide +kernel

-- in the new class, not in the old one; a regex ending in a backslash or starting with `*` is outside
example : selOKR [] 2 exRe0 = true ∧ selOKR [] 1 exRe0 = false ∧ selOKB [] 2 exRe0 = false ∧ selOKR [] 3 exSub0 = true ∧
    selOKR [] 1 (wideSelect ⟨.varRef ['a'] .Unknown, []⟩ [] none [.measurement (reM [] [] ['a', '\\'])] none [] .null .none []
      0 0 0 0 none) = false ∧
    selOKR [] 1 (wideSelect ⟨.varRef ['a'] .Unknown, []⟩ [] none [qualSrc ([], [], ['m'])] none [.regex ['*']] .null .none []
      0 0 0 0 none) = false := by decide +kernel

section
attribute [local irreducible] wp
example : wp (runHandler 205 .parseSelectStatement_targetNotRequired) (PState.init (selectTail exRe0) [] [])
    (fun st s' => st = .select exRe0 ∧ RT.Stand s' [eofRune]) (· = .fuel) :=
  selectRegex_print_parse_partial 2 200 (PState.init (selectTail exRe0) [] []) exRe0 [eofRune] (by decide +kernel)
    (Follow.eof _ (by decide)) (init_before (selectTail exRe0) (by decide +kernel))

example : wp (runHandler 205 .parseExplainStatement) (PState.init (explainText false true exRe0) [] [])
    (fun st s' => st = .explain exRe0 false true ∧ RT.Stand s' [eofRune]) (· = .fuel) :=
  explainRegex_print_parse_partial 2 200 (PState.init (explainText false true exRe0) [] []) exRe0 false true [eofRune]
    (by decide +kernel) (Follow.eof _ (by decide)) (init_before (explainText false true exRe0) (by decide +kernel))
end

-- the kernel runs the model parser on the printed text: the fuel suffices and the statement prints back the same
example : (match (runHandler 205 .parseSelectStatement_targetNotRequired).run (PState.init (selectTail exRe0) [] []) with
    | .ok (.select st, _) => st.print == exRe0.print
    | _ => false) = true := by decide +kernel


/-! ### DELETE / DROP SERIES / SHOW SERIES with wide conditions and regex sources (`Lemmas/ShowRegexSrc.lean`) -/

/-- What DELETE / DROP SERIES write, for *all* source lists and conditions. -/
theorem deleteLike_print_wide (xs : List Source) (c : Option Expr) :
    (Statement.deleteSeries xs c).print = tx "DELETE" ++ deleteLikeTextS xs c ∧
    (Statement.dropSeries xs c).print = tx "DROP SERIES" ++ deleteLikeTextS xs c := by
  have p1 : (Statement.deleteSeries xs c).print = tx "DELETE" ++ clauseFrom xs ++ clauseWhere c := rfl
  have p2 : (Statement.dropSeries xs c).print = tx "DROP SERIES" ++ clauseFrom xs ++ clauseWhere c := rfl
  rw [p1, p2, clauseFrom_srcs, clauseWhere_eq]
  simp only [deleteLikeTextS, List.append_assoc, and_self]

/-- **Print → parse, DELETE / DROP SERIES, wide conditions and regex sources.** `[FROM x1, …] [WHERE cond]` (at least
one of the two). Sources: measurements named or given by a regex (`measSrcOKB`: `m`, `rp.m`, `/re/`, `rp./re/` … with
expressible names, regex sources of `RT.regexB`) that pass the handler's own restriction (`sourceRestriction`: no
database, and for DROP SERIES no retention policy — every statement the handler returns satisfies it); condition of
C03's wide class relative to the table of the input (`CondOKW`: calls, number / duration literals —
`time > now() - 90m AND value >= 1.5`).

Partial — excluded (producible by the parser): regex sources with newline / NUL / CR, ending in `\` or starting with `*`;
conditions outside the wide class (call names needing quotes or changed by the table, the negated-operand trees,
non-canonical decimals); sources with an empty name (`empty-identifier-not-printed`). -/
theorem deleteLike_print_parse_wide_partial (fuel : Nat) (s : PState) (xs : List Source) (c : Option Expr) (k : Str)
    (hx : ∀ y ∈ xs, measSrcOKB y = true) (hc : CondOKW s.lowerTbl c) (hne : ¬ (c = none ∧ xs = []))
    (hk : Follow k [.FROM, .COMMA, .WHERE]) (hs : s.Before (deleteLikeTextS xs c ++ k)) :
    (sourceRestriction false xs = none →
      wp (runHandler fuel .parseDeleteStatement) s
        (fun st s' => st = .deleteSeries xs c ∧ RT.Stand s' k) (· = .fuel)) ∧
    (sourceRestriction true xs = none →
      wp (runHandler fuel .parseDropSeriesStatement) s
        (fun st s' => st = .dropSeries xs c ∧ RT.Stand s' k) (· = .fuel)) := by
  have hx' : ∀ y ∈ xs, MeasSrcOK y := fun y hy => measSrcOK_of y (hx y hy)
  constructor
  · intro hr
    simp only [runHandler]
    rw [wp_bind]
    refine wp_mono (parseDeleteLike_printW fuel false s xs c k hx' hr hc hne hk hs) ?_ (fun _ h => h)
    intro r s' ⟨hr, st⟩
    subst hr
    exact ⟨rfl, st⟩
  · intro hr
    simp only [runHandler]
    rw [wp_bind]
    refine wp_mono (parseDeleteLike_printW fuel true s xs c k hx' hr hc hne hk hs) ?_ (fun _ h => h)
    intro r s' ⟨hr, st⟩
    subst hr
    exact ⟨rfl, st⟩

/-- What SHOW SERIES writes, for all source lists and conditions and the sort lists the parser returns. -/
theorem showSeries_print_wide (db : Str) (xs : List Source) (c : Option Expr) (sf : List SortField) (l o : Int)
    (hsf : sortOKB sf = true) :
    (Statement.showSeries db xs c sf l o).print = tx "SHOW SERIES" ++ showSeriesTextS db xs c sf l o := by
  have p1 : (Statement.showSeries db xs c sf l o).print =
      tx "SHOW SERIES" ++ clauseOn db ++ clauseFrom xs ++ clauseWhere c ++ clauseOrderBy sf ++
        clausePos "LIMIT" l ++ clausePos "OFFSET" o := rfl
  rw [p1, clauseFrom_srcs, clauseWhere_eq, clauseOn_onDbText, (clausePos_eq l).1, (clausePos_eq o).2.1,
    clauseOrderBy_eq sf hsf]
  simp only [showSeriesTextS, List.append_assoc]

/-- **Print → parse, SHOW SERIES, wide conditions, regex sources, ORDER BY.**
`[ON db] [FROM x1, …] [WHERE cond] [ORDER BY [time] ASC|DESC] [LIMIT l] [OFFSET o]`: sources named (`db.rp.m` / `db..m` /
`rp.m` / `m`) or regex (`/re/`, `rp./re/`, `db../re/`, `db.rp./re/`) — `measSrcOKB` —, condition of the wide class,
the sort lists `parseOrderBy` returns (`sortOKB`), limit and offset in the parser's range.

Partial — excluded as in `deleteLike_print_parse_wide_partial` (regex sources outside `RT.regexB`, conditions outside the
wide class, empty names). -/
theorem showSeries_print_parse_wide_partial (fuel : Nat) (s : PState) (db : Str) (xs : List Source) (c : Option Expr)
    (sf : List SortField) (l o : Int) (k : Str)
    (hexdb : Expressible db) (hx : ∀ y ∈ xs, measSrcOKB y = true) (hc : CondOKW s.lowerTbl c) (hsf : sortOKB sf = true)
    (hl : 0 ≤ l ∧ l ≤ maxInt64) (ho : 0 ≤ o ∧ o ≤ maxInt64) (hk : Follow k showSeriesStop)
    (hs : s.Before (showSeriesTextS db xs c sf l o ++ k)) :
    wp (runHandler fuel .parseShowSeriesStatement) s
      (fun st s' => st = .showSeries db xs c sf l o ∧ RT.Stand s' k) (· = .fuel) := by
  simp only [runHandler]
  exact parseShowSeries_printW fuel s db xs c sf l o k hexdb (fun y hy => measSrcOK_of y (hx y hy)) hc hsf hl ho hk hs

/-- Non-vacuity: `DELETE FROM /cpu.*/, rp./a\/b/, "my m" WHERE time > now() - 90m AND value >= 1.5` (DROP SERIES rejects the
retention policy) and `SHOW SERIES ON "my db" FROM db.rp./^x/, cpu WHERE … ORDER BY time DESC LIMIT 10`. -/
def exDelSrcs : List Source :=
  [.measurement (reM [] [] "cpu.*".toList), .measurement (reM [] "rp".toList "a/b".toList), qualSrc ([], [], "my m".toList)]
def exSeriesSrcs : List Source :=
  [.measurement (reM "db".toList "rp".toList "^x".toList), qualSrc ([], [], "cpu".toList)]
def exDelTextW : Str := deleteLikeTextS exDelSrcs exCondW
def exSeriesTextW : Str :=
  showSeriesTextS "my db".toList exSeriesSrcs exCondW [⟨"time".toList, false⟩] 10 0

example : exDelTextW = " FROM /cpu.*/, rp./a\\/b/, \"my m\" WHERE time > now() - 90m AND value >= 1.5".toList ∧
    exSeriesTextW = (" ON \"my db\" FROM db.rp./^x/, cpu WHERE time > now() - 90m AND value >= 1.5 ORDER BY time DESC " ++
      "LIMIT 10").toList ∧
    sourceRestriction false exDelSrcs = none ∧ sourceRestriction true exDelSrcs ≠ none := by decide +kernel

section
attribute [local irreducible] wp
example : wp (runHandler 200 .parseDeleteStatement) (PState.init exDelTextW [] [])
    (fun st s' => st = .deleteSeries exDelSrcs exCondW ∧ RT.Stand s' [eofRune]) (· = .fuel) :=
  (deleteLike_print_parse_wide_partial 200 (PState.init exDelTextW [] []) exDelSrcs exCondW [eofRune] (by decide +kernel)
    (show CondOKW [] exCondW by decide +kernel) (by decide +kernel) (Follow.eof _ (by decide))
    (init_before exDelTextW (by decide +kernel))).1 (by decide +kernel)

example : wp (runHandler 200 .parseShowSeriesStatement) (PState.init exSeriesTextW [] [])
    (fun st s' => st = .showSeries "my db".toList exSeriesSrcs exCondW [⟨"time".toList, false⟩] 10 0 ∧
      RT.Stand s' [eofRune]) (· = .fuel) :=
  showSeries_print_parse_wide_partial 200 (PState.init exSeriesTextW [] []) "my db".toList exSeriesSrcs exCondW
    [⟨"time".toList, false⟩] 10 0 [eofRune] (by decide +kernel) (by decide +kernel)
    (show CondOKW [] exCondW by decide +kernel) (by decide +kernel) (by decide) (by decide) (Follow.eof _ (by decide))
    (init_before exSeriesTextW (by decide +kernel))
end

example : (match (runHandler 200 .parseDeleteStatement).run (PState.init exDelTextW [] []) with
    | .ok (st, _) => st.print == tx "DELETE" ++ exDelTextW
    | .error _ => false) = true := by decide +kernel


end InfluxQL.C02

import InfluxQL.Lemmas.Cond
/-
C10 — Splitting a WHERE clause into time range and residual preserves its meaning.

Model: `Model/TimeLit.lean` (time strings), `Model/CondReduce.lean` (`CReduce` with a nil valuer
or a `NowValuer`), `Model/Cond.lean` (`ConditionExpr`, `conditionExpr`, `getTimeRange`,
`TimeRange`), `Model/CondSpec.lean` (declarative meaning `holds`, the class `inClass`).

A point is a timestamp `t : Int` together with `L : Expr → Bool`, the truth value of every
predicate on tags and fields at that point; every theorem quantifies over all `t` and all `L`.
-/
namespace InfluxQL.C10
open InfluxQL Gen
open InfluxQL.CondTime

/-- **Soundness of the split.** For a condition of the property's class (`AND` and parentheses
anywhere, `OR` only between conditions without time comparisons, time compared with `= < <= > >=`
from either side against integer nanoseconds, numbers, durations, date / date-time / RFC3339
strings, `now()`, `now() ± duration`, every other predicate relating a tag or field to a
reference or literal, or constant), if `ConditionExpr` returns the residual `res` and the range
`tr`, then at every point the condition holds exactly when the timestamp lies in the inclusive
range and the residual holds (a missing residual counting as true). `FoldSound` asks that the
point values a constant predicate the way `CReduce` folds it (vacuous without constant
predicates, see `split_sound_no_constants`). -/
theorem split_sound (c : CCtx) (e : Expr) (res : Option Expr) (tr : TimeRange)
    (hcls : inClass c e = true) (h : ConditionExpr c (some e) = .ok (res, tr))
    (L : Expr → Bool) (hL : FoldSound c L e) (t : Int) :
    holds c L t e = true ↔ (tr.contains t = true ∧ evalOpt L res = true) := by
  unfold ConditionExpr at h
  simp only at h
  cases h0 : conditionExpr c e with
  | error err => simp [h0] at h
  | ok p =>
    obtain ⟨res0, tr0⟩ := p
    simp only [h0] at h
    simp only [Except.ok.injEq, Prod.mk.injEq] at h
    obtain ⟨hres, rfl⟩ := h
    have inv := cond_main c L e hcls hL res0 tr0 h0
    subst hres
    rw [inv.2.1 t, strip_preserves, Bool.and_eq_true]

/-- Conditions of the class without constant predicates. -/
def noConstants (c : CCtx) : Expr → Bool
  | .binary op l r =>
    if op = .AND ∨ op = .OR then noConstants c l && noConstants c r
    else if isTimeRef c.lowerTbl l ∨ isTimeRef c.lowerTbl r then true
    else stablePred l r
  | .paren e => noConstants c e
  | _ => true

theorem foldSound_of_noConstants (c : CCtx) (L : Expr → Bool) : ∀ (e : Expr), noConstants c e = true → FoldSound c L e
  | .binary op l r, h => by
    by_cases hlog : op = .AND ∨ op = .OR
    · simp only [noConstants, hlog, if_true, Bool.and_eq_true] at h
      simp only [FoldSound, hlog, if_true]
      exact ⟨foldSound_of_noConstants c L l h.1, foldSound_of_noConstants c L r h.2⟩
    · simp only [FoldSound, hlog, if_false]
      by_cases ht : isTimeRef c.lowerTbl l = true ∨ isTimeRef c.lowerTbl r = true
      · simp [ht]
      · simp only [noConstants, hlog, ht, if_false] at h
        simp only [ht, if_false]
        intro b hb
        have hand : op ≠ .AND := fun e => hlog (Or.inl e)
        have hor : op ≠ .OR := fun e => hlog (Or.inr e)
        rw [reduce_stable c.r op l r hand hor h] at hb
        cases hb
  | .paren e, h => by
    simp only [noConstants] at h
    simp only [FoldSound]
    exact foldSound_of_noConstants c L e h
  | .call .., _ | .varRef .., _ | .distinct .., _ | .wildcard .., _ | .regex .., _ | .string .., _
  | .number .., _ | .integer .., _ | .unsigned .., _ | .duration .., _ | .time .., _ | .nil, _
  | .list .., _ | .boundParam .., _ | .boolean .., _ => by simp [FoldSound]

/-- The split is sound at every point, with no side condition, when every predicate that is not a
time comparison relates a tag or field to a reference or literal. -/
theorem split_sound_no_constants (c : CCtx) (e : Expr) (res : Option Expr) (tr : TimeRange)
    (hcls : inClass c e = true) (hnc : noConstants c e = true)
    (h : ConditionExpr c (some e) = .ok (res, tr)) (L : Expr → Bool) (t : Int) :
    holds c L t e = true ↔ (tr.contains t = true ∧ evalOpt L res = true) :=
  split_sound c e res tr hcls h L (foldSound_of_noConstants c L e hnc) t

/-- **A missing residual means true**: when `ConditionExpr` returns no residual, the condition
holds exactly on the time range. -/
theorem missing_residual (c : CCtx) (e : Expr) (tr : TimeRange)
    (hcls : inClass c e = true) (h : ConditionExpr c (some e) = .ok (none, tr))
    (L : Expr → Bool) (hL : FoldSound c L e) (t : Int) :
    holds c L t e = true ↔ tr.contains t = true := by
  rw [split_sound c e none tr hcls h L hL t]
  simp [evalOpt]

/-- A nil condition selects everything: no residual, no bounds. -/
theorem nil_condition (c : CCtx) : ConditionExpr c none = .ok (none, {}) := rfl

/-- **The bound of one comparison is exact.** For `time ⋈ x` with `x` of one of the listed forms,
`getTimeRange` succeeds only with the range `rangeOf ⋈ v`, `v` the instant `x` denotes, and a
timestamp is in that range exactly when `t ⋈ v`. -/
theorem getTimeRange_exact (c : RCtx) (op : Token) (x : Expr) (tr : TimeRange)
    (hx : timeOperand x = true) (h : getTimeRange c op x = .ok tr) :
    ∃ v, instant c x = some v ∧ rangeOf op v = some tr ∧ ∀ t, tr.contains t = cmpInstant op t v := by
  obtain ⟨v, hi, hlo, hhi, hr⟩ := InfluxQL.getTimeRange_exact c op x tr hx h
  exact ⟨v, hi, hr, fun t => contains_rangeOf op v t tr hlo hhi hr⟩

/-- **Strict bounds move by exactly one nanosecond**, inclusive ones not at all, equality sets
both ends. -/
theorem bounds_per_operator (v : Int) :
    rangeOf .GT v = some { min := v + 1 } ∧ rangeOf .GTE v = some { min := v } ∧
    rangeOf .LT v = some { max := v - 1 } ∧ rangeOf .LTE v = some { max := v } ∧
    rangeOf .EQ v = some { min := v, max := v } := ⟨rfl, rfl, rfl, rfl, rfl⟩

/-- The five ranges mean what the operators say, for every `int64` instant (so the unset-bound
sentinel, the zero `time.Time`, is never mistaken for a bound, nor a bound for it). -/
theorem range_meaning (v t : Int) (hlo : minInt64 ≤ v) (hhi : v ≤ maxInt64) :
    (({ min := v + 1 } : TimeRange).contains t = true ↔ t > v) ∧
    (({ min := v } : TimeRange).contains t = true ↔ t ≥ v) ∧
    (({ max := v - 1 } : TimeRange).contains t = true ↔ t < v) ∧
    (({ max := v } : TimeRange).contains t = true ↔ t ≤ v) ∧
    (({ min := v, max := v } : TimeRange).contains t = true ↔ t = v) := by
  unfold minInt64 at hlo
  unfold maxInt64 at hhi
  refine ⟨?_, ?_, ?_, ?_, ?_⟩ <;> simp [contains_iff, zeroTime] <;> omega

/-- **Operand swap**: `x ⋈ time` is handled as `time ⋈' x` with the mirrored operator, and
`t ⋈' v` is `v ⋈ t`. -/
theorem operand_swap (op : Token) (hop : isCmpOp op = true) (v t : Int) :
    cmpInstant (swapOp op) t v = cmpInstant op v t := cmpInstant_swap op hop v t

theorem swapOp_table :
    swapOp .GT = .LT ∧ swapOp .LT = .GT ∧ swapOp .GTE = .LTE ∧ swapOp .LTE = .GTE ∧ swapOp .EQ = .EQ :=
  ⟨rfl, rfl, rfl, rfl, rfl⟩

/-- **Several bounds intersect**: a timestamp is in `a.Intersect(b)` exactly when it is in both
(for all ranges, whether or not bounds are set). -/
theorem intersect_iff (a b : TimeRange) (t : Int) :
    (a.intersect b).contains t = true ↔ (a.contains t = true ∧ b.contains t = true) := by
  rw [contains_intersect, Bool.and_eq_true]

/-- For timestamps a point can have (`MinTime ≤ t ≤ MaxTime`), membership is the comparison with
`MinTime()` / `MaxTime()`, which substitute the extreme timestamps for unset bounds. -/
theorem contains_iff_accessors (tr : TimeRange) (t : Int) (hlo : minTimeC ≤ t) (hhi : t ≤ maxTimeC) :
    tr.contains t = true ↔ (tr.minTime ≤ t ∧ t ≤ tr.maxTime) := by
  rw [contains_iff]
  unfold TimeRange.minTime TimeRange.maxTime
  split <;> split <;> omega

/-- The `…Nano` accessors agree with `MinTime()` / `MaxTime()` when the bounds are `int64`
nanoseconds. -/
theorem nano_accessors_exact (tr : TimeRange)
    (h1 : tr.min = zeroTime ∨ (minInt64 ≤ tr.min ∧ tr.min ≤ maxInt64))
    (h2 : tr.max = zeroTime ∨ (minInt64 ≤ tr.max ∧ tr.max ≤ maxInt64)) :
    tr.minTimeNano = tr.minTime ∧ tr.maxTimeNano = tr.maxTime := by
  unfold TimeRange.minTimeNano TimeRange.maxTimeNano TimeRange.minTime TimeRange.maxTime
  constructor
  · split
    · rfl
    · rcases h1 with h | ⟨a, b⟩
      · contradiction
      · exact wrap64_id a b
  · split
    · rfl
    · rcases h2 with h | ⟨a, b⟩
      · contradiction
      · exact wrap64_id a b

/-! ### The code outside the class, and the accessor overflow (kernel-checked) -/

/-- A context: `now` = 2000-01-01T00:00:00Z, no location. -/
def ctx0 : CCtx := { r := { valuer := some ⟨946684800000000000, none⟩, fa := fun _ _ _ => ⟨false, 0, 0⟩ } }

def timeRef : Expr := .varRef ['t', 'i', 'm', 'e'] .Unknown
def hostEqA : Expr := .binary .EQ (.varRef ['h', 'o', 's', 't'] .Unknown) (.string ['a'])

def rangeOfResult (r : Except CondErr (Option Expr × TimeRange)) : Option TimeRange :=
  match r with
  | .ok (_, tr) => some tr
  | .error _ => none

def errorOfResult (r : Except CondErr (Option Expr × TimeRange)) : Option CondErr :=
  match r with
  | .ok _ => none
  | .error e => some e

def residualText (r : Except CondErr (Option Expr × TimeRange)) : Option (Option Str) :=
  match r with
  | .ok (res, _) => some (res.map Expr.print)
  | .error _ => none

/-- `time > 9223372036854775807`: the range is exact (`Min` = 2^63, no timestamp qualifies), but
`MinTimeNano()` wraps to `MinInt64`, so a caller using the `…Nano` accessors selects every
point. -/
theorem nano_accessor_counterexample :
    let r := ConditionExpr ctx0 (some (.binary .GT timeRef (.integer 9223372036854775807)))
    rangeOfResult r = some { min := 9223372036854775808 } ∧
    (∀ tr, rangeOfResult r = some tr → tr.minTime = 9223372036854775808 ∧ tr.minTimeNano = minInt64) := by
  refine ⟨by decide, ?_⟩
  intro tr h
  have : rangeOfResult (ConditionExpr ctx0 (some (.binary .GT timeRef (.integer 9223372036854775807))))
      = some { min := 9223372036854775808 } := by decide
  rw [this] at h
  cases h
  decide

/-- `time != 0` and `time =~ /x/` are errors ("invalid time comparison operator: !=", "invalid
operation: time and *influxql.RegexLiteral are not compatible"). -/
theorem neq_and_regex_on_time_are_errors :
    errorOfResult (ConditionExpr ctx0 (some (.binary .NEQ timeRef (.integer 0)))) = some (.badOp ['!', '=']) ∧
    errorOfResult (ConditionExpr ctx0 (some (.binary .EQREGEX timeRef (.regex ['x'])))) =
      some (.incompatible "*influxql.RegexLiteral".toList) := by
  decide

/-- `TIME > 5` (any letter case) is a time bound for `ConditionExpr`. -/
theorem time_any_case :
    rangeOfResult (ConditionExpr ctx0 (some (.binary .GT (.varRef ['T', 'I', 'M', 'E'] .Unknown) (.integer 5))))
      = some { min := 6 } := by
  decide

/-- `time > 5 OR time < 3` (outside the class): the two ranges are intersected as for `AND`, giving
the empty range `[6, 2]`, although the condition holds at `t = 10`. -/
theorem or_with_time_is_intersected :
    let e := Expr.binary .OR (.binary .GT timeRef (.integer 5)) (.binary .LT timeRef (.integer 3))
    rangeOfResult (ConditionExpr ctx0 (some e)) = some { min := 6, max := 2 } ∧
    residualText (ConditionExpr ctx0 (some e)) = some none ∧
    holds ctx0 (fun _ => false) 10 e = true ∧
    inClass ctx0 e = false := by
  decide

/-! ### Non-vacuity -/

/-- `host = 'a' AND time >= 10 AND 20 > time AND time > now() - 1h`. -/
def sample : Expr :=
  .binary .AND (.binary .AND (.binary .AND hostEqA (.binary .GTE timeRef (.integer 10)))
      (.binary .GT (.integer 20) timeRef))
    (.binary .GT timeRef (.binary .SUB (.call ['n', 'o', 'w'] []) (.duration 3600000000000)))

example : inClass ctx0 sample = true := by decide
example : noConstants ctx0 sample = true := by decide
example : rangeOfResult (ConditionExpr ctx0 (some sample)) = some { min := 946681200000000001, max := 19 } := by decide
example : residualText (ConditionExpr ctx0 (some sample)) = some (some "host = 'a'".toList) := by decide
example : rangeOfResult (ConditionExpr ctx0 (some (.binary .GT timeRef (.string "2000-01-01T00:00:00Z".toList))))
    = some { min := 946684800000000001 } := by decide

end InfluxQL.C10

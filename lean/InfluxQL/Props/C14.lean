/-
C14 — Clones are faithful and independent; derived operations leave the receiver alone.

The statements are about the heap model of `Model/Heap.lean` (ASTs as cells with addresses, the
clone routines as the generic interpreter of the regenerated per-field table) and about two
regenerated inventories.  They are tied to /repo on every run:

* `Gen.cloneTable` is re-extracted from `SelectStatement.Clone`, `cloneSources`, `cloneSource`,
  `Measurement.Clone`, `CloneRegexLiteral`, `CloneExpr`; the `gen_…` obligations re-check it by `decide`.
* `Gen.readOnlyStores` is the re-extracted inventory of heap stores with a non-fresh base in every
  function reachable from the read-only operations; it must equal the reviewed list below.
* `harness/stream_clone.go` checks the same four facts on the implementation with reflective
  snapshots over generated mutation histories.

One deviation of the code from the property is modelled, not hidden: `Measurement.Clone` maps
`Regex: &RegexLiteral{Val: nil}` to `Regex: nil` (`needs` guard).  `clone_faithful_partial` has the
explicit hypothesis that this did not happen (`q = false`, a by-product of the interpreter), and
`clone_unfaithful_witness` is the kernel-checked counterexample.  The parser never builds such a
node (a regex literal always carries its compiled value).
-/
import InfluxQL.Lemmas.Heap
import InfluxQL.Lemmas.HeapOps
import InfluxQL.Gen.Clone
import InfluxQL.Gen.Stores

namespace InfluxQL.Props.C14
open InfluxQL.CloneTable InfluxQL.Heap

/-! ### The reviewed conditions on a clone table -/

/-- Library objects that may be shared between original and clone: the package never mutates them
and their own API is immutable / safe (`regexp.Regexp`: "safe for concurrent use by multiple
goroutines, except for configuration methods" — the package calls none (`Longest`);
`time.Location`: immutable after load). -/
def sharedLibAllow : List (List Char) := ["regexp.Regexp".toList, "time.Location".toList]

/-- Library value types that may be copied by value (`time.Time` holds a `*Location`). -/
def copiedLibAllow : List (List Char) := ["time.Time".toList]

/-- Kind and treatment agree, and sharing is confined to the allow-list. `boxed` (`FillValue
interface{}`) may be shared: the parser only stores `int64` / `float64` there, and a boxed scalar
cannot be mutated through the interface value. -/
def fieldOK (f : FieldRow) : Bool :=
  match f.treat, f.kind with
  | .copied, .scalar => true
  | .copied, .string => true
  | .copied, .libValue n => copiedLibAllow.contains n
  | .shared, .ptrLib n => sharedLibAllow.contains n
  | .shared, .boxed => true
  | .deepLib, .ptrLib _ => true
  | .deep _ _, .ptrNode _ => true
  | .deep _ _, .ifaceNode _ => true
  | .deepSlice (some _) _, .slice (.ptrNode _) => true
  | .deepSlice (some _) _, .slice (.ifaceNode _) => true
  | .deepSlice none _, .slice .string => true
  | .deepSlice none _, .slice .scalar => true
  | _, _ => false

/-- Every dynamic type a rebuilt reference can have has a row in the routine that rebuilds it. -/
def covered (t : List Row) (ifaces : List (List Char × Nat × List Nat)) (via : Nat) : Kind → Bool
  | .ptrNode ty => (findRow t via ty).isSome
  | .ifaceNode i => ifaces.any fun (n, r, tys) => n == i && r == via && tys.all fun ty => (findRow t via ty).isSome
  | _ => false

def fieldCovered (t : List Row) (ifaces : List (List Char × Nat × List Nat)) (f : FieldRow) : Bool :=
  match f.treat, f.kind with
  | .deep via _, k => covered t ifaces via k
  | .deepSlice (some via) _, .slice k => covered t ifaces via k
  | _, _ => true

/-- `TableOK`: every mutable reference field is rebuilt, nothing is dropped, what is shared is on the
allow-list, and the routines named by the table exist for every dynamic type. -/
def tableOK (t : List Row) (ifaces : List (List Char × Nat × List Nat)) : Bool :=
  noSharedRefs t && noDrop t &&
  t.all fun r => r.fields.all fun f => fieldOK f && fieldCovered t ifaces f

theorem tableOK_noSharedRefs {t ifaces} (h : tableOK t ifaces = true) : noSharedRefs t = true := by
  simp only [tableOK, Bool.and_eq_true] at h
  exact h.1.1

theorem tableOK_noDrop {t ifaces} (h : tableOK t ifaces = true) : noDrop t = true := by
  simp only [tableOK, Bool.and_eq_true] at h
  exact h.1.2

/-! ### Obligations on the regenerated table -/

/-- The table extracted from /repo today satisfies `TableOK`. (Before the fix of
`SelectStatement.Clone` this failed on `IsTarget`, which was `dropped`.) -/
theorem gen_tableOK : tableOK Gen.cloneTable Gen.ifaceRoutines = true := by decide

/-- Every struct type with an `expr()` / `source()` marker has a case in `CloneExpr` / `cloneSource`
(a missing case is `panic("unreachable")`). -/
theorem gen_clone_cases_complete :
    (Gen.ifaceRoutines.all fun (_, via, tys) => tys.all fun ty => (findRow Gen.cloneTable via ty).isSome) = true := by
  decide

/-- At most one field has a guard stronger than a nil check: `Regex` of `Measurement` in
`Measurement.Clone` (and its use through `cloneSource`).  (Stated as an inclusion so that a repair of
`Measurement.Clone` does not break the obligation.) -/
theorem gen_needs_guards :
    ((Gen.cloneTable.flatMap fun r => r.fields.filterMap fun f =>
        match f.treat with
        | .deep _ (.needs _) => some (Gen.routineNames[r.routine]?, Gen.structNames[r.ty]?, f.name)
        | _ => none).all fun x =>
      [(some "Measurement.Clone".toList, some "Measurement".toList, "Regex".toList),
       (some "cloneSource".toList, some "Measurement".toList, "Regex".toList)].contains x) = true := by
  decide

/-! ### Faithful and disjoint clones, for every heap -/

/-- **Clone does not touch any existing cell**: the new heap is the old one plus new cells. -/
theorem clone_allocates_only (t : List Row) {fuel via : Nat} {h h' : Heap} {a a' : Nat} {q : Bool}
    (hwf : WF h) (hc : cloneAddr t fuel via h a = some (h', a', q)) :
    ∃ e, h' = h ++ e :=
  (cloneAddr_spec t fuel via h a h' a' q hwf hc).ext

/-- **Faithful (partial).** For every table that drops nothing, every well-formed heap and every
object: if cloning succeeds and no `needs` guard replaced a non-nil pointer by nil (`q = false`),
the copy unfolds to exactly the same tree as the original, at every depth — same types, same
values, same nil-ness, same shape — and the original still unfolds to what it did before. -/
theorem clone_faithful_partial {t : List Row} {ifaces} (hT : tableOK t ifaces = true)
    {fuel via : Nat} {h h' : Heap} {a a' : Nat}
    (hwf : WF h) (hc : cloneAddr t fuel via h a = some (h', a', false)) :
    ∀ n, unfold n h' a' = unfold n h a ∧ unfold n h' a = unfold n h a := by
  intro n
  have sp := cloneAddr_spec t fuel via h a h' a' false hwf hc
  refine ⟨sp.faithful (tableOK_noDrop hT) rfl n, ?_⟩
  obtain ⟨e, he⟩ := sp.ext
  have ha : a < h.length := by
    cases fuel with
    | zero => simp [cloneAddr] at hc
    | succ f =>
      simp only [cloneAddr] at hc
      cases hcell : h[a]? with
      | none => simp [hcell] at hc
      | some c => exact lt_length_of_getElem? hcell
  rw [he]
  exact unfold_ext hwf e n a ha

/-- **Faithful (full strength, for tables without a `needs` guard).** Whenever cloning succeeds the
copy unfolds to the same tree as the original at every depth.  Applies to the generated table as soon
as `Measurement.Clone` is repaired (`noNeeds Gen.cloneTable` then holds by `decide`); today it applies
to every routine that does not go through `Measurement.Clone`. -/
theorem clone_faithful {t : List Row} {ifaces} (hT : tableOK t ifaces = true) (hN : noNeeds t = true)
    {fuel via : Nat} {h h' : Heap} {a a' : Nat} {q : Bool}
    (hwf : WF h) (hc : cloneAddr t fuel via h a = some (h', a', q)) :
    ∀ n, unfold n h' a' = unfold n h a := by
  intro n
  have hq : q = false := cloneAddr_noflag hN fuel via h a h' a' q hc
  subst hq
  exact (clone_faithful_partial hT hwf hc n).1

/-- **Disjoint.** For every table that shares no reference to a mutable cell: nothing reachable
from the copy is reachable from the original (in the heap after cloning), whatever the heap. -/
theorem clone_disjoint {t : List Row} {ifaces} (hT : tableOK t ifaces = true)
    {fuel via : Nat} {h h' : Heap} {a a' : Nat} {q : Bool}
    (hwf : WF h) (hc : cloneAddr t fuel via h a = some (h', a', q)) :
    ∀ x, Reach h' a' x → ¬ Reach h' a x := by
  intro x hx hox
  have sp := cloneAddr_spec t fuel via h a h' a' q hwf hc
  obtain ⟨e, he⟩ := sp.ext
  have hnew : h.length ≤ x := Reach.ge_of_newClosed (sp.closed (tableOK_noSharedRefs hT)) hx sp.lo
  have ha : a < h.length := by
    cases fuel with
    | zero => simp [cloneAddr] at hc
    | succ f =>
      simp only [cloneAddr] at hc
      cases hcell : h[a]? with
      | none => simp [hcell] at hc
      | some c => exact lt_length_of_getElem? hcell
  subst he
  have hold : x < h.length := (Reach.of_ext hwf e hox ha).lt_length hwf ha
  omega

/-- Today's rows of `Measurement.Clone` (routine 0) and of the literal it builds for `Regex`
(routine 1), copied by hand so that the counterexample below stays a theorem after a repair of /repo
(`gen_needs_guards` says where the guard sits in the regenerated table). -/
def witnessTable : List Row := [
  { routine := 0, ty := 10, fields := [
      { name := "Database".toList, kind := .string, treat := .copied },
      { name := "RetentionPolicy".toList, kind := .string, treat := .copied },
      { name := "Name".toList, kind := .string, treat := .copied },
      { name := "Regex".toList, kind := .ptrNode 14, treat := .deep 1 (.needs 0) },
      { name := "IsTarget".toList, kind := .scalar, treat := .copied },
      { name := "SystemIterator".toList, kind := .string, treat := .copied } ] },
  { routine := 1, ty := 14, fields := [
      { name := "Val".toList, kind := .ptrLib "regexp.Regexp".toList, treat := .deepLib } ] } ]

/-- The kernel-checked counterexample behind the word *partial*: a `Measurement` whose `Regex`
points to a `RegexLiteral` with nil `Val`, cloned by the row of `Measurement.Clone`: the copy has
`Regex = nil`, the interpreter raises the flag, and the unfoldings differ. -/
theorem clone_unfaithful_witness :
    let h : Heap := [⟨some 14, [.lib none]⟩,
                     ⟨some 10, [.val 0, .val 0, .val 1, .ref (some 0), .val 0, .val 0]⟩]
    let h' := h ++ [⟨some 10, [.val 0, .val 0, .val 1, .ref none, .val 0, .val 0]⟩]
    tableOK witnessTable [] = true ∧
    cloneAddr witnessTable 3 0 h 1 = some (h', 2, true) ∧
    (unfold 2 h' 2).isSome = true ∧ (unfold 2 h 1).isSome = true ∧
    (match unfold 2 h' 2, unfold 2 h 1 with
     | some (.node _ (_ :: _ :: _ :: .nil :: _)), some (.node _ (_ :: _ :: _ :: .node _ _ :: _)) => true
     | _, _ => false) = true := by
  decide

/-- The regenerated table behaves the same on that heap as long as it contains the guard. -/
theorem gen_witness_or_repaired :
    noNeeds Gen.cloneTable = true ∨
    (let h : Heap := [⟨some 14, [.lib none]⟩,
                      ⟨some 10, [.val 0, .val 0, .val 1, .ref (some 0), .val 0, .val 0]⟩]
     (Gen.routineNames.idxOf "Measurement.Clone".toList < Gen.routineNames.length ∧
      ((cloneAddr Gen.cloneTable 3 (Gen.routineNames.idxOf "Measurement.Clone".toList) h 1).map (·.2.2)) = some true)) := by
  decide

/-! ### Frame: later changes to one side are invisible to the other -/

/-- **Frame.** If nothing reachable from `a` is reachable from `b`, then any history of writes that
stays inside what `a` reaches (overwriting fields of those cells with values, nils, references to
those cells or to cells allocated on the way) leaves every unfolding of `b` unchanged.  By induction
on the history: any length. -/
theorem frame {h : Heap} (hwf : WF h) {a b : Nat} (hb : b < h.length)
    (hdis : ∀ x, Reach h a x → ¬ Reach h b x) {ws : List Write} (hconf : Confined (Reach h a) h ws) :
    ∀ n, unfold n (applyAll h ws) b = unfold n h b := by
  intro n
  have hcells := frame_cells ws (Reach h a) (Reach h b) h
    (fun x hx => hx.lt_length hwf hb) hdis hconf
  exact unfold_of_cells_eq (B := Reach h b)
    (fun x c hx hc r hr => hx.trans (.step hc hr (.refl r))) hcells n b (.refl b)

/-- **Mutating the clone never shows in the original**, for any table satisfying `TableOK`, any
heap, any history confined to the clone. -/
theorem mutate_clone_invisible {t : List Row} {ifaces} (hT : tableOK t ifaces = true)
    {fuel via : Nat} {h h' : Heap} {a a' : Nat} {q : Bool}
    (hwf : WF h) (hc : cloneAddr t fuel via h a = some (h', a', q))
    {ws : List Write} (hconf : Confined (Reach h' a') h' ws) :
    ∀ n, unfold n (applyAll h' ws) a = unfold n h a := by
  intro n
  have sp := cloneAddr_spec t fuel via h a h' a' q hwf hc
  obtain ⟨e, he⟩ := sp.ext
  have ha : a < h.length := by
    cases fuel with
    | zero => simp [cloneAddr] at hc
    | succ f =>
      simp only [cloneAddr] at hc
      cases hcell : h[a]? with
      | none => simp [hcell] at hc
      | some c => exact lt_length_of_getElem? hcell
  have ha' : a < h'.length := by rw [he]; simp; omega
  rw [frame sp.wf ha' (clone_disjoint hT hwf hc) hconf n, he]
  exact unfold_ext hwf e n a ha

/-- **Mutating the original never shows in the clone.** -/
theorem mutate_original_invisible {t : List Row} {ifaces} (hT : tableOK t ifaces = true)
    {fuel via : Nat} {h h' : Heap} {a a' : Nat} {q : Bool}
    (hwf : WF h) (hc : cloneAddr t fuel via h a = some (h', a', q))
    {ws : List Write} (hconf : Confined (Reach h' a) h' ws) :
    ∀ n, unfold n (applyAll h' ws) a' = unfold n h' a' := by
  have sp := cloneAddr_spec t fuel via h a h' a' q hwf hc
  exact frame sp.wf sp.hi (fun x hx hx' => clone_disjoint hT hwf hc x hx' hx) hconf

/-- **Any interleaving of changes to both sides.** `a` and `b` reach disjoint parts of a
well-formed heap; the two sides take turns, in any order and for any number of steps, each
overwriting fields of its own cells (with values, nils, references to its own cells) and
allocating new cells.  Then what `a` unfolds to at the end is exactly what it would unfold to had
only its own writes happened (`projLeft` drops the other side's writes, keeping a placeholder for
each of its allocations so that addresses stay comparable): the other side's history is invisible. -/
theorem interleaved_invisible {h : Heap} (hwf : WF h) {a b : Nat} (ha : a < h.length) (hb : b < h.length)
    (hdis : ∀ x, Reach h a x → ¬ Reach h b x) {ws : List (Bool × Write)}
    (hconf : Confined2 (Reach h a) (Reach h b) h ws) :
    ∀ n, unfold n (applyAll h (ws.map Prod.snd)) a = unfold n (applyAll h (projLeft ws)) a := by
  intro n
  obtain ⟨A', hsub, hcells, hcl⟩ := interleaved_left ws (Reach h a) (Reach h b) h h rfl (fun _ _ => rfl)
    (fun x hx => hx.lt_length hwf ha) (fun x hx => hx.lt_length hwf hb) hdis
    (fun x c hx hc r hr => hx.trans (.step hc hr (.refl r))) hconf
  exact unfold_of_cells_eq (B := A') hcl hcells n a (hsub a (.refl a))

/-- The same for the other side. -/
theorem interleaved_invisible_right {h : Heap} (hwf : WF h) {a b : Nat} (ha : a < h.length) (hb : b < h.length)
    (hdis : ∀ x, Reach h a x → ¬ Reach h b x) {ws : List (Bool × Write)}
    (hconf : Confined2 (Reach h a) (Reach h b) h ws) :
    ∀ n, unfold n (applyAll h (ws.map Prod.snd)) b = unfold n (applyAll h (projLeft (swapSides ws))) b := by
  intro n
  have := interleaved_invisible hwf hb ha (fun x hx hx' => hdis x hx' hx) (Confined2.swap ws _ _ h hconf) n
  rwa [swapSides_snd] at this

/-- The generated table: clones made by the routines of /repo are disjoint from their original and
(when no empty regex literal hangs off a measurement) unfold to the same tree. -/
theorem gen_clone_faithful_disjoint {fuel via : Nat} {h h' : Heap} {a a' : Nat} {q : Bool}
    (hwf : WF h) (hc : cloneAddr Gen.cloneTable fuel via h a = some (h', a', q)) :
    (∀ x, Reach h' a' x → ¬ Reach h' a x) ∧
    (q = false → ∀ n, unfold n h' a' = unfold n h a) := by
  refine ⟨clone_disjoint gen_tableOK hwf hc, ?_⟩
  intro hq n
  subst hq
  exact (clone_faithful_partial gen_tableOK hwf hc n).1

/-! ### The read-only operations: reviewed store inventory -/

/-- Reviewer's verdict on a store whose base the syntactic analysis could not prove fresh. -/
inductive Verdict where
  /-- the written object was allocated in the same call (or by the caller of a private visitor) and
      is not part of the AST the operation was called on -/
  | fresh
  /-- the written object belongs to the result of a clone routine called on the receiver -/
  | cloneDerived
  deriving DecidableEq, Repr

/-- The reviewed list: every heap store with a non-fresh base in the 246 functions reachable from
`Reduce`, `RewriteFields`, evaluation, printing, names, privileges, `Clone*`, `Walk` — with the
reason it does not write to the receiver's AST.

* `SelectStatement.Clone` ×3: `clone` is the local copy `*s`; its slice fields were re-made with
  `make` just above (the extractor of `Gen.Clone` insists on that shape), so `append` writes a
  fresh backing array.
* `SelectStatement.Reduce` ×3, `RewriteFields` (`src`, `call`, `other`): derived from `s.Clone()` /
  `CloneExpr`.
* `RewriteFields: ref.Type = typ`: the closure is passed only to `WalkFunc(other.Fields, …)` and
  `WalkFunc(other.Condition, …)`, `other := s.Clone()`.
* `SelectStatement.RequiredPrivileges: ep = append(ep, …)`: `ep` is the slice built by
  `Sources.RequiredPrivileges` from a nil slice; `delete(dimensionSet, …)`: the map made by `FieldDimensions`.
* the three `Visit` methods write to their own visitor object, allocated by `BinaryExprName`,
  `ContainsVarRef` and the parser (`validateField` is in the closure only because interface calls
  are resolved by method name). -/
def reviewedStores : List (Store × Verdict) := [
  (⟨"SelectStatement.Clone".toList, "clone.Fields = append(clone.Fields, &Field{Expr: CloneExpr(f.Expr), Alia…".toList, .receiver⟩, .fresh),
  (⟨"SelectStatement.Clone".toList, "clone.Dimensions = append(clone.Dimensions, &Dimension{Expr: CloneExpr(d…".toList, .receiver⟩, .fresh),
  (⟨"SelectStatement.Clone".toList, "clone.SortFields = append(clone.SortFields, &SortField{Name: f.Name, Asc…".toList, .receiver⟩, .fresh),
  (⟨"SelectStatement.Reduce".toList, "stmt.Condition = Reduce(stmt.Condition, valuer)".toList, .clone⟩, .cloneDerived),
  (⟨"SelectStatement.Reduce".toList, "d.Expr = Reduce(d.Expr, valuer)".toList, .clone⟩, .cloneDerived),
  (⟨"SelectStatement.Reduce".toList, "source.Statement = source.Statement.Reduce(valuer)".toList, .clone⟩, .cloneDerived),
  (⟨"SelectStatement.RequiredPrivileges".toList, "ep = append(ep, ExecutionPrivilege{Admin: false, Name: s.Target.Measurem…".toList, .call⟩, .fresh),
  (⟨"SelectStatement.RewriteFields".toList, "src.Statement = stmt".toList, .clone⟩, .cloneDerived),
  (⟨"SelectStatement.RewriteFields".toList, "ref.Type = typ".toList, .closureParam⟩, .cloneDerived),
  (⟨"SelectStatement.RewriteFields".toList, "delete(dimensionSet, expr.Val)".toList, .call⟩, .fresh),
  (⟨"SelectStatement.RewriteFields".toList, "call.Args[0] = &VarRef{Val: ref.Val, Type: ref.Type}".toList, .clone⟩, .cloneDerived),
  (⟨"SelectStatement.RewriteFields".toList, "other.Fields = rwFields".toList, .clone⟩, .cloneDerived),
  (⟨"SelectStatement.RewriteFields".toList, "other.Dimensions = rwDimensions".toList, .clone⟩, .cloneDerived),
  (⟨"binaryExprNameVisitor.Visit".toList, "v.names = append(v.names, n.Val)".toList, .receiver⟩, .fresh),
  (⟨"binaryExprNameVisitor.Visit".toList, "v.names = append(v.names, n.Name)".toList, .receiver⟩, .fresh),
  (⟨"containsVarRefVisitor.Visit".toList, "v.contains = true".toList, .receiver⟩, .fresh),
  (⟨"validateField.Visit".toList, "c.foundInvalid = true".toList, .receiver⟩, .fresh),
  (⟨"validateField.Visit".toList, "c.badToken = e.Op".toList, .receiver⟩, .fresh)
]

/-- The store inventory regenerated from /repo equals the reviewed list: no read-only operation has
gained a store to anything but fresh or clone-derived objects. -/
theorem gen_readOnly_stores_reviewed : Gen.readOnlyStores = reviewedStores.map (·.1) := by decide

/-- Stores whose base the analysis itself classifies as clone-derived are reviewed as such. -/
theorem reviewed_consistent :
    (reviewedStores.all fun (s, v) => !(s.base == .clone) || v == .cloneDerived) = true := by decide

/-- None of the in-place rewrites (nor the memoising `GroupByInterval`) is reachable from the
read-only operations. -/
theorem gen_readOnly_excludes_inPlace :
    (Gen.inPlaceFuncs.all fun f => !Gen.readOnlyFuncs.contains f) = true := by decide

/-- The analysis is not blind: on the in-place rewrites it reports stores through the receiver,
through parameters and through closure parameters. -/
theorem gen_inPlace_detected :
    (Gen.inPlaceStores.any (·.base == .receiver) && Gen.inPlaceStores.any (·.base == .param) &&
     Gen.inPlaceStores.any (·.base == .closureParam)) = true := by decide

/-! ### Non-vacuity -/

/-- Struct / routine ids by name (so that the sample survives new types and routines in /repo). -/
def sid (n : String) : Option Nat := some (Gen.structNames.idxOf n.toList)
def rid (n : String) : Nat := Gen.routineNames.idxOf n.toList

/-- `SELECT v INTO t FROM /m/ WHERE (v)` laid out as a heap (values are opaque codes). -/
def sampleHeap : Heap := [
  ⟨sid "VarRef", [.val 1, .val 0]⟩,                                   -- 0 VarRef v
  ⟨sid "Field", [.ref (some 0), .val 0]⟩,                             -- 1 Field
  ⟨none, [.ref (some 1)]⟩,                                            -- 2 Fields backing array
  ⟨sid "Measurement", [.val 0, .val 0, .val 2, .ref none, .val 1, .val 0]⟩, -- 3 Measurement t (target)
  ⟨sid "Target", [.ref (some 3)]⟩,                                    -- 4 Target
  ⟨sid "RegexLiteral", [.lib (some 5)]⟩,                              -- 5 RegexLiteral /m/
  ⟨sid "Measurement", [.val 0, .val 0, .val 0, .ref (some 5), .val 0, .val 0]⟩, -- 6 Measurement /m/
  ⟨none, [.ref (some 6)]⟩,                                            -- 7 Sources backing array
  ⟨sid "VarRef", [.val 1, .val 0]⟩,                                   -- 8 VarRef v
  ⟨sid "ParenExpr", [.ref (some 8)]⟩,                                 -- 9 ParenExpr
  ⟨sid "SelectStatement",
    [.ref (some 2), .ref (some 4), .ref none, .ref (some 7), .ref (some 9), .ref none,
     .val 0, .val 0, .val 0, .val 0, .val 0, .val 1, .val 0, .val 0, .lib none,
     .val 0, .val 0, .val 0, .val 0, .val 0]⟩                          -- 10 SelectStatement
]

/-- The interpreter succeeds on the sample with the generated row of `SelectStatement.Clone`,
allocates eleven cells, puts the copy at address 21 and raises no flag. -/
example : (cloneAddr Gen.cloneTable 6 (rid "SelectStatement.Clone") sampleHeap 10).map (fun r => (r.1.length, r.2))
    = some (22, 21, false) := by
  decide

/-- A write to the clone's condition (`Confined` history of length two with an allocation). -/
example : Confined (fun x => x = 20 ∨ x = 19) (sampleHeap ++ sampleHeap)
    [.alloc ⟨some 1, [.val 1]⟩, .set 20 0 (.ref (some 22))] := by
  refine ⟨?_, ?_, ?_, trivial⟩
  · intro r hr; simp at hr
  · exact Or.inl (Or.inl rfl)
  · intro r hr
    cases hr
    exact Or.inr rfl

/-- With a table that shares a reference, disjointness really fails (so `TableOK` matters). -/
example :
    let t : List Row := [⟨0, 0, [⟨[], .ptrNode 1, .shared⟩]⟩]
    let h : Heap := [⟨some 1, []⟩, ⟨some 0, [.ref (some 0)]⟩]
    cloneAddr t 1 0 h 1 = some (h ++ [⟨some 0, [.ref (some 0)]⟩], 2, false) ∧ noSharedRefs t = false := by
  decide

/-! ### Clone-before-modify operations as heap programs (`Model/HeapOps.lean`)

`SelectStatement.Reduce` and `SelectStatement.RewriteFields` are `other := s.Clone()` followed by
stores into objects found by following fields from `other`.  Below: the field / type numbers the
transcriptions use, resolved by name in the regenerated table; the obligations that the stores the
transcriptions perform are exactly the regenerated inventory's stores of the two functions; and the
theorems that such a call leaves the statement it is called on exactly as it was. -/

def tyId (n : String) : Nat := Gen.structNames.idxOf n.toList

/-- Position of a field in the generated row of (routine, struct), by name. -/
def fieldIx? (routine ty name : String) : Option Nat :=
  match findRow Gen.cloneTable (rid routine) (tyId ty) with
  | some r =>
    let i := r.fields.findIdx fun f => f.name == name.toList
    if i < r.fields.length then some i else none
  | none => none

def fieldIx (routine ty name : String) : Nat := (fieldIx? routine ty name).getD 0

/-- The numbers used by the transcribed bodies, all looked up by name in `Gen.Clone`. -/
def genIx : Ix where
  tySubQuery := tyId "SubQuery"
  tyVarRef := tyId "VarRef"
  tyCall := tyId "Call"
  tyBinaryExpr := tyId "BinaryExpr"
  tyParenExpr := tyId "ParenExpr"
  tyField := tyId "Field"
  cloneExpr := rid "CloneExpr"
  fields := fieldIx "SelectStatement.Clone" "SelectStatement" "Fields"
  dimensions := fieldIx "SelectStatement.Clone" "SelectStatement" "Dimensions"
  sources := fieldIx "SelectStatement.Clone" "SelectStatement" "Sources"
  condition := fieldIx "SelectStatement.Clone" "SelectStatement" "Condition"
  isRawQuery := fieldIx "SelectStatement.Clone" "SelectStatement" "IsRawQuery"
  timeAlias := fieldIx "SelectStatement.Clone" "SelectStatement" "TimeAlias"
  dimExpr := fieldIx "SelectStatement.Clone/Dimensions[]" "Dimension" "Expr"
  fieldExpr := fieldIx "SelectStatement.Clone/Fields[]" "Field" "Expr"
  subStatement := fieldIx "cloneSource" "SubQuery" "Statement"
  varRefType := fieldIx "CloneExpr" "VarRef" "Type"
  callArgs := fieldIx "CloneExpr" "Call" "Args"
  binOp := fieldIx "CloneExpr" "BinaryExpr" "Op"
  binLHS := fieldIx "CloneExpr" "BinaryExpr" "LHS"
  binRHS := fieldIx "CloneExpr" "BinaryExpr" "RHS"
  parenExpr := fieldIx "CloneExpr" "ParenExpr" "Expr"

/-- Routine `SelectStatement.Clone` of the generated table. -/
def selectClone : Nat := rid "SelectStatement.Clone"

/-- Every name `genIx` looks up exists in the regenerated table (a renamed field or routine in /repo
breaks this). -/
theorem gen_ix_resolved :
    ((["SubQuery", "VarRef", "Call", "BinaryExpr", "ParenExpr", "Field", "SelectStatement", "Dimension"].all
        fun n => decide (tyId n < Gen.structNames.length)) &&
     (["CloneExpr", "SelectStatement.Clone"].all fun n => decide (rid n < Gen.routineNames.length)) &&
     ([("SelectStatement.Clone", "SelectStatement", "Fields"), ("SelectStatement.Clone", "SelectStatement", "Dimensions"),
       ("SelectStatement.Clone", "SelectStatement", "Sources"), ("SelectStatement.Clone", "SelectStatement", "Condition"),
       ("SelectStatement.Clone", "SelectStatement", "IsRawQuery"), ("SelectStatement.Clone", "SelectStatement", "TimeAlias"),
       ("SelectStatement.Clone/Dimensions[]", "Dimension", "Expr"), ("SelectStatement.Clone/Fields[]", "Field", "Expr"),
       ("cloneSource", "SubQuery", "Statement"), ("CloneExpr", "VarRef", "Type"), ("CloneExpr", "Call", "Args"),
       ("CloneExpr", "BinaryExpr", "Op"), ("CloneExpr", "BinaryExpr", "LHS"), ("CloneExpr", "BinaryExpr", "RHS"),
       ("CloneExpr", "ParenExpr", "Expr")].all fun (r, t, f) => (fieldIx? r t f).isSome)) = true := by
  decide

def storesOf (fn : String) (l : List Store) : List Store := l.filter fun s => s.fn == fn.toList

/-- **The stores the heap program of `SelectStatement.Reduce` performs are exactly the stores the
regenerated inventory lists for that function**, each with base `clone` (derived from `s.Clone()`).
A new store in /repo — in particular one whose base is the receiver — breaks this equality. -/
theorem gen_reduce_stores_modelled :
    storesOf "SelectStatement.Reduce" Gen.readOnlyStores = (reduceBody genIx).stores := by decide

/-- The same for `SelectStatement.RewriteFields` (bases `clone`; `closureParam` for the closure passed
to `WalkFunc(other.Fields / other.Condition, …)`; `call` for `delete` on the map made by
`FieldDimensions`, which is a `note`: not a cell of the heap model). -/
theorem gen_rewriteFields_stores_modelled :
    storesOf "SelectStatement.RewriteFields" Gen.readOnlyStores = (rewriteFieldsBody genIx).stores := by decide

/-- The transcribed stores are the entries of the reviewed list for the two functions, with the
reviewed verdicts; none has base `receiver` or `param`. -/
theorem modelled_stores_reviewed :
    (reviewedStores.filter fun p =>
        p.1.fn == "SelectStatement.Reduce".toList || p.1.fn == "SelectStatement.RewriteFields".toList)
      = ((reduceBody genIx).stores ++ (rewriteFieldsBody genIx).stores).map
          (fun s => (s, if s.base == .call then Verdict.fresh else Verdict.cloneDerived)) ∧
    (((reduceBody genIx).stores ++ (rewriteFieldsBody genIx).stores).all
        fun s => s.base != .receiver && s.base != .param && s.base != .global) = true := by
  decide

def isReduceFn (fn : List Char) : Bool :=
  fn == "Reduce".toList || "reduce".toList.isPrefixOf fn || fn == "asLiteral".toList

/-- The inventory side of the assumption `Oracle.Adm` for `Reduce`: the package-level `Reduce`,
`reduce`, the `reduce…` helpers and `asLiteral` are in the analysed closure and contain no store with
a non-fresh base at all — they only build new nodes (what they *return* is the assumption). -/
theorem gen_reduce_family_storeless :
    (Gen.readOnlyStores.all fun s => !isReduceFn s.fn) = true ∧
    (["Reduce", "reduce", "reduceBinaryExpr", "reduceCall", "reduceParenExpr", "reduceVarRef", "asLiteral",
      "CloneExpr"].all fun n => Gen.readOnlyFuncs.contains n.toList) = true := by
  decide

/-- The in-place rewrites: the stores their transcriptions perform are the inventory's. -/
theorem gen_inPlace_stores_modelled :
    storesOf "RewriteExpr" Gen.inPlaceStores = (rewriteExprBody genIx).stores ∧
    storesOf "SelectStatement.RewriteRegexConditions" Gen.inPlaceStores
      = storesOf "SelectStatement.RewriteRegexConditions" (rewriteRegexConditionsBody genIx).stores ∧
    storesOf "SelectStatement.RewriteDistinct" Gen.inPlaceStores = (rewriteDistinctBody genIx).stores ∧
    storesOf "SelectStatement.RewriteTimeFields" Gen.inPlaceStores = (rewriteTimeFieldsBody genIx).stores ∧
    storesOf "SelectStatement.SetTimeRange" Gen.inPlaceStores = (setTimeRangeBody genIx).stores := by
  decide

/-- **Clone-before-modify leaves the receiver alone** — for every table satisfying `TableOK`, every
body written in `Prog`, every nesting depth, every well-formed heap, every statement address and
every oracle whose values point only to cells allocated since the call began (`Oracle.Adm`): after a
run that does not panic (whether it returns the clone or an error),

* every unfolding of `s`, at every depth, is what it was before the call;
* nothing reachable from the returned statement is reachable from `s`;
* the history of writes after the clone is `Confined` to the cells allocated since the call began
  (the clone's cells and newer ones), so the first claim is the frame lemma (`frame_cells`);
* the run began with the clone of `s` made by the table's routine. -/
theorem cloneBeforeModify_leaves_receiver {t : List Row} {ifaces} (hT : tableOK t ifaces = true)
    {fuel depth via : Nat} {body : Prog} {O : Oracle} {h : Heap} (hwf : WF h) (hO : O.Adm h.length)
    {s : Nat} {h1 : Heap} {other : Nat} {ws : List Write} {ok : Bool}
    (hrun : runOp t fuel O via body depth h s = some (h1, other, ws, ok)) :
    (∀ n, unfold n (applyAll h1 ws) s = unfold n h s) ∧
    (∀ x, Reach (applyAll h1 ws) other x → ¬ Reach (applyAll h1 ws) s x) ∧
    Confined (fun x => h.length ≤ x) h1 ws ∧
    (∃ q, cloneAddr t fuel via h s = some (h1, other, q)) := by
  obtain ⟨q, hcl⟩ := runOp_clone hrun
  have hs := cloneAddr_lt hcl
  obtain ⟨g, happ, hret, _⟩ :=
    runOp_good (tableOK_noSharedRefs hT) hO via body depth h s h1 other ws ok (Inv.start hwf) hrun
  have hr := good_receiver hwf g hs
  rw [applyAll_append, happ] at hr
  exact ⟨hr.1, hr.2 other hret, Above.confined ws h1 g.1.right, q, hcl⟩

/-- **`SelectStatement.Reduce` leaves the statement it is called on exactly as it was**, subqueries
to any depth included: for the transcription `reduceBody` (whose stores are the inventory's:
`gen_reduce_stores_modelled`) on the regenerated clone table.  `O` supplies the results of
`Reduce(expr, valuer)`; the assumption `O.Adm h.length` says they are made of new nodes and nodes of
the clone. -/
theorem reduce_leaves_receiver {fuel depth : Nat} {O : Oracle} {h : Heap} (hwf : WF h)
    (hO : O.Adm h.length) {s : Nat} {h1 : Heap} {stmt : Nat} {ws : List Write} {ok : Bool}
    (hrun : runOp Gen.cloneTable fuel O selectClone (reduceBody genIx) depth h s = some (h1, stmt, ws, ok)) :
    (∀ n, unfold n (applyAll h1 ws) s = unfold n h s) ∧
    (∀ x, Reach (applyAll h1 ws) stmt x → ¬ Reach (applyAll h1 ws) s x) :=
  let r := cloneBeforeModify_leaves_receiver gen_tableOK hwf hO hrun
  ⟨r.1, r.2.1⟩

/-- **`SelectStatement.RewriteFields` leaves the statement it is called on exactly as it was**,
whether it returns the rewritten clone or an error, subqueries to any depth included. -/
theorem rewriteFields_leaves_receiver {fuel depth : Nat} {O : Oracle} {h : Heap} (hwf : WF h)
    (hO : O.Adm h.length) {s : Nat} {h1 : Heap} {other : Nat} {ws : List Write} {ok : Bool}
    (hrun : runOp Gen.cloneTable fuel O selectClone (rewriteFieldsBody genIx) depth h s = some (h1, other, ws, ok)) :
    (∀ n, unfold n (applyAll h1 ws) s = unfold n h s) ∧
    (∀ x, Reach (applyAll h1 ws) other x → ¬ Reach (applyAll h1 ws) s x) :=
  let r := cloneBeforeModify_leaves_receiver gen_tableOK hwf hO hrun
  ⟨r.1, r.2.1⟩

/-- The statement the two operations start from is the clone of the first sentence: disjoint from `s`
always, and (partial: when no `needs` guard fired, `q = false`) with the same unfoldings as `s`; the
history then modifies only that clone and newer cells. -/
theorem cloneBeforeModify_starts_from_clone_partial {fuel depth : Nat} {body : Prog} {O : Oracle}
    {h : Heap} (hwf : WF h) {s : Nat} {h1 : Heap} {other : Nat} {ws : List Write} {ok : Bool}
    (hrun : runOp Gen.cloneTable fuel O selectClone body depth h s = some (h1, other, ws, ok)) :
    ∃ q, cloneAddr Gen.cloneTable fuel selectClone h s = some (h1, other, q) ∧
      (∀ x, Reach h1 other x → ¬ Reach h1 s x) ∧
      (q = false → ∀ n, unfold n h1 other = unfold n h s) := by
  obtain ⟨q, hcl⟩ := runOp_clone hrun
  exact ⟨q, hcl, gen_clone_faithful_disjoint hwf hcl⟩

/-- **An in-place rewrite applied to the result leaves the original alone.** `p` is any body run on
the returned statement itself (no clone): `RewriteRegexConditions`, `RewriteDistinct`,
`RewriteTimeFields`, `SetTimeRange` are `rewriteRegexConditionsBody`, … (stores = inventory:
`gen_inPlace_stores_modelled`; their bases are `receiver` / `param` / `closureParam`, and the receiver
now is `other`). -/
theorem inPlace_on_result_leaves_receiver {t : List Row} {ifaces} (hT : tableOK t ifaces = true)
    {fuel depth via : Nat} {body : Prog} {O : Oracle} {h : Heap} (hwf : WF h) (hO : O.Adm h.length)
    {s : Nat} {h1 : Heap} {other : Nat} {ws : List Write} {ok : Bool}
    (hrun : runOp t fuel O via body depth h s = some (h1, other, ws, ok))
    (p : Prog) {fuel' : Nat} {ws2 : List Write} {b : Bool}
    (hip : runInPlace t fuel' O p (applyAll h1 ws) other = some (ws2, b)) :
    (∀ n, unfold n (applyAll (applyAll h1 ws) ws2) s = unfold n h s) ∧
    (∀ x, Reach (applyAll (applyAll h1 ws) ws2) other x → ¬ Reach (applyAll (applyAll h1 ws) ws2) s x) := by
  obtain ⟨q, hcl⟩ := runOp_clone hrun
  have hs := cloneAddr_lt hcl
  have hS := tableOK_noSharedRefs hT
  obtain ⟨g, happ, hret, _⟩ := runOp_good hS hO via body depth h s h1 other ws ok (Inv.start hwf) hrun
  have hfin : applyAll h (allocsSince h h1 ++ ws) = applyAll h1 ws := by rw [applyAll_append, happ]
  have hnone : GoodSelf h.length (fun _ _ => none) := by
    intro _ _ _ _ _ _ _ hc
    cases hc
  have g2 := exec_good hS hO hnone p (applyAll h1 ws) other ws2 b (hfin ▸ g.2) hret hip
  have hr := good_receiver hwf (g.append (hfin ▸ g2)) hs
  rw [applyAll_append, hfin] at hr
  exact ⟨hr.1, hr.2 other hret⟩

/-- The four in-place rewrites of the property's text, on the result of `Reduce` or `RewriteFields`. -/
theorem inPlaceRewrites_on_result_leave_receiver {fuel depth : Nat} {body : Prog} {O : Oracle} {h : Heap}
    (hwf : WF h) (hO : O.Adm h.length) {s : Nat} {h1 : Heap} {other : Nat} {ws : List Write} {ok : Bool}
    (hrun : runOp Gen.cloneTable fuel O selectClone body depth h s = some (h1, other, ws, ok))
    {p : Prog} (_hp : p ∈ [rewriteRegexConditionsBody genIx, rewriteDistinctBody genIx,
      rewriteTimeFieldsBody genIx, setTimeRangeBody genIx])
    {fuel' : Nat} {ws2 : List Write} {b : Bool}
    (hip : runInPlace Gen.cloneTable fuel' O p (applyAll h1 ws) other = some (ws2, b)) :
    ∀ n, unfold n (applyAll (applyAll h1 ws) ws2) s = unfold n h s :=
  (inPlace_on_result_leaves_receiver gen_tableOK hwf hO hrun p hip).1

/-! ### Non-vacuity of the heap programs -/

/-- `SELECT v FROM (SELECT w FROM m WHERE (w)) WHERE (v) GROUP BY t` laid out as a heap. -/
def subHeap : Heap := [
  ⟨sid "VarRef", [.val 2, .val 0]⟩,                                   -- 0 VarRef w
  ⟨sid "Field", [.ref (some 0), .val 0]⟩,                             -- 1 Field
  ⟨none, [.ref (some 1)]⟩,                                            -- 2 inner Fields
  ⟨sid "Measurement", [.val 0, .val 0, .val 3, .ref none, .val 0, .val 0]⟩, -- 3 Measurement m
  ⟨none, [.ref (some 3)]⟩,                                            -- 4 inner Sources
  ⟨sid "VarRef", [.val 2, .val 0]⟩,                                   -- 5 VarRef w
  ⟨sid "ParenExpr", [.ref (some 5)]⟩,                                 -- 6 (w)
  ⟨sid "SelectStatement",
    [.ref (some 2), .ref none, .ref none, .ref (some 4), .ref (some 6), .ref none,
     .val 0, .val 0, .val 0, .val 0, .val 0, .val 1, .val 0, .val 0, .lib none,
     .val 0, .val 0, .val 0, .val 0, .val 0]⟩,                         -- 7 inner SelectStatement
  ⟨sid "SubQuery", [.ref (some 7)]⟩,                                  -- 8 SubQuery
  ⟨none, [.ref (some 8)]⟩,                                            -- 9 Sources
  ⟨sid "VarRef", [.val 1, .val 0]⟩,                                   -- 10 VarRef v
  ⟨sid "Field", [.ref (some 10), .val 0]⟩,                            -- 11 Field
  ⟨none, [.ref (some 11)]⟩,                                           -- 12 Fields
  ⟨sid "VarRef", [.val 1, .val 0]⟩,                                   -- 13 VarRef v
  ⟨sid "ParenExpr", [.ref (some 13)]⟩,                                -- 14 (v)
  ⟨sid "VarRef", [.val 4, .val 0]⟩,                                   -- 15 VarRef t
  ⟨sid "Dimension", [.ref (some 15)]⟩,                                -- 16 Dimension
  ⟨none, [.ref (some 16)]⟩,                                           -- 17 Dimensions
  ⟨sid "SelectStatement",
    [.ref (some 12), .ref none, .ref (some 17), .ref (some 9), .ref (some 14), .ref none,
     .val 0, .val 0, .val 0, .val 0, .val 0, .val 1, .val 0, .val 0, .lib none,
     .val 0, .val 0, .val 0, .val 0, .val 0]⟩                          -- 18 SelectStatement
]

/-- An oracle: every computed expression is a new `BooleanLiteral`, every computed scalar is 5; the
walk of `RewriteFields` visits `other.Fields[0].Expr`; every conditional is taken; no error. -/
def sampleOracle : Oracle where
  build := fun h a _ =>
    if (h[a]?.map (·.ty)) = some (sid "VarRef") then ⟨[], .val 5⟩
    else ⟨[⟨sid "BooleanLiteral", [.val 1]⟩], .ref (some h.length)⟩
  index := fun _ _ => 0
  visit := fun _ _ site => if site = 0 then [[genIx.fields, 0, genIx.fieldExpr]] else [[]]
  fails := fun _ _ => false

/-- The sample oracle is admissible for every line. -/
theorem sampleOracle_adm (lo : Nat) : sampleOracle.Adm lo := by
  intro h a f hle
  unfold sampleOracle Fresh.Adm
  dsimp only
  split
  · refine ⟨?_, ?_⟩
    · intro c hc
      cases hc
    · intro r hr
      cases hr
  · refine ⟨?_, ?_⟩
    · intro c hc r hr
      cases List.mem_singleton.mp hc
      simp at hr
    · intro r hr
      cases hr
      exact ⟨hle, by simp⟩

theorem subHeap_wf : WF subHeap := wfb_sound (by decide)

/-- `Reduce` on the sample, nesting depth 1: the clone occupies cells 19–37; the history has 15
writes (4 new literals, the 8 cells of the nested clone, 4 stores); the call returns the clone. -/
example : (runOp Gen.cloneTable 8 sampleOracle selectClone (reduceBody genIx) 3 subHeap 18).map
    (fun r => (r.1.length, r.2.1, r.2.2.1.length, r.2.2.2)) = some (38, 37, 15, true) := by
  decide

/-- The four stores, in order: `stmt.Condition`, `d.Expr`, the nested call's `stmt.Condition`,
`source.Statement` — every base is a cell of the clone (≥ 19) or newer. -/
example : (runOp Gen.cloneTable 8 sampleOracle selectClone (reduceBody genIx) 3 subHeap 18).map
    (fun r => r.2.2.1.filterMap fun w => match w with
      | .set a i v => some (a, i, v)
      | .alloc _ => none)
    = some [(37, genIx.condition, .ref (some 38)), (23, genIx.dimExpr, .ref (some 39)),
            (47, genIx.condition, .ref (some 48)), (33, genIx.subStatement, .ref (some 47))] := by
  decide

/-- `RewriteFields` on the sample: 19 writes, among them `ref.Type = typ` on the nested and on the
outer clone's first field, `other.Fields`, `other.Dimensions` on both, `src.Statement`. -/
example : (runOp Gen.cloneTable 8 sampleOracle selectClone (rewriteFieldsBody genIx) 3 subHeap 18).map
    (fun r => (r.1.length, r.2.1, r.2.2.2, r.2.2.1.filterMap fun w => match w with
      | .set a i _ => some (a, i)
      | .alloc _ => none))
    = some (38, 37, true, [(38, genIx.varRefType), (45, genIx.fields), (45, genIx.dimensions),
        (33, genIx.subStatement), (19, genIx.varRefType), (37, genIx.fields), (37, genIx.dimensions)]) := by
  decide

/-- The theorem applied to the sample: whatever the run of `Reduce` returns, statement 18 unfolds
as before. -/
example {h1 : Heap} {stmt : Nat} {ws : List Write} {ok : Bool}
    (hrun : runOp Gen.cloneTable 8 sampleOracle selectClone (reduceBody genIx) 3 subHeap 18 = some (h1, stmt, ws, ok)) :
    ∀ n, unfold n (applyAll h1 ws) 18 = unfold n subHeap 18 :=
  (reduce_leaves_receiver subHeap_wf (sampleOracle_adm _) hrun).1

/-- `RewriteRegexConditions`-shaped in-place body on the result of `Reduce`: it runs, and stores into
cell 37 (the clone). -/
example :
    ((runOp Gen.cloneTable 8 sampleOracle selectClone (reduceBody genIx) 3 subHeap 18).bind fun r =>
      runInPlace Gen.cloneTable 8 sampleOracle (setTimeRangeBody genIx) (applyAll r.1 r.2.2.1) r.2.1).map
      (fun o => o.1.filterMap fun w => match w with
        | .set a i _ => some (a, i)
        | .alloc _ => none)
    = some [(37, genIx.condition)] := by
  decide

/-- The assumption matters: an oracle that hands back a node of the receiver (cell 14, the
receiver's condition) is not admissible, and the statement `Reduce` then returns points into the
receiver. -/
example :
    let bad : Oracle := { sampleOracle with build := fun _ _ _ => ⟨[], .ref (some 14)⟩ }
    ¬ bad.Adm subHeap.length ∧
    (runOp Gen.cloneTable 8 bad selectClone (reduceBody genIx) 3 subHeap 18).map
      (fun r => readRef (applyAll r.1 r.2.2.1) r.2.1 genIx.condition) = some (some (some 14)) := by
  refine ⟨?_, by decide⟩
  intro hadm
  have := (hadm subHeap 0 0 (Nat.le_refl _)).2 14 rfl
  exact absurd this.1 (by decide)

/-- `SELECT mean(*) FROM m`: the `case *Call` branch of `RewriteFields`. -/
def callHeap : Heap := [
  ⟨sid "Wildcard", [.val 0]⟩,                                         -- 0 *
  ⟨none, [.ref (some 0)]⟩,                                            -- 1 Args
  ⟨sid "Call", [.val 7, .ref (some 1)]⟩,                              -- 2 mean(*)
  ⟨sid "Field", [.ref (some 2), .val 0]⟩,                             -- 3 Field
  ⟨none, [.ref (some 3)]⟩,                                            -- 4 Fields
  ⟨sid "Measurement", [.val 0, .val 0, .val 3, .ref none, .val 0, .val 0]⟩, -- 5 Measurement m
  ⟨none, [.ref (some 5)]⟩,                                            -- 6 Sources
  ⟨sid "SelectStatement",
    [.ref (some 4), .ref none, .ref none, .ref (some 6), .ref none, .ref none,
     .val 0, .val 0, .val 0, .val 0, .val 0, .val 1, .val 0, .val 0, .lib none,
     .val 0, .val 0, .val 0, .val 0, .val 0]⟩                          -- 7 SelectStatement
]

/-- The clone is cells 8–15; `template := CloneExpr(expr)` is cells 16–18 (a copy of a node of the
clone); `call.Args[0] = &VarRef{…}` writes slot 0 of the template's argument array (cell 17); then
`other.Fields`, `other.Dimensions`. -/
example : (runOp Gen.cloneTable 8 sampleOracle selectClone (rewriteFieldsBody genIx) 1 callHeap 7).map
    (fun r => (r.1.length, r.2.1, r.2.2.2, r.2.2.1.filterMap fun w => match w with
      | .set a i _ => some (a, i)
      | .alloc _ => none))
    = some (16, 15, true, [(17, 0), (15, genIx.fields), (15, genIx.dimensions)]) := by
  decide

end InfluxQL.Props.C14

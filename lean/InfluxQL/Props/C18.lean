import InfluxQL.Lemmas.SetTimeRange
/-
C18 — SetTimeRange replaces earlier time bounds, over any sequence of windows.

Model: `Model/SetTimeRange.lean` (`rewriteNoTime` = `rewriteWithoutTimeDimensions` before
printing, `setTimeRange` = print → `ParseExpr` → `CReduce(·, nil)`, `setTimeRangeSeq`),
`Model/SetTimeRangeSpec.lean` (`nonTimeHolds`, the class `strClass`, the hypotheses `RT`,
`WindowOK`). The model follows /repo after the fixes 51161c4 (a bound is recognised by a reference
to `time` on either side, in any letter case, typed or not) and 86fc254 (calls are kept). The meaning of a condition at a point is C10's `holds`; by `C10.split_sound` this is
also what `ConditionExpr` observes on the conditions concerned.

Hypotheses, all explicit in the statements:
* `RT` / `RTSeq` — the text `SetTimeRange` prints parses to the tree it was printed from, extended
  by the two bounds (the print → parse round trip of C02/C03 on this fragment; false for an
  unparenthesised top-level `OR`, see `top_level_or_regroups`);
* `WindowOK` — the printed window instants read back exactly;
* `isTimeRef tbl timeVar` — the lower-casing table shipped for non-ASCII runes does not touch the
  letters of `time` (true for every table the harness produces; `by decide` for `[]`).
-/
namespace InfluxQL.C18
open InfluxQL Gen
open InfluxQL.CondTime

/-- **One call.** For a condition of the class (time bounds with `time` — any letter case, any
type annotation — on either side of any operator, other predicates comparing a tag or field with a
reference, literal or call), `SetTimeRange(start, end)` succeeds and the new condition holds at a
point exactly when `start ≤ t < end` and the non-time part of the old condition holds; the new
condition is again in the class, has the same non-time part, and has at most eight nodes more than
the old one. -/
theorem setTimeRange_step (ctx : CCtx) (fa : FloatArith) (c : Expr) (w : Window)
    (hcls : strClass ctx.lowerTbl c = true) (hT : isTimeRef ctx.lowerTbl timeVar = true)
    (hrt : RT ctx.lowerTbl c w) :
    ∃ c', setTimeRange fa ctx.lowerTbl (some c) w = .ok c' ∧ c' = stepSpec fa ctx.lowerTbl c w ∧
      (WindowOK ctx w → ∀ L t, holds ctx L t c' = (w.contains t && nonTimeHolds ctx.lowerTbl L c)) ∧
      strClass ctx.lowerTbl c' = true ∧
      (∀ L, nonTimeHolds ctx.lowerTbl L c' = nonTimeHolds ctx.lowerTbl L c) ∧
      c'.size ≤ c.size + 8 := by
  refine ⟨stepSpec fa ctx.lowerTbl c w, setTimeRange_of_RT ctx.lowerTbl fa c w hcls hrt, rfl, ?_⟩
  obtain ⟨hN, hev, hsz⟩ := ntPart_spec ctx.lowerTbl fa c hcls
  obtain ⟨b1, b2, b3, b4, _⟩ := build_spec ctx fa (ntPart fa ctx.lowerTbl c) w hN hT
  rw [stepSpec_eq]
  refine ⟨?_, b1, ?_, ?_⟩
  · intro hw L t
    rw [show creduce (nilRCtx fa) (rewriteNoTime ctx.lowerTbl c) = ntPart fa ctx.lowerTbl c from rfl, b3 hw L t, hev L]
  · intro L
    rw [show creduce (nilRCtx fa) (rewriteNoTime ctx.lowerTbl c) = ntPart fa ctx.lowerTbl c from rfl, b2 L, hev L]
  · exact Nat.le_trans b4 (by omega)

/-- **One call, as the query engine sees it**: `ConditionExpr` of the new condition succeeds; its
residual has the value of the old non-time part, and its range is exactly `[start, end - 1 ns]`
(unless the non-time part folds to `false`, where the whole condition is `false` and no range is
needed). Window instants must be representable time literals (`MinTime < t ≤ MaxTime`). -/
theorem setTimeRange_observed (ctx : CCtx) (fa : FloatArith) (c : Expr) (w : Window)
    (hcls : strClass ctx.lowerTbl c = true) (hT : isTimeRef ctx.lowerTbl timeVar = true)
    (hrt : RT ctx.lowerTbl c w) (hw : WindowOK ctx w) (hr : w.inRange) :
    ∃ c' res tr, setTimeRange fa ctx.lowerTbl (some c) w = .ok c' ∧
      ConditionExpr ctx (some c') = .ok (res, tr) ∧
      (∀ L, evalOpt L res = nonTimeHolds ctx.lowerTbl L c) ∧
      (ntPart fa ctx.lowerTbl c ≠ .boolean false → tr = ⟨w.start, w.stop - 1⟩) ∧
      (ntPart fa ctx.lowerTbl c = .boolean false → tr = {}) := by
  obtain ⟨hN, hev, _⟩ := ntPart_spec ctx.lowerTbl fa c hcls
  obtain ⟨res, tr, h1, h2, h3, h4⟩ := conditionExpr_build ctx fa (ntPart fa ctx.lowerTbl c) w hN hT hw hr
  refine ⟨stepSpec fa ctx.lowerTbl c w, res, tr, setTimeRange_of_RT ctx.lowerTbl fa c w hcls hrt, ?_, ?_, h3, h4⟩
  · rw [stepSpec_eq]; exact h1
  · intro L; rw [h2 L, hev L]

/-- The condition `k` calls later corresponds to window `k`, for every `k`. -/
def SeqOK (P : Expr → Window → Prop) : List Expr → List Window → Prop
  | [], [] => True
  | c :: cs, w :: ws => P c w ∧ SeqOK P cs ws
  | _, _ => False

theorem SeqOK.imp {P Q : Expr → Window → Prop} (h : ∀ c w, P c w → Q c w) :
    ∀ (cs : List Expr) (ws : List Window), SeqOK P cs ws → SeqOK Q cs ws
  | [], [], _ => trivial
  | c :: cs, w :: ws, ⟨a, b⟩ => ⟨h c w a, SeqOK.imp h cs ws b⟩
  | [], _ :: _, hf => hf.elim
  | _ :: _, [], hf => hf.elim

theorem SeqOK.forall_mem (P : Expr → Window → Prop) :
    ∀ (cs : List Expr) (ws : List Window), SeqOK P cs ws → ∀ c ∈ cs, ∃ w, P c w
  | [], _, _ => fun _ hm => by cases hm
  | _ :: _, [], hf => hf.elim
  | x :: xs, w :: ws, ⟨a, b⟩ => fun c hm => by
    rcases List.mem_cons.mp hm with rfl | hm'
    · exact ⟨w, a⟩
    · exact SeqOK.forall_mem P xs ws b c hm'

/-- Size of the reduced non-time part: the quantity that never grows. -/
def core (fa : FloatArith) (tbl : List (Char × Char)) (c : Expr) : Nat := (ntPart fa tbl c).size

theorem core_le_size (tbl : List (Char × Char)) (fa : FloatArith) (c : Expr) (h : strClass tbl c = true) :
    core fa tbl c ≤ c.size := (ntPart_spec tbl fa c h).2.2

theorem core_step (ctx : CCtx) (fa : FloatArith) (c : Expr) (w : Window)
    (hcls : strClass ctx.lowerTbl c = true) (hT : isTimeRef ctx.lowerTbl timeVar = true) :
    core fa ctx.lowerTbl (stepSpec fa ctx.lowerTbl c w) ≤ core fa ctx.lowerTbl c ∧
      (stepSpec fa ctx.lowerTbl c w).size ≤ core fa ctx.lowerTbl c + 8 := by
  obtain ⟨hN, _, _⟩ := ntPart_spec ctx.lowerTbl fa c hcls
  obtain ⟨_, _, _, b4, b5⟩ := build_spec ctx fa (ntPart fa ctx.lowerTbl c) w hN hT
  rw [stepSpec_eq]
  refine ⟨?_, b4⟩
  unfold core
  rw [show ntPart fa ctx.lowerTbl (build fa (creduce (nilRCtx fa) (rewriteNoTime ctx.lowerTbl c)) w)
      = creduce (nilRCtx fa) (rewriteNoTime ctx.lowerTbl (build fa (ntPart fa ctx.lowerTbl c) w)) from rfl, b5]
  exact (reduce_resTF ctx.lowerTbl (nilRCtx fa) _ hN).2

/-- **Any sequence of windows** (as a continuous query makes them): every call succeeds; after
call `k` the condition holds exactly on window `k` and the non-time part of the *original*
condition — no earlier window and no earlier bound is left — and its size stays within the
original size plus eight nodes, however many calls were made. By induction on the window list. -/
theorem setTimeRange_seq (ctx : CCtx) (fa : FloatArith) (hT : isTimeRef ctx.lowerTbl timeVar = true) :
    ∀ (ws : List Window) (c : Expr), strClass ctx.lowerTbl c = true → RTSeq fa ctx.lowerTbl c ws →
      ∃ cs : List Expr, setTimeRangeSeq fa ctx.lowerTbl (some c) ws = cs.map Except.ok ∧
        SeqOK (fun c' w =>
          (WindowOK ctx w → ∀ L t, holds ctx L t c' = (w.contains t && nonTimeHolds ctx.lowerTbl L c)) ∧
          c'.size ≤ core fa ctx.lowerTbl c + 8) cs ws
  | [], c, _, _ => ⟨[], rfl, trivial⟩
  | w :: ws, c, hcls, hrt => by
    obtain ⟨hrt1, hrts⟩ := hrt
    obtain ⟨c', hset, hc', hholds, hcls', hnt, _⟩ := setTimeRange_step ctx fa c w hcls hT hrt1
    subst hc'
    obtain ⟨cs, hcs, hok⟩ := setTimeRange_seq ctx fa hT ws (stepSpec fa ctx.lowerTbl c w) hcls' hrts
    have hcore := core_step ctx fa c w hcls hT
    refine ⟨stepSpec fa ctx.lowerTbl c w :: cs, ?_, ⟨hholds, hcore.2⟩, ?_⟩
    · simp only [setTimeRangeSeq, hset, hcs, List.map_cons]
    · refine SeqOK.imp ?_ cs ws hok
      intro c'' w'' ⟨h1, h2⟩
      refine ⟨?_, Nat.le_trans h2 (by omega)⟩
      intro hw L t
      rw [h1 hw L t, hnt L]

/-- **The condition does not grow**: after any number of calls its size is at most the size of the
original condition plus `K = 8` nodes (the two bounds and the two `AND`s). -/
theorem size_bounded (ctx : CCtx) (fa : FloatArith) (hT : isTimeRef ctx.lowerTbl timeVar = true)
    (ws : List Window) (c : Expr) (hcls : strClass ctx.lowerTbl c = true) (hrt : RTSeq fa ctx.lowerTbl c ws) :
    ∃ cs : List Expr, setTimeRangeSeq fa ctx.lowerTbl (some c) ws = cs.map Except.ok ∧
      ∀ c' ∈ cs, c'.size ≤ c.size + 8 := by
  obtain ⟨cs, h1, h2⟩ := setTimeRange_seq ctx fa hT ws c hcls hrt
  refine ⟨cs, h1, ?_⟩
  have hc := core_le_size ctx.lowerTbl fa c hcls
  intro c' hm
  obtain ⟨w, hw⟩ := SeqOK.forall_mem _ cs ws h2 c' hm
  exact Nat.le_trans hw.2 (by omega)

/-- **Only the last window applies**: after a non-empty sequence of calls the final condition
holds exactly on the last window and the original non-time part. -/
theorem only_last_window_applies (ctx : CCtx) (fa : FloatArith) (hT : isTimeRef ctx.lowerTbl timeVar = true)
    (ws : List Window) (wl : Window) (c : Expr) (hcls : strClass ctx.lowerTbl c = true)
    (hrt : RTSeq fa ctx.lowerTbl c (ws ++ [wl])) (hw : WindowOK ctx wl) :
    ∃ cs cl, setTimeRangeSeq fa ctx.lowerTbl (some c) (ws ++ [wl]) = (cs ++ [cl]).map Except.ok ∧
      ∀ L t, holds ctx L t cl = (wl.contains t && nonTimeHolds ctx.lowerTbl L c) := by
  obtain ⟨cs, h1, h2⟩ := setTimeRange_seq ctx fa hT (ws ++ [wl]) c hcls hrt
  clear hrt
  have key : ∀ (cs : List Expr) (ws : List Window) (P : Expr → Window → Prop), SeqOK P cs (ws ++ [wl]) →
      ∃ cs' cl, cs = cs' ++ [cl] ∧ P cl wl := by
    intro cs
    induction cs with
    | nil => intro ws P h; cases ws <;> exact h.elim
    | cons x xs ih =>
      intro ws P h
      cases ws with
      | nil =>
        cases xs with
        | nil => exact ⟨[], x, rfl, h.1⟩
        | cons y ys => exact h.2.elim
      | cons w ws' =>
        obtain ⟨cs', cl, e, p⟩ := ih ws' P h.2
        exact ⟨x :: cs', cl, by rw [e]; rfl, p⟩
  obtain ⟨cs', cl, e, p⟩ := key cs ws _ h2
  subst e
  exact ⟨cs', cl, h1, p.1 hw⟩

/-! ### Kernel-checked examples: the repaired behaviours, and the defect that remains -/

def ctx0 : CCtx := { r := { valuer := some ⟨946684800000000000, none⟩, fa := fun _ _ _ => ⟨false, 0, 0⟩ } }
def fa0 : FloatArith := fun _ _ _ => ⟨false, 0, 0⟩
def hostEqA : Expr := .binary .EQ (.varRef ['h', 'o', 's', 't'] .Unknown) (.string ['a'])
def hostEqB : Expr := .binary .EQ (.varRef ['h', 'o', 's', 't'] .Unknown) (.string ['b'])
/-- `[1970-01-01T00:16:40Z, 1970-01-01T00:17:40Z)`. -/
def w1 : Window := ⟨1000000000000, 1060000000000⟩
def allTrue : Expr → Bool := fun _ => true

theorem table_ok : isTimeRef ctx0.lowerTbl timeVar = true := by decide
theorem window_ok : WindowOK ctx0 w1 := by
  refine ⟨?_, ?_, ?_, ?_⟩ <;> decide

/-- `'2000-01-01T00:00:00Z' <= time AND host = 'a'` (bound written with `time` on the right; kept
for ever before 51161c4): in the class; the bound is replaced, and after `SetTimeRange` to a window
in 1970 a point of the window with `host = 'a'` is selected. -/
theorem reversed_bound_replaced :
    let c := Expr.binary .AND (.binary .LTE (.string "2000-01-01T00:00:00Z".toList) timeVar) hostEqA
    strClass ctx0.lowerTbl c = true ∧
    (rewriteNoTime ctx0.lowerTbl c).print = "true AND host = 'a'".toList ∧
    (stepSpec fa0 ctx0.lowerTbl c w1).print =
      "host = 'a' AND time >= '1970-01-01T00:16:40Z' AND time < '1970-01-01T00:17:40Z'".toList ∧
    w1.contains 1000000000001 = true ∧ nonTimeHolds ctx0.lowerTbl allTrue c = true ∧
    holds ctx0 allTrue 1000000000001 (stepSpec fa0 ctx0.lowerTbl c w1) = true := by
  decide +kernel

/-- `TIME > 5` and `time::integer > 5` (other letter case, type annotation; kept before 51161c4):
in the class and replaced; a window below the old bound selects its points. -/
theorem other_case_bound_replaced :
    let c := Expr.binary .GT (.varRef ['T', 'I', 'M', 'E'] .Unknown) (.integer 5)
    let c2 := Expr.binary .GT (.varRef ['t', 'i', 'm', 'e'] .Integer) (.integer 5)
    let w : Window := ⟨0, 4⟩
    strClass ctx0.lowerTbl c = true ∧ strClass ctx0.lowerTbl c2 = true ∧
    (stepSpec fa0 ctx0.lowerTbl c w).print =
      "time >= '1970-01-01T00:00:00Z' AND time < '1970-01-01T00:00:00.000000004Z'".toList ∧
    (stepSpec fa0 ctx0.lowerTbl c2 w).print = (stepSpec fa0 ctx0.lowerTbl c w).print ∧
    w.contains 2 = true ∧ nonTimeHolds ctx0.lowerTbl allTrue c = true ∧
    holds ctx0 allTrue 2 (stepSpec fa0 ctx0.lowerTbl c w) = true := by
  decide +kernel

/-- `v > abs(w)` (became `v > true` before 86fc254): in the class; the call is kept, also when a
time bound with `now()` stands next to it. -/
theorem call_in_predicate_kept :
    let c := Expr.binary .GT (.varRef ['v'] .Unknown) (.call ['a', 'b', 's'] [.varRef ['w'] .Unknown])
    let c2 := Expr.binary .AND c
      (.binary .GT timeVar (.binary .SUB (.call ['n', 'o', 'w'] []) (.duration 3600000000000)))
    strClass ctx0.lowerTbl c = true ∧ strClass ctx0.lowerTbl c2 = true ∧
    (rewriteNoTime ctx0.lowerTbl c).print = "v > abs(w)".toList ∧
    (stepSpec fa0 ctx0.lowerTbl c w1).print =
      "v > abs(w) AND time >= '1970-01-01T00:16:40Z' AND time < '1970-01-01T00:17:40Z'".toList ∧
    (stepSpec fa0 ctx0.lowerTbl c2 w1).print = (stepSpec fa0 ctx0.lowerTbl c w1).print := by
  decide +kernel

/-- `host = 'a' OR host = 'b'`: the rewritten condition is printed without parentheses in front of
` AND time >= … AND time < …`. The parser's insertion step (`insertOp`, the loop of `ParseExpr`)
hangs the `AND`s below the right operand of the `OR`, so the window only guards `host = 'b'`:
the resulting tree holds at a point outside the window. (`RT` fails for this condition; that the
implementation produces exactly this tree is shown by the correspondence stream. Still open.) -/
theorem top_level_or_regroups :
    let ge := geBound w1.start
    let lt := ltBound w1.stop
    let parsed := insertOp (insertOp (.binary .OR hostEqA hostEqB) .AND ge) .AND lt
    parsed.print = (Expr.binary .OR hostEqA (.binary .AND (.binary .AND hostEqB ge) lt)).print ∧
    parsed.print = ("host = 'a' OR host = 'b' AND time >= '1970-01-01T00:16:40Z' AND " ++
      "time < '1970-01-01T00:17:40Z'").toList ∧
    w1.contains 5 = false ∧
    holds ctx0 allTrue 5 (creduce (nilRCtx fa0) parsed) = true := by
  decide +kernel

/-! ### Non-vacuity -/

/-- `host = 'a' AND time > now() - 1h AND (region = 'x' OR region = 'y')`. -/
def sample : Expr :=
  .binary .AND (.binary .AND hostEqA
      (.binary .GT timeVar (.binary .SUB (.call ['n', 'o', 'w'] []) (.duration 3600000000000))))
    (.paren (.binary .OR (.binary .EQ (.varRef ['r'] .Unknown) (.string ['x']))
      (.binary .EQ (.varRef ['r'] .Unknown) (.string ['y']))))

example : strClass ctx0.lowerTbl sample = true := by decide
example : (stepSpec fa0 ctx0.lowerTbl sample w1).print =
    ("host = 'a' AND (r = 'x' OR r = 'y') AND time >= '1970-01-01T00:16:40Z' AND " ++
      "time < '1970-01-01T00:17:40Z'").toList := by decide +kernel
example : (stepSpec fa0 ctx0.lowerTbl (stepSpec fa0 ctx0.lowerTbl sample w1) ⟨5, 6⟩).print =
    ("host = 'a' AND (r = 'x' OR r = 'y') AND time >= '1970-01-01T00:00:00.000000005Z' AND " ++
      "time < '1970-01-01T00:00:00.000000006Z'").toList := by decide +kernel
example : holds ctx0 allTrue 1000000000000 (stepSpec fa0 ctx0.lowerTbl sample w1) = true ∧
    holds ctx0 allTrue 1059999999999 (stepSpec fa0 ctx0.lowerTbl sample w1) = true ∧
    holds ctx0 allTrue 1060000000000 (stepSpec fa0 ctx0.lowerTbl sample w1) = false ∧
    holds ctx0 allTrue 999999999999 (stepSpec fa0 ctx0.lowerTbl sample w1) = false := by decide +kernel

end InfluxQL.C18

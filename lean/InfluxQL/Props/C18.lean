import InfluxQL.Lemmas.SetTimeRange
/-
C18 — SetTimeRange replaces earlier time bounds, over any sequence of windows.

Model: `Model/SetTimeRange.lean` (`rewriteNoTime` = the rewrite inside `rewriteWithoutTimeDimensions`,
`groupForAnd` = its last step — a `ParenExpr` around the result when that is an `OR` —,
`setTimeRangeTree` = the tree `(<that> AND time >= start) AND time < end` built from `BinaryExpr` /
`VarRef` / `StringLiteral` nodes, `setTimeRange` = `CReduce(·, nil)` of it, `setTimeRangeSeq`),
`Model/SetTimeRangeSpec.lean` (`nonTimeHolds`, the class `strClass`, `stepSpec`, `WindowOK`, and the
text route of the previous implementation, for comparison only). The model follows /repo after the
fixes 51161c4 (a bound is recognised by a reference to `time` on either side, in any letter case,
typed or not), 86fc254 (calls are kept), d61fb53 (an `OR` at the top is grouped) and the fix of
C18-condition-does-not-reparse / C18-folded-time-literal-comes-back-as-string: **the new condition
is built as a tree; nothing is printed and parsed inside `SetTimeRange` any more.** The theorems
below therefore no longer carry a print → parse hypothesis (`RT` / `RTSeq` before): they hold for
every condition of the class. The meaning of a condition at a point is C10's `holds`; by
`C10.split_sound` this is also what `ConditionExpr` observes on the conditions concerned.

Hypotheses left, all explicit in the statements:
* `WindowOK` — the window instants, printed with `Format(RFC3339Nano)` into the two string literals,
  read back exactly when `ConditionExpr` / `holds` interpret those literals as times;
* `isTimeRef tbl timeVar` — the lower-casing table shipped for non-ASCII runes does not touch the
  letters of `time` (true for every table the harness produces; `by decide` for `[]`).
-/
namespace InfluxQL.C18
open InfluxQL Gen
open InfluxQL.CondTime

/-- `OR` is the only operator that binds looser than `AND` (generated precedence table): it is the
only top node that would regroup when the new condition `<it> AND <window>` is printed and parsed
again, and the one `rewriteWithoutTimeDimensions` puts in a parenthesis node. -/
theorem gen_only_or_binds_looser_than_and :
    ∀ t ∈ Token.all, t.isOperator = true → (t.precedence < Token.AND.precedence ↔ t = .OR) := by
  decide +kernel

/-- The left operand of the new `AND` never has an `OR` at the top, and is the rewritten condition
itself unless that is an `OR` (then it is that condition in a parenthesis node); the tree handed to
`Reduce` is `(<it> AND time >= start) AND time < end`. -/
theorem grouped_never_or (tbl : List (Char × Char)) (c : Expr) (w : Window) :
    topIsOr (groupForAnd (rewriteNoTime tbl c)) = false ∧
    (topIsOr (rewriteNoTime tbl c) = false → groupForAnd (rewriteNoTime tbl c) = rewriteNoTime tbl c) ∧
    (topIsOr (rewriteNoTime tbl c) = true → groupForAnd (rewriteNoTime tbl c) = .paren (rewriteNoTime tbl c)) ∧
    setTimeRangeTree tbl (some c) w =
      .binary .AND (.binary .AND (groupForAnd (rewriteNoTime tbl c)) (geBound w.start)) (ltBound w.stop) :=
  ⟨topIsOr_groupForAnd _, groupForAnd_of_not_or _, fun h => by simp [groupForAnd, h], rfl⟩

/-- **`SetTimeRange` never fails**, whatever the condition is — any expression, in the class or not,
or no condition at all: the result is `Reduce(·, nil)` of the tree built; and any sequence of calls
yields one condition per window. (The text route failed where the rewritten text did not parse,
e.g. `host =~ /a/ + time`, and changed the tree where printing and parsing is not the identity.) -/
theorem setTimeRange_total (fa : FloatArith) (tbl : List (Char × Char)) (cond : Option Expr) (w : Window) :
    setTimeRange fa tbl cond w = .ok (CReduce (nilRCtx fa) (setTimeRangeTree tbl cond w)) ∧
    ∀ ws, ∃ cs : List Expr, setTimeRangeSeq fa tbl cond ws = cs.map Except.ok ∧ cs.length = ws.length := by
  refine ⟨rfl, fun ws => ?_⟩
  induction ws generalizing cond with
  | nil => exact ⟨[], rfl, rfl⟩
  | cons w' ws ih =>
    obtain ⟨cs, h1, h2⟩ := ih (some (CReduce (nilRCtx fa) (setTimeRangeTree tbl cond w')))
    refine ⟨CReduce (nilRCtx fa) (setTimeRangeTree tbl cond w') :: cs, ?_, by simp [h2]⟩
    simp only [setTimeRangeSeq, setTimeRange, h1, List.map_cons]

/-- **Predicates reach `Reduce` as the trees they are** (what the two former findings were about):
for *any* expression `c` none of whose binary nodes has a reference to time as an operand — arithmetic
with negated operands such as `n % -a > 1`, time literals left by an earlier `Reduce`, anything — the
rewrite is the identity, so the new condition is `Reduce(·, nil)` of `(c AND time >= start) AND time <
end` with `c` itself (inside a parenthesis node when it is an `OR`) as the operand: no node of `c` is
regrouped or changes its kind on the way. -/
theorem predicates_reach_reduce_untouched (fa : FloatArith) (tbl : List (Char × Char)) (c : Expr) (w : Window)
    (h : noTimeBound tbl c = true) :
    rewriteNoTime tbl c = c ∧
    setTimeRange fa tbl (some c) w = .ok (CReduce (nilRCtx fa)
      (.binary .AND (.binary .AND (groupForAnd c) (geBound w.start)) (ltBound w.stop))) := by
  have e := rewriteNoTime_noTimeBound tbl c h
  refine ⟨e, ?_⟩
  show Except.ok (CReduce (nilRCtx fa) (.binary .AND (.binary .AND (groupForAnd (rewriteNoTime tbl c))
    (geBound w.start)) (ltBound w.stop))) = _
  rw [e]

/-- **One call.** For a condition of the class (time bounds with `time` — any letter case, any
type annotation — on either side of any operator, other predicates comparing a tag or field with a
reference, literal or call; `AND`, parentheses, and `OR` between time-free conditions **also at the
top**), `SetTimeRange(start, end)` succeeds and the new condition holds at a point exactly when
`start ≤ t < end` and the non-time part of the old condition holds; the new condition is again in
the class, has the same non-time part, and has at most eight nodes more than the old one — nine
when the parentheses around a top-level `OR` are added (`parenCost`). No hypothesis about printing
and parsing: there is none in the code any more. -/
theorem setTimeRange_step (ctx : CCtx) (fa : FloatArith) (c : Expr) (w : Window)
    (hcls : strClass ctx.lowerTbl c = true) (hT : isTimeRef ctx.lowerTbl timeVar = true) :
    ∃ c', setTimeRange fa ctx.lowerTbl (some c) w = .ok c' ∧ c' = stepSpec fa ctx.lowerTbl c w ∧
      (WindowOK ctx w → ∀ L t, holds ctx L t c' = (w.contains t && nonTimeHolds ctx.lowerTbl L c)) ∧
      strClass ctx.lowerTbl c' = true ∧
      (∀ L, nonTimeHolds ctx.lowerTbl L c' = nonTimeHolds ctx.lowerTbl L c) ∧
      c'.size ≤ c.size + 8 + parenCost ctx.lowerTbl c := by
  refine ⟨stepSpec fa ctx.lowerTbl c w, rfl, rfl, ?_⟩
  obtain ⟨hN, hev, hsz⟩ := ntPart_spec ctx.lowerTbl fa c hcls
  obtain ⟨b1, b2, b3, b4, _⟩ := build_spec ctx fa (ntPart fa ctx.lowerTbl c) w hN hT
  rw [stepSpec_eq fa ctx.lowerTbl c w hcls]
  refine ⟨?_, b1, ?_, ?_⟩
  · intro hw L t
    rw [b3 hw L t, hev L]
  · intro L
    rw [b2 L, hev L]
  · exact Nat.le_trans b4 (by omega)

/-- **A top-level `OR`** (the case of the former finding C18-top-level-or-captures-the-window): for
`l OR r` between time-free conditions of the class, the new condition holds at a point exactly
when `start ≤ t < end` **and** one of the disjuncts holds — the window guards every disjunct. -/
theorem setTimeRange_top_level_or (ctx : CCtx) (fa : FloatArith) (l r : Expr) (w : Window)
    (hcls : strClass ctx.lowerTbl (.binary .OR l r) = true) (hT : isTimeRef ctx.lowerTbl timeVar = true)
    (hw : WindowOK ctx w) :
    ∃ c', setTimeRange fa ctx.lowerTbl (some (.binary .OR l r)) w = .ok c' ∧
      ∀ L t, holds ctx L t c' =
        (w.contains t && (nonTimeHolds ctx.lowerTbl L l || nonTimeHolds ctx.lowerTbl L r)) := by
  obtain ⟨c', h1, _, h3, _⟩ := setTimeRange_step ctx fa _ w hcls hT
  refine ⟨c', h1, fun L t => ?_⟩
  rw [h3 hw L t]
  simp [nonTimeHolds]

/-- **One call, as the query engine sees it**: `ConditionExpr` of the new condition succeeds; its
residual has the value of the old non-time part, and its range is exactly `[start, end - 1 ns]`
(unless the non-time part folds to `false`, where the whole condition is `false` and no range is
needed). Window instants must be representable time literals (`MinTime < t ≤ MaxTime`). -/
theorem setTimeRange_observed (ctx : CCtx) (fa : FloatArith) (c : Expr) (w : Window)
    (hcls : strClass ctx.lowerTbl c = true) (hT : isTimeRef ctx.lowerTbl timeVar = true)
    (hw : WindowOK ctx w) (hr : w.inRange) :
    ∃ c' res tr, setTimeRange fa ctx.lowerTbl (some c) w = .ok c' ∧
      ConditionExpr ctx (some c') = .ok (res, tr) ∧
      (∀ L, evalOpt L res = nonTimeHolds ctx.lowerTbl L c) ∧
      (ntPart fa ctx.lowerTbl c ≠ .boolean false → tr = ⟨w.start, w.stop - 1⟩) ∧
      (ntPart fa ctx.lowerTbl c = .boolean false → tr = {}) := by
  obtain ⟨hN, hev, _⟩ := ntPart_spec ctx.lowerTbl fa c hcls
  obtain ⟨res, tr, h1, h2, h3, h4⟩ := conditionExpr_build ctx fa (ntPart fa ctx.lowerTbl c) w hN hT hw hr
  refine ⟨stepSpec fa ctx.lowerTbl c w, res, tr, rfl, ?_, ?_, h3, h4⟩
  · rw [stepSpec_eq fa ctx.lowerTbl c w hcls]; exact h1
  · intro L; rw [h2 L, hev L]

/-- The condition `k` calls later corresponds to window `k`, for every `k`. -/
def SeqOK (P : Expr → Window → Prop) : List Expr → List Window → Prop
  | [], [] => True
  | c :: cs, w :: ws => P c w ∧ SeqOK P cs ws
  | _, _ => False

theorem SeqOK.imp {P Q : Expr → Window → Prop} (h : ∀ c w, P c w → Q c w) :
    ∀ (cs : List Expr) (ws : List Window), SeqOK P cs ws → SeqOK Q cs ws
  | [], [], _ => trivial
  | c :: cs, w :: ws, ⟨a, b⟩ => ⟨h c w a, SeqOK.imp h cs ws b⟩
  | [], _ :: _, hf => hf.elim
  | _ :: _, [], hf => hf.elim

theorem SeqOK.forall_mem (P : Expr → Window → Prop) :
    ∀ (cs : List Expr) (ws : List Window), SeqOK P cs ws → ∀ c ∈ cs, ∃ w, P c w
  | [], _, _ => fun _ hm => by cases hm
  | _ :: _, [], hf => hf.elim
  | x :: xs, w :: ws, ⟨a, b⟩ => fun c hm => by
    rcases List.mem_cons.mp hm with rfl | hm'
    · exact ⟨w, a⟩
    · exact SeqOK.forall_mem P xs ws b c hm'

/-- Size of the reduced non-time part: the quantity that never grows. -/
def core (fa : FloatArith) (tbl : List (Char × Char)) (c : Expr) : Nat := (ntPart fa tbl c).size

theorem core_le_size (tbl : List (Char × Char)) (fa : FloatArith) (c : Expr) (h : strClass tbl c = true) :
    core fa tbl c ≤ c.size + parenCost tbl c := (ntPart_spec tbl fa c h).2.2

theorem parenCost_le_one (tbl : List (Char × Char)) (c : Expr) : parenCost tbl c ≤ 1 := by
  unfold parenCost; split <;> omega

theorem core_step (ctx : CCtx) (fa : FloatArith) (c : Expr) (w : Window)
    (hcls : strClass ctx.lowerTbl c = true) (hT : isTimeRef ctx.lowerTbl timeVar = true) :
    core fa ctx.lowerTbl (stepSpec fa ctx.lowerTbl c w) ≤ core fa ctx.lowerTbl c ∧
      (stepSpec fa ctx.lowerTbl c w).size ≤ core fa ctx.lowerTbl c + 8 := by
  obtain ⟨hN, _, _⟩ := ntPart_spec ctx.lowerTbl fa c hcls
  obtain ⟨_, _, _, b4, b5⟩ := build_spec ctx fa (ntPart fa ctx.lowerTbl c) w hN hT
  rw [stepSpec_eq fa ctx.lowerTbl c w hcls]
  refine ⟨?_, b4⟩
  unfold core
  rw [show ntPart fa ctx.lowerTbl (build fa (ntPart fa ctx.lowerTbl c) w)
      = creduce (nilRCtx fa) (groupForAnd (rewriteNoTime ctx.lowerTbl (build fa (ntPart fa ctx.lowerTbl c) w))) from rfl, b5]
  exact (reduce_resTF ctx.lowerTbl (nilRCtx fa) _ hN).2

/-- **Any sequence of windows** (as a continuous query makes them): every call succeeds; after
call `k` the condition holds exactly on window `k` and the non-time part of the *original*
condition — no earlier window and no earlier bound is left — and its size stays within eight nodes
of `core c`, the size of the reduced non-time part (itself at most the original size, plus one for
the parentheses around a top-level `OR`), however many calls were made. By induction on the window
list; for every condition of the class and every window list, without further hypothesis. -/
theorem setTimeRange_seq (ctx : CCtx) (fa : FloatArith) (hT : isTimeRef ctx.lowerTbl timeVar = true) :
    ∀ (ws : List Window) (c : Expr), strClass ctx.lowerTbl c = true →
      ∃ cs : List Expr, setTimeRangeSeq fa ctx.lowerTbl (some c) ws = cs.map Except.ok ∧
        SeqOK (fun c' w =>
          (WindowOK ctx w → ∀ L t, holds ctx L t c' = (w.contains t && nonTimeHolds ctx.lowerTbl L c)) ∧
          c'.size ≤ core fa ctx.lowerTbl c + 8) cs ws
  | [], c, _ => ⟨[], rfl, trivial⟩
  | w :: ws, c, hcls => by
    obtain ⟨c', hset, hc', hholds, hcls', hnt, _⟩ := setTimeRange_step ctx fa c w hcls hT
    subst hc'
    obtain ⟨cs, hcs, hok⟩ := setTimeRange_seq ctx fa hT ws (stepSpec fa ctx.lowerTbl c w) hcls'
    have hcore := core_step ctx fa c w hcls hT
    refine ⟨stepSpec fa ctx.lowerTbl c w :: cs, ?_, ⟨hholds, hcore.2⟩, ?_⟩
    · simp only [setTimeRangeSeq, hset, hcs, List.map_cons]
    · refine SeqOK.imp ?_ cs ws hok
      intro c'' w'' ⟨h1, h2⟩
      refine ⟨?_, Nat.le_trans h2 (by omega)⟩
      intro hw L t
      rw [h1 hw L t, hnt L]

/-- **The condition does not grow**: after any number of calls its size is at most the size of the
original condition plus `K = 9` nodes (the two bounds, the two `AND`s, and the parentheses around a
top-level `OR`; `8` when the condition has no `OR` at the top). -/
theorem size_bounded (ctx : CCtx) (fa : FloatArith) (hT : isTimeRef ctx.lowerTbl timeVar = true)
    (ws : List Window) (c : Expr) (hcls : strClass ctx.lowerTbl c = true) :
    ∃ cs : List Expr, setTimeRangeSeq fa ctx.lowerTbl (some c) ws = cs.map Except.ok ∧
      ∀ c' ∈ cs, c'.size ≤ c.size + 8 + parenCost ctx.lowerTbl c ∧ c'.size ≤ c.size + 9 := by
  obtain ⟨cs, h1, h2⟩ := setTimeRange_seq ctx fa hT ws c hcls
  refine ⟨cs, h1, ?_⟩
  have hc := core_le_size ctx.lowerTbl fa c hcls
  have hp := parenCost_le_one ctx.lowerTbl c
  intro c' hm
  obtain ⟨w, hw⟩ := SeqOK.forall_mem _ cs ws h2 c' hm
  have := hw.2
  constructor <;> omega

/-- **Only the last window applies**: after a non-empty sequence of calls the final condition
holds exactly on the last window and the original non-time part. -/
theorem only_last_window_applies (ctx : CCtx) (fa : FloatArith) (hT : isTimeRef ctx.lowerTbl timeVar = true)
    (ws : List Window) (wl : Window) (c : Expr) (hcls : strClass ctx.lowerTbl c = true)
    (hw : WindowOK ctx wl) :
    ∃ cs cl, setTimeRangeSeq fa ctx.lowerTbl (some c) (ws ++ [wl]) = (cs ++ [cl]).map Except.ok ∧
      ∀ L t, holds ctx L t cl = (wl.contains t && nonTimeHolds ctx.lowerTbl L c) := by
  obtain ⟨cs, h1, h2⟩ := setTimeRange_seq ctx fa hT (ws ++ [wl]) c hcls
  have key : ∀ (cs : List Expr) (ws : List Window) (P : Expr → Window → Prop), SeqOK P cs (ws ++ [wl]) →
      ∃ cs' cl, cs = cs' ++ [cl] ∧ P cl wl := by
    intro cs
    induction cs with
    | nil => intro ws P h; cases ws <;> exact h.elim
    | cons x xs ih =>
      intro ws P h
      cases ws with
      | nil =>
        cases xs with
        | nil => exact ⟨[], x, rfl, h.1⟩
        | cons y ys => exact h.2.elim
      | cons w ws' =>
        obtain ⟨cs', cl, e, p⟩ := ih ws' P h.2
        exact ⟨x :: cs', cl, by rw [e]; rfl, p⟩
  obtain ⟨cs', cl, e, p⟩ := key cs ws _ h2
  subst e
  exact ⟨cs', cl, h1, p.1 hw⟩

/-! ### The text route of the previous implementation (comparison only) -/

/-- The text the previous `SetTimeRange` built with `fmt.Sprintf` was, character for character,
`String()` of the tree the current one builds (printed instants contain only digits and
`- T : . Z`, which `QuoteString` does not escape; `time` needs no quotes) — for every condition and
window. So the old result was `Reduce(ParseExpr(T.String()))` where the new one is `Reduce(T)`. -/
theorem text_route_printed_the_tree (tbl : List (Char × Char)) (c : Expr) (w : Window) :
    setTimeRangeText tbl (some c) w = (setTimeRangeTree tbl (some c) w).print :=
  setTimeRangeText_is_print tbl c w

/-- Wherever that print parsed back to the tree, the previous implementation computed exactly what
the current one computes: the fix changes the result only where print → parse is not the identity
(or fails). -/
theorem text_route_agrees_when_round_trip (fa : FloatArith) (tbl : List (Char × Char)) (c : Expr) (w : Window)
    (h : parseExprText (setTimeRangeTree tbl (some c) w).print [] tbl = .ok (setTimeRangeTree tbl (some c) w)) :
    textRoute fa tbl (some c) w = setTimeRange fa tbl (some c) w :=
  textRoute_eq_of_round_trip fa tbl c w h

/-! ### Kernel-checked examples of the repaired behaviours -/

def ctx0 : CCtx := { r := { valuer := some ⟨946684800000000000, none⟩, fa := fun _ _ _ => ⟨false, 0, 0⟩ } }
def fa0 : FloatArith := fun _ _ _ => ⟨false, 0, 0⟩
def hostEqA : Expr := .binary .EQ (.varRef ['h', 'o', 's', 't'] .Unknown) (.string ['a'])
def hostEqB : Expr := .binary .EQ (.varRef ['h', 'o', 's', 't'] .Unknown) (.string ['b'])
/-- `[1970-01-01T00:16:40Z, 1970-01-01T00:17:40Z)`. -/
def w1 : Window := ⟨1000000000000, 1060000000000⟩
/-- `[1970-01-01T00:17:40Z, 1970-01-01T00:18:40Z)`. -/
def w2 : Window := ⟨1060000000000, 1120000000000⟩
def allTrue : Expr → Bool := fun _ => true

theorem table_ok : isTimeRef ctx0.lowerTbl timeVar = true := by decide
theorem window_ok : WindowOK ctx0 w1 := by
  refine ⟨?_, ?_, ?_, ?_⟩ <;> decide
theorem window2_ok : WindowOK ctx0 w2 := by
  refine ⟨?_, ?_, ?_, ?_⟩ <;> decide

/-- `'2000-01-01T00:00:00Z' <= time AND host = 'a'` (bound written with `time` on the right; kept
for ever before 51161c4): in the class; the bound is replaced, and after `SetTimeRange` to a window
in 1970 a point of the window with `host = 'a'` is selected. -/
theorem reversed_bound_replaced :
    let c := Expr.binary .AND (.binary .LTE (.string "2000-01-01T00:00:00Z".toList) timeVar) hostEqA
    strClass ctx0.lowerTbl c = true ∧
    (rewriteNoTime ctx0.lowerTbl c).print = "true AND host = 'a'".toList ∧
    (stepSpec fa0 ctx0.lowerTbl c w1).print =
      "host = 'a' AND time >= '1970-01-01T00:16:40Z' AND time < '1970-01-01T00:17:40Z'".toList ∧
    w1.contains 1000000000001 = true ∧ nonTimeHolds ctx0.lowerTbl allTrue c = true ∧
    holds ctx0 allTrue 1000000000001 (stepSpec fa0 ctx0.lowerTbl c w1) = true := by
  decide +kernel

/-- `TIME > 5` and `time::integer > 5` (other letter case, type annotation; kept before 51161c4):
in the class and replaced; a window below the old bound selects its points. -/
theorem other_case_bound_replaced :
    let c := Expr.binary .GT (.varRef ['T', 'I', 'M', 'E'] .Unknown) (.integer 5)
    let c2 := Expr.binary .GT (.varRef ['t', 'i', 'm', 'e'] .Integer) (.integer 5)
    let w : Window := ⟨0, 4⟩
    strClass ctx0.lowerTbl c = true ∧ strClass ctx0.lowerTbl c2 = true ∧
    (stepSpec fa0 ctx0.lowerTbl c w).print =
      "time >= '1970-01-01T00:00:00Z' AND time < '1970-01-01T00:00:00.000000004Z'".toList ∧
    (stepSpec fa0 ctx0.lowerTbl c2 w).print = (stepSpec fa0 ctx0.lowerTbl c w).print ∧
    w.contains 2 = true ∧ nonTimeHolds ctx0.lowerTbl allTrue c = true ∧
    holds ctx0 allTrue 2 (stepSpec fa0 ctx0.lowerTbl c w) = true := by
  decide +kernel

/-- `v > abs(w)` (became `v > true` before 86fc254): in the class; the call is kept, also when a
time bound with `now()` stands next to it. -/
theorem call_in_predicate_kept :
    let c := Expr.binary .GT (.varRef ['v'] .Unknown) (.call ['a', 'b', 's'] [.varRef ['w'] .Unknown])
    let c2 := Expr.binary .AND c
      (.binary .GT timeVar (.binary .SUB (.call ['n', 'o', 'w'] []) (.duration 3600000000000)))
    strClass ctx0.lowerTbl c = true ∧ strClass ctx0.lowerTbl c2 = true ∧
    (rewriteNoTime ctx0.lowerTbl c).print = "v > abs(w)".toList ∧
    (stepSpec fa0 ctx0.lowerTbl c w1).print =
      "v > abs(w) AND time >= '1970-01-01T00:16:40Z' AND time < '1970-01-01T00:17:40Z'".toList ∧
    (stepSpec fa0 ctx0.lowerTbl c2 w1).print = (stepSpec fa0 ctx0.lowerTbl c w1).print := by
  decide +kernel

/-- `host = 'a' OR host = 'b'` (regrouped to `host = 'a' OR (host = 'b' AND <window>)` before
d61fb53): in the class; the new condition is `AND (AND (paren (OR …)) ge) lt`; it prints as
`(host = 'a' OR host = 'b') AND time >= … AND time < …`, and that text parses back to the same tree
(the parser model is run in the kernel: what a continuous query stored as text reads back is the
condition that was set); at a point outside the window it does not hold although both `host`
predicates do, inside the window it holds. -/
theorem top_level_or_keeps_window :
    let c := Expr.binary .OR hostEqA hostEqB
    let c' := Expr.binary .AND (.binary .AND (.paren c) (geBound w1.start)) (ltBound w1.stop)
    strClass ctx0.lowerTbl c = true ∧
    setTimeRange fa0 ctx0.lowerTbl (some c) w1 = .ok c' ∧
    c'.print = ("(host = 'a' OR host = 'b') AND " ++
      "time >= '1970-01-01T00:16:40Z' AND time < '1970-01-01T00:17:40Z'").toList ∧
    parseExprText c'.print [] ctx0.lowerTbl = .ok c' ∧
    (w1.contains 5 = false ∧ holds ctx0 allTrue 5 c' = false) ∧
    (w1.contains 1000000000001 = true ∧ holds ctx0 allTrue 1000000000001 c' = true) := by
  refine ⟨by decide, ?_, by decide +kernel, ?_, by decide +kernel, by decide +kernel⟩
  · exact congrArg Except.ok (Expr.same_eq _ _ (by decide +kernel))
  · have h : (match parseExprText (Expr.binary .AND (.binary .AND (.paren (Expr.binary .OR hostEqA hostEqB))
          (geBound w1.start)) (ltBound w1.stop)).print [] ctx0.lowerTbl with
        | .ok e => Expr.same e (Expr.binary .AND (.binary .AND (.paren (Expr.binary .OR hostEqA hostEqB))
          (geBound w1.start)) (ltBound w1.stop))
        | .error _ => false) = true := by decide +kernel
    split at h
    · next e he => rw [he, Expr.same_eq e _ h]
    · cases h

/-! ### The two former findings, as positive examples

Both were defects of the text route (printing the rewritten condition and parsing it again), outside
the class of the theorems above; both witnesses now come through any number of calls unchanged.
Each example also records, by running the old route (`textRoute`) in the kernel, what it gave. -/

/-- `n % -a > 1`, i.e. `n % (-1 * a) > 1` as the parser builds it: a predicate with a negated operand
(outside `strClass`, whose predicates have references, literals and calls as operands). -/
def negatedOperand : Expr :=
  .binary .GT (.binary .MOD (.varRef ['n'] .Unknown) (.binary .MUL (.integer (-1)) (.varRef ['a'] .Unknown)))
    (.integer 1)

/-- **Former finding C18-condition-does-not-reparse.** The predicate prints as `n % -1 * a > 1`, which
parses as `(n % -1) * a > 1` — that is what the text route set as the condition (n = a = 2.5: false
before, true after). The tree-building `SetTimeRange` hands the predicate to `Reduce` as it is
(`predicates_reach_reduce_untouched` applies): after one window, and after a second one, the
condition is `(n % (-1 * a) > 1 AND time >= …) AND time < …` with the original grouping. -/
theorem negated_operand_keeps_its_grouping :
    let regrouped := Expr.binary .GT (.binary .MUL (.binary .MOD (.varRef ['n'] .Unknown) (.integer (-1)))
      (.varRef ['a'] .Unknown)) (.integer 1)
    let c1 := stepSpec fa0 ctx0.lowerTbl negatedOperand w1
    let c2 := stepSpec fa0 ctx0.lowerTbl c1 w2
    strClass ctx0.lowerTbl negatedOperand = false ∧ noTimeBound ctx0.lowerTbl negatedOperand = true ∧
    Expr.same c1 (.binary .AND (.binary .AND negatedOperand (geBound w1.start)) (ltBound w1.stop)) = true ∧
    Expr.same c2 (.binary .AND (.binary .AND negatedOperand (geBound w2.start)) (ltBound w2.stop)) = true ∧
    c1.print = ("n % -1 * a > 1 AND time >= '1970-01-01T00:16:40Z' AND " ++
      "time < '1970-01-01T00:17:40Z'").toList ∧
    (match textRoute fa0 ctx0.lowerTbl (some negatedOperand) w1 with
      | .ok e => Expr.same e (.binary .AND (.binary .AND regrouped (geBound w1.start)) (ltBound w1.stop))
      | .error _ => false) = true := by
  decide +kernel

/-- `7 - 0s != b`: a predicate with constant arithmetic (outside `strClass`). -/
def foldsToTime : Expr := .binary .NEQ (.binary .SUB (.integer 7) (.duration 0)) (.varRef ['b'] .Unknown)

/-- **Former finding C18-folded-time-literal-comes-back-as-string.** The `Reduce` of the first call
folds `7 - 0s` to the time literal `1970-01-01T00:00:00.000000007Z`. A time literal has no spelling
of its own: it prints as a quoted string, so the text route read it back as a *string* literal on the
second call and the predicate `<time> != b` became `'1970-01-01T00:00:00.000000007Z' != b` (b = "a":
false after the first call, true after the second). With the tree-building `SetTimeRange` the time
literal is still a time literal after the second call (and after any further one: the condition after
call 1 has no time bound left in its predicate, `predicates_reach_reduce_untouched`). -/
theorem folded_time_literal_stays_a_time_literal :
    let b := Expr.varRef ['b'] .Unknown
    let c1 := stepSpec fa0 ctx0.lowerTbl foldsToTime w1
    let c2 := stepSpec fa0 ctx0.lowerTbl c1 w2
    strClass ctx0.lowerTbl foldsToTime = false ∧
    Expr.same c1 (.binary .AND (.binary .AND (.binary .NEQ (.time 7) b) (geBound w1.start)) (ltBound w1.stop)) = true ∧
    Expr.same c2 (.binary .AND (.binary .AND (.binary .NEQ (.time 7) b) (geBound w2.start)) (ltBound w2.stop)) = true ∧
    c2.print = ("'1970-01-01T00:00:00.000000007Z' != b AND time >= '1970-01-01T00:17:40Z' AND " ++
      "time < '1970-01-01T00:18:40Z'").toList ∧
    (match textRoute fa0 ctx0.lowerTbl (some c1) w2 with
      | .ok e => Expr.same e (.binary .AND (.binary .AND
          (.binary .NEQ (.string "1970-01-01T00:00:00.000000007Z".toList) b)
          (geBound w2.start)) (ltBound w2.stop))
      | .error _ => false) = true := by
  decide +kernel

/-! ### Non-vacuity -/

/-- `host = 'a' AND time > now() - 1h AND (region = 'x' OR region = 'y')`. -/
def sample : Expr :=
  .binary .AND (.binary .AND hostEqA
      (.binary .GT timeVar (.binary .SUB (.call ['n', 'o', 'w'] []) (.duration 3600000000000))))
    (.paren (.binary .OR (.binary .EQ (.varRef ['r'] .Unknown) (.string ['x']))
      (.binary .EQ (.varRef ['r'] .Unknown) (.string ['y']))))

example : strClass ctx0.lowerTbl sample = true := by decide
example : (stepSpec fa0 ctx0.lowerTbl sample w1).print =
    ("host = 'a' AND (r = 'x' OR r = 'y') AND time >= '1970-01-01T00:16:40Z' AND " ++
      "time < '1970-01-01T00:17:40Z'").toList := by decide +kernel
example : (stepSpec fa0 ctx0.lowerTbl (stepSpec fa0 ctx0.lowerTbl sample w1) ⟨5, 6⟩).print =
    ("host = 'a' AND (r = 'x' OR r = 'y') AND time >= '1970-01-01T00:00:00.000000005Z' AND " ++
      "time < '1970-01-01T00:00:00.000000006Z'").toList := by decide +kernel
example : holds ctx0 allTrue 1000000000000 (stepSpec fa0 ctx0.lowerTbl sample w1) = true ∧
    holds ctx0 allTrue 1059999999999 (stepSpec fa0 ctx0.lowerTbl sample w1) = true ∧
    holds ctx0 allTrue 1060000000000 (stepSpec fa0 ctx0.lowerTbl sample w1) = false ∧
    holds ctx0 allTrue 999999999999 (stepSpec fa0 ctx0.lowerTbl sample w1) = false := by decide +kernel
/-- `only_last_window_applies` instantiated on three windows; it needs nothing but the class, the
table and the last window. -/
example : ∃ cs cl, setTimeRangeSeq fa0 ctx0.lowerTbl (some sample) ([w1, ⟨5, 6⟩] ++ [w2]) = (cs ++ [cl]).map Except.ok ∧
    ∀ L t, holds ctx0 L t cl = (w2.contains t && nonTimeHolds ctx0.lowerTbl L sample) :=
  only_last_window_applies ctx0 fa0 table_ok [w1, ⟨5, 6⟩] w2 sample (by decide) window2_ok

/-- `host = 'a' OR host = 'b' OR r = 'x'`: an `OR` at the top, through two successive windows. -/
def sampleOr : Expr :=
  .binary .OR (.binary .OR hostEqA hostEqB) (.binary .EQ (.varRef ['r'] .Unknown) (.string ['x']))
/-- `host = 'a'` only. -/
def onlyHostA : Expr → Bool := fun e => Expr.same e hostEqA

example : strClass ctx0.lowerTbl sampleOr = true := by decide
example : topIsOr (rewriteNoTime ctx0.lowerTbl sampleOr) = true ∧ parenCost ctx0.lowerTbl sampleOr = 1 := by decide
/-- `only_last_window_applies` instantiated: after the two calls the condition holds exactly on the
second window and `host = 'a' OR host = 'b' OR r = 'x'`. -/
example : ∃ cs cl, setTimeRangeSeq fa0 ctx0.lowerTbl (some sampleOr) ([w1] ++ [w2]) = (cs ++ [cl]).map Except.ok ∧
    ∀ L t, holds ctx0 L t cl = (w2.contains t && nonTimeHolds ctx0.lowerTbl L sampleOr) :=
  only_last_window_applies ctx0 fa0 table_ok [w1] w2 sampleOr (by decide) window2_ok
example : (stepSpec fa0 ctx0.lowerTbl sampleOr w1).print =
    ("(host = 'a' OR host = 'b' OR r = 'x') AND time >= '1970-01-01T00:16:40Z' AND " ++
      "time < '1970-01-01T00:17:40Z'").toList := by decide +kernel
/-- No second pair of parentheses on the next call, and the first window is gone. -/
example : (stepSpec fa0 ctx0.lowerTbl (stepSpec fa0 ctx0.lowerTbl sampleOr w1) w2).print =
    ("(host = 'a' OR host = 'b' OR r = 'x') AND time >= '1970-01-01T00:17:40Z' AND " ++
      "time < '1970-01-01T00:18:40Z'").toList := by decide +kernel
example : (stepSpec fa0 ctx0.lowerTbl sampleOr w1).size = sampleOr.size + 9 ∧
    (stepSpec fa0 ctx0.lowerTbl (stepSpec fa0 ctx0.lowerTbl sampleOr w1) w2).size = sampleOr.size + 9 := by
  decide +kernel
/-- A point with `host = 'a'` (first disjunct only): selected inside the second window, not outside
— in particular not inside the first window any more. -/
example :
    let c2 := stepSpec fa0 ctx0.lowerTbl (stepSpec fa0 ctx0.lowerTbl sampleOr w1) w2
    nonTimeHolds ctx0.lowerTbl onlyHostA sampleOr = true ∧
    holds ctx0 onlyHostA 1060000000000 c2 = true ∧ holds ctx0 onlyHostA 1119999999999 c2 = true ∧
    holds ctx0 onlyHostA 1059999999999 c2 = false ∧ holds ctx0 onlyHostA 1120000000000 c2 = false ∧
    holds ctx0 onlyHostA 1000000000000 c2 = false ∧ holds ctx0 onlyHostA 5 c2 = false := by
  decide +kernel
/-- An `OR` that folds away: `host = 'a' OR false` keeps `(host = 'a')`, `true OR host = 'a'` leaves
the window alone. -/
example : (stepSpec fa0 ctx0.lowerTbl (.binary .OR hostEqA (.boolean false)) w1).print =
      "(host = 'a') AND time >= '1970-01-01T00:16:40Z' AND time < '1970-01-01T00:17:40Z'".toList ∧
    (stepSpec fa0 ctx0.lowerTbl (.binary .OR (.boolean true) hostEqA) w1).print =
      "time >= '1970-01-01T00:16:40Z' AND time < '1970-01-01T00:17:40Z'".toList := by
  decide +kernel
/-- No condition at all: the window alone. -/
example : setTimeRange fa0 ctx0.lowerTbl none w1 = .ok (.binary .AND (geBound w1.start) (ltBound w1.stop)) := by
  exact congrArg Except.ok (Expr.same_eq _ _ (by decide +kernel))

end InfluxQL.C18

import InfluxQL.Lemmas.SetTimeRange
/-
C18 — SetTimeRange replaces earlier time bounds, over any sequence of windows.

Model: `Model/SetTimeRange.lean` (`rewriteNoTime` = `rewriteWithoutTimeDimensions` before
printing, `rewrittenText` = the string it returns — in parentheses when the rewritten condition is
an `OR` —, `setTimeRange` = print → `ParseExpr` → `CReduce(·, nil)`, `setTimeRangeSeq`),
`Model/SetTimeRangeSpec.lean` (`nonTimeHolds`, the class `strClass`, `groupForAnd`, the hypotheses
`RT`, `WindowOK`). The model follows /repo after the fixes 51161c4 (a bound is recognised by a
reference to `time` on either side, in any letter case, typed or not), 86fc254 (calls are kept) and
the fix of C18-top-level-or-captures-the-window (an `OR` at the top is parenthesised before
` AND <window>` is appended). The meaning of a condition at a point is C10's `holds`; by
`C10.split_sound` this is also what `ConditionExpr` observes on the conditions concerned.

Hypotheses, all explicit in the statements:
* `RT` / `RTSeq` — the text `SetTimeRange` prints parses to the tree it is the print of
  (`expectedTree`: the grouped rewritten condition conjoined with the two bounds;
  `RT_iff_print_parse`): the plain print → parse round trip of C02/C03 on this fragment. Nothing is assumed about the top operator
  of the condition any more: the theorems cover a top-level `OR` like every other condition of the
  class (`setTimeRange_top_level_or`, `top_level_or_keeps_window`); for a concrete condition and
  window sequence the hypothesis is decided by running the parser model in the kernel
  (`RT_of_rtCheck`, `RTSeq_of_rtSeqCheck`);
* `WindowOK` — the printed window instants read back exactly;
* `isTimeRef tbl timeVar` — the lower-casing table shipped for non-ASCII runes does not touch the
  letters of `time` (true for every table the harness produces; `by decide` for `[]`).
-/
namespace InfluxQL.C18
open InfluxQL Gen
open InfluxQL.CondTime

/-- `OR` is the only operator that binds looser than `AND` (generated precedence table): it is the
only top node that the appended ` AND <window>` could regroup, and the one `rewrittenText`
parenthesises. -/
theorem gen_only_or_binds_looser_than_and :
    ∀ t ∈ Token.all, t.isOperator = true → (t.precedence < Token.AND.precedence ↔ t = .OR) := by
  decide +kernel

/-- What stands left of the appended `AND` never has an `OR` at the top, and is the rewritten
condition itself unless that is an `OR` (then it is that condition in parentheses); the text
handed to the parser is the print of this tree followed by ` AND <bounds>`. -/
theorem grouped_never_or (tbl : List (Char × Char)) (c : Expr) (w : Window) :
    topIsOr (groupForAnd (rewriteNoTime tbl c)) = false ∧
    (topIsOr (rewriteNoTime tbl c) = false → groupForAnd (rewriteNoTime tbl c) = rewriteNoTime tbl c) ∧
    (topIsOr (rewriteNoTime tbl c) = true → groupForAnd (rewriteNoTime tbl c) = .paren (rewriteNoTime tbl c)) ∧
    setTimeRangeText tbl (some c) w =
      (groupForAnd (rewriteNoTime tbl c)).print ++ [' ', 'A', 'N', 'D', ' '] ++ boundsText w :=
  ⟨topIsOr_groupForAnd _, groupForAnd_of_not_or _, fun h => by simp [groupForAnd, h], setTimeRangeText_eq tbl c w⟩

/-- **The hypothesis `RT` is the plain print → parse round trip**: the text `SetTimeRange` builds with
`fmt.Sprintf` is, character for character, `String()` of `expectedTree` (the grouped rewritten
condition conjoined with the two bounds), for every condition and window; so `RT` says
`ParseExpr (T.String()) = T` for that one tree and nothing else. -/
theorem RT_iff_print_parse (tbl : List (Char × Char)) (c : Expr) (w : Window) :
    setTimeRangeText tbl (some c) w = (expectedTree tbl c w).print ∧
    (RT tbl c w ↔ parseExprText (expectedTree tbl c w).print [] tbl = .ok (expectedTree tbl c w)) := by
  refine ⟨setTimeRangeText_is_print tbl c w, ?_⟩
  unfold RT
  rw [setTimeRangeText_is_print]

/-- **One call.** For a condition of the class (time bounds with `time` — any letter case, any
type annotation — on either side of any operator, other predicates comparing a tag or field with a
reference, literal or call; `AND`, parentheses, and `OR` between time-free conditions **also at the
top**), `SetTimeRange(start, end)` succeeds and the new condition holds at a point exactly when
`start ≤ t < end` and the non-time part of the old condition holds; the new condition is again in
the class, has the same non-time part, and has at most eight nodes more than the old one — nine
when the parentheses around a top-level `OR` are added (`parenCost`). -/
theorem setTimeRange_step (ctx : CCtx) (fa : FloatArith) (c : Expr) (w : Window)
    (hcls : strClass ctx.lowerTbl c = true) (hT : isTimeRef ctx.lowerTbl timeVar = true)
    (hrt : RT ctx.lowerTbl c w) :
    ∃ c', setTimeRange fa ctx.lowerTbl (some c) w = .ok c' ∧ c' = stepSpec fa ctx.lowerTbl c w ∧
      (WindowOK ctx w → ∀ L t, holds ctx L t c' = (w.contains t && nonTimeHolds ctx.lowerTbl L c)) ∧
      strClass ctx.lowerTbl c' = true ∧
      (∀ L, nonTimeHolds ctx.lowerTbl L c' = nonTimeHolds ctx.lowerTbl L c) ∧
      c'.size ≤ c.size + 8 + parenCost ctx.lowerTbl c := by
  refine ⟨stepSpec fa ctx.lowerTbl c w, setTimeRange_of_RT ctx.lowerTbl fa c w hcls hrt, rfl, ?_⟩
  obtain ⟨hN, hev, hsz⟩ := ntPart_spec ctx.lowerTbl fa c hcls
  obtain ⟨b1, b2, b3, b4, _⟩ := build_spec ctx fa (ntPart fa ctx.lowerTbl c) w hN hT
  rw [stepSpec_eq]
  refine ⟨?_, b1, ?_, ?_⟩
  · intro hw L t
    rw [show creduce (nilRCtx fa) (groupForAnd (rewriteNoTime ctx.lowerTbl c)) = ntPart fa ctx.lowerTbl c from rfl, b3 hw L t, hev L]
  · intro L
    rw [show creduce (nilRCtx fa) (groupForAnd (rewriteNoTime ctx.lowerTbl c)) = ntPart fa ctx.lowerTbl c from rfl, b2 L, hev L]
  · exact Nat.le_trans b4 (by omega)

/-- **A top-level `OR`** (the case of the former finding C18-top-level-or-captures-the-window): for
`l OR r` between time-free conditions of the class, the new condition holds at a point exactly
when `start ≤ t < end` **and** one of the disjuncts holds — the window guards every disjunct. -/
theorem setTimeRange_top_level_or (ctx : CCtx) (fa : FloatArith) (l r : Expr) (w : Window)
    (hcls : strClass ctx.lowerTbl (.binary .OR l r) = true) (hT : isTimeRef ctx.lowerTbl timeVar = true)
    (hrt : RT ctx.lowerTbl (.binary .OR l r) w) (hw : WindowOK ctx w) :
    ∃ c', setTimeRange fa ctx.lowerTbl (some (.binary .OR l r)) w = .ok c' ∧
      ∀ L t, holds ctx L t c' =
        (w.contains t && (nonTimeHolds ctx.lowerTbl L l || nonTimeHolds ctx.lowerTbl L r)) := by
  obtain ⟨c', h1, _, h3, _⟩ := setTimeRange_step ctx fa _ w hcls hT hrt
  refine ⟨c', h1, fun L t => ?_⟩
  rw [h3 hw L t]
  simp [nonTimeHolds]

/-- **One call, as the query engine sees it**: `ConditionExpr` of the new condition succeeds; its
residual has the value of the old non-time part, and its range is exactly `[start, end - 1 ns]`
(unless the non-time part folds to `false`, where the whole condition is `false` and no range is
needed). Window instants must be representable time literals (`MinTime < t ≤ MaxTime`). -/
theorem setTimeRange_observed (ctx : CCtx) (fa : FloatArith) (c : Expr) (w : Window)
    (hcls : strClass ctx.lowerTbl c = true) (hT : isTimeRef ctx.lowerTbl timeVar = true)
    (hrt : RT ctx.lowerTbl c w) (hw : WindowOK ctx w) (hr : w.inRange) :
    ∃ c' res tr, setTimeRange fa ctx.lowerTbl (some c) w = .ok c' ∧
      ConditionExpr ctx (some c') = .ok (res, tr) ∧
      (∀ L, evalOpt L res = nonTimeHolds ctx.lowerTbl L c) ∧
      (ntPart fa ctx.lowerTbl c ≠ .boolean false → tr = ⟨w.start, w.stop - 1⟩) ∧
      (ntPart fa ctx.lowerTbl c = .boolean false → tr = {}) := by
  obtain ⟨hN, hev, _⟩ := ntPart_spec ctx.lowerTbl fa c hcls
  obtain ⟨res, tr, h1, h2, h3, h4⟩ := conditionExpr_build ctx fa (ntPart fa ctx.lowerTbl c) w hN hT hw hr
  refine ⟨stepSpec fa ctx.lowerTbl c w, res, tr, setTimeRange_of_RT ctx.lowerTbl fa c w hcls hrt, ?_, ?_, h3, h4⟩
  · rw [stepSpec_eq]; exact h1
  · intro L; rw [h2 L, hev L]

/-- The condition `k` calls later corresponds to window `k`, for every `k`. -/
def SeqOK (P : Expr → Window → Prop) : List Expr → List Window → Prop
  | [], [] => True
  | c :: cs, w :: ws => P c w ∧ SeqOK P cs ws
  | _, _ => False

theorem SeqOK.imp {P Q : Expr → Window → Prop} (h : ∀ c w, P c w → Q c w) :
    ∀ (cs : List Expr) (ws : List Window), SeqOK P cs ws → SeqOK Q cs ws
  | [], [], _ => trivial
  | c :: cs, w :: ws, ⟨a, b⟩ => ⟨h c w a, SeqOK.imp h cs ws b⟩
  | [], _ :: _, hf => hf.elim
  | _ :: _, [], hf => hf.elim

theorem SeqOK.forall_mem (P : Expr → Window → Prop) :
    ∀ (cs : List Expr) (ws : List Window), SeqOK P cs ws → ∀ c ∈ cs, ∃ w, P c w
  | [], _, _ => fun _ hm => by cases hm
  | _ :: _, [], hf => hf.elim
  | x :: xs, w :: ws, ⟨a, b⟩ => fun c hm => by
    rcases List.mem_cons.mp hm with rfl | hm'
    · exact ⟨w, a⟩
    · exact SeqOK.forall_mem P xs ws b c hm'

/-- Size of the reduced non-time part: the quantity that never grows. -/
def core (fa : FloatArith) (tbl : List (Char × Char)) (c : Expr) : Nat := (ntPart fa tbl c).size

theorem core_le_size (tbl : List (Char × Char)) (fa : FloatArith) (c : Expr) (h : strClass tbl c = true) :
    core fa tbl c ≤ c.size + parenCost tbl c := (ntPart_spec tbl fa c h).2.2

theorem parenCost_le_one (tbl : List (Char × Char)) (c : Expr) : parenCost tbl c ≤ 1 := by
  unfold parenCost; split <;> omega

theorem core_step (ctx : CCtx) (fa : FloatArith) (c : Expr) (w : Window)
    (hcls : strClass ctx.lowerTbl c = true) (hT : isTimeRef ctx.lowerTbl timeVar = true) :
    core fa ctx.lowerTbl (stepSpec fa ctx.lowerTbl c w) ≤ core fa ctx.lowerTbl c ∧
      (stepSpec fa ctx.lowerTbl c w).size ≤ core fa ctx.lowerTbl c + 8 := by
  obtain ⟨hN, _, _⟩ := ntPart_spec ctx.lowerTbl fa c hcls
  obtain ⟨_, _, _, b4, b5⟩ := build_spec ctx fa (ntPart fa ctx.lowerTbl c) w hN hT
  rw [stepSpec_eq]
  refine ⟨?_, b4⟩
  unfold core
  rw [show ntPart fa ctx.lowerTbl (build fa (creduce (nilRCtx fa) (groupForAnd (rewriteNoTime ctx.lowerTbl c))) w)
      = creduce (nilRCtx fa) (groupForAnd (rewriteNoTime ctx.lowerTbl (build fa (ntPart fa ctx.lowerTbl c) w))) from rfl, b5]
  exact (reduce_resTF ctx.lowerTbl (nilRCtx fa) _ hN).2

/-- **Any sequence of windows** (as a continuous query makes them): every call succeeds; after
call `k` the condition holds exactly on window `k` and the non-time part of the *original*
condition — no earlier window and no earlier bound is left — and its size stays within eight nodes
of `core c`, the size of the reduced non-time part (itself at most the original size, plus one for
the parentheses around a top-level `OR`), however many calls were made. By induction on the window
list. -/
theorem setTimeRange_seq (ctx : CCtx) (fa : FloatArith) (hT : isTimeRef ctx.lowerTbl timeVar = true) :
    ∀ (ws : List Window) (c : Expr), strClass ctx.lowerTbl c = true → RTSeq fa ctx.lowerTbl c ws →
      ∃ cs : List Expr, setTimeRangeSeq fa ctx.lowerTbl (some c) ws = cs.map Except.ok ∧
        SeqOK (fun c' w =>
          (WindowOK ctx w → ∀ L t, holds ctx L t c' = (w.contains t && nonTimeHolds ctx.lowerTbl L c)) ∧
          c'.size ≤ core fa ctx.lowerTbl c + 8) cs ws
  | [], c, _, _ => ⟨[], rfl, trivial⟩
  | w :: ws, c, hcls, hrt => by
    obtain ⟨hrt1, hrts⟩ := hrt
    obtain ⟨c', hset, hc', hholds, hcls', hnt, _⟩ := setTimeRange_step ctx fa c w hcls hT hrt1
    subst hc'
    obtain ⟨cs, hcs, hok⟩ := setTimeRange_seq ctx fa hT ws (stepSpec fa ctx.lowerTbl c w) hcls' hrts
    have hcore := core_step ctx fa c w hcls hT
    refine ⟨stepSpec fa ctx.lowerTbl c w :: cs, ?_, ⟨hholds, hcore.2⟩, ?_⟩
    · simp only [setTimeRangeSeq, hset, hcs, List.map_cons]
    · refine SeqOK.imp ?_ cs ws hok
      intro c'' w'' ⟨h1, h2⟩
      refine ⟨?_, Nat.le_trans h2 (by omega)⟩
      intro hw L t
      rw [h1 hw L t, hnt L]

/-- **The condition does not grow**: after any number of calls its size is at most the size of the
original condition plus `K = 9` nodes (the two bounds, the two `AND`s, and the parentheses around a
top-level `OR`; `8` when the condition has no `OR` at the top). -/
theorem size_bounded (ctx : CCtx) (fa : FloatArith) (hT : isTimeRef ctx.lowerTbl timeVar = true)
    (ws : List Window) (c : Expr) (hcls : strClass ctx.lowerTbl c = true) (hrt : RTSeq fa ctx.lowerTbl c ws) :
    ∃ cs : List Expr, setTimeRangeSeq fa ctx.lowerTbl (some c) ws = cs.map Except.ok ∧
      ∀ c' ∈ cs, c'.size ≤ c.size + 8 + parenCost ctx.lowerTbl c ∧ c'.size ≤ c.size + 9 := by
  obtain ⟨cs, h1, h2⟩ := setTimeRange_seq ctx fa hT ws c hcls hrt
  refine ⟨cs, h1, ?_⟩
  have hc := core_le_size ctx.lowerTbl fa c hcls
  have hp := parenCost_le_one ctx.lowerTbl c
  intro c' hm
  obtain ⟨w, hw⟩ := SeqOK.forall_mem _ cs ws h2 c' hm
  have := hw.2
  constructor <;> omega

/-- **Only the last window applies**: after a non-empty sequence of calls the final condition
holds exactly on the last window and the original non-time part. -/
theorem only_last_window_applies (ctx : CCtx) (fa : FloatArith) (hT : isTimeRef ctx.lowerTbl timeVar = true)
    (ws : List Window) (wl : Window) (c : Expr) (hcls : strClass ctx.lowerTbl c = true)
    (hrt : RTSeq fa ctx.lowerTbl c (ws ++ [wl])) (hw : WindowOK ctx wl) :
    ∃ cs cl, setTimeRangeSeq fa ctx.lowerTbl (some c) (ws ++ [wl]) = (cs ++ [cl]).map Except.ok ∧
      ∀ L t, holds ctx L t cl = (wl.contains t && nonTimeHolds ctx.lowerTbl L c) := by
  obtain ⟨cs, h1, h2⟩ := setTimeRange_seq ctx fa hT (ws ++ [wl]) c hcls hrt
  clear hrt
  have key : ∀ (cs : List Expr) (ws : List Window) (P : Expr → Window → Prop), SeqOK P cs (ws ++ [wl]) →
      ∃ cs' cl, cs = cs' ++ [cl] ∧ P cl wl := by
    intro cs
    induction cs with
    | nil => intro ws P h; cases ws <;> exact h.elim
    | cons x xs ih =>
      intro ws P h
      cases ws with
      | nil =>
        cases xs with
        | nil => exact ⟨[], x, rfl, h.1⟩
        | cons y ys => exact h.2.elim
      | cons w ws' =>
        obtain ⟨cs', cl, e, p⟩ := ih ws' P h.2
        exact ⟨x :: cs', cl, by rw [e]; rfl, p⟩
  obtain ⟨cs', cl, e, p⟩ := key cs ws _ h2
  subst e
  exact ⟨cs', cl, h1, p.1 hw⟩

/-! ### Kernel-checked examples of the repaired behaviours -/

def ctx0 : CCtx := { r := { valuer := some ⟨946684800000000000, none⟩, fa := fun _ _ _ => ⟨false, 0, 0⟩ } }
def fa0 : FloatArith := fun _ _ _ => ⟨false, 0, 0⟩
def hostEqA : Expr := .binary .EQ (.varRef ['h', 'o', 's', 't'] .Unknown) (.string ['a'])
def hostEqB : Expr := .binary .EQ (.varRef ['h', 'o', 's', 't'] .Unknown) (.string ['b'])
/-- `[1970-01-01T00:16:40Z, 1970-01-01T00:17:40Z)`. -/
def w1 : Window := ⟨1000000000000, 1060000000000⟩
def allTrue : Expr → Bool := fun _ => true

theorem table_ok : isTimeRef ctx0.lowerTbl timeVar = true := by decide
theorem window_ok : WindowOK ctx0 w1 := by
  refine ⟨?_, ?_, ?_, ?_⟩ <;> decide

/-- `'2000-01-01T00:00:00Z' <= time AND host = 'a'` (bound written with `time` on the right; kept
for ever before 51161c4): in the class; the bound is replaced, and after `SetTimeRange` to a window
in 1970 a point of the window with `host = 'a'` is selected. -/
theorem reversed_bound_replaced :
    let c := Expr.binary .AND (.binary .LTE (.string "2000-01-01T00:00:00Z".toList) timeVar) hostEqA
    strClass ctx0.lowerTbl c = true ∧
    (rewriteNoTime ctx0.lowerTbl c).print = "true AND host = 'a'".toList ∧
    (stepSpec fa0 ctx0.lowerTbl c w1).print =
      "host = 'a' AND time >= '1970-01-01T00:16:40Z' AND time < '1970-01-01T00:17:40Z'".toList ∧
    w1.contains 1000000000001 = true ∧ nonTimeHolds ctx0.lowerTbl allTrue c = true ∧
    holds ctx0 allTrue 1000000000001 (stepSpec fa0 ctx0.lowerTbl c w1) = true := by
  decide +kernel

/-- `TIME > 5` and `time::integer > 5` (other letter case, type annotation; kept before 51161c4):
in the class and replaced; a window below the old bound selects its points. -/
theorem other_case_bound_replaced :
    let c := Expr.binary .GT (.varRef ['T', 'I', 'M', 'E'] .Unknown) (.integer 5)
    let c2 := Expr.binary .GT (.varRef ['t', 'i', 'm', 'e'] .Integer) (.integer 5)
    let w : Window := ⟨0, 4⟩
    strClass ctx0.lowerTbl c = true ∧ strClass ctx0.lowerTbl c2 = true ∧
    (stepSpec fa0 ctx0.lowerTbl c w).print =
      "time >= '1970-01-01T00:00:00Z' AND time < '1970-01-01T00:00:00.000000004Z'".toList ∧
    (stepSpec fa0 ctx0.lowerTbl c2 w).print = (stepSpec fa0 ctx0.lowerTbl c w).print ∧
    w.contains 2 = true ∧ nonTimeHolds ctx0.lowerTbl allTrue c = true ∧
    holds ctx0 allTrue 2 (stepSpec fa0 ctx0.lowerTbl c w) = true := by
  decide +kernel

/-- `v > abs(w)` (became `v > true` before 86fc254): in the class; the call is kept, also when a
time bound with `now()` stands next to it. -/
theorem call_in_predicate_kept :
    let c := Expr.binary .GT (.varRef ['v'] .Unknown) (.call ['a', 'b', 's'] [.varRef ['w'] .Unknown])
    let c2 := Expr.binary .AND c
      (.binary .GT timeVar (.binary .SUB (.call ['n', 'o', 'w'] []) (.duration 3600000000000)))
    strClass ctx0.lowerTbl c = true ∧ strClass ctx0.lowerTbl c2 = true ∧
    (rewriteNoTime ctx0.lowerTbl c).print = "v > abs(w)".toList ∧
    (stepSpec fa0 ctx0.lowerTbl c w1).print =
      "v > abs(w) AND time >= '1970-01-01T00:16:40Z' AND time < '1970-01-01T00:17:40Z'".toList ∧
    (stepSpec fa0 ctx0.lowerTbl c2 w1).print = (stepSpec fa0 ctx0.lowerTbl c w1).print := by
  decide +kernel

/-- `host = 'a' OR host = 'b'` (regrouped to `host = 'a' OR (host = 'b' AND <window>)` before the
fix): in the class; the text handed to the parser is `(host = 'a' OR host = 'b') AND time >= … AND
time < …`; the parser model, run in the kernel on that text, returns the tree it was printed from
(`RT` holds); the new condition is `AND (AND (paren (OR …)) ge) lt`; at a point outside the window
it does not hold although both `host` predicates do, inside the window it holds. -/
theorem top_level_or_keeps_window :
    let c := Expr.binary .OR hostEqA hostEqB
    strClass ctx0.lowerTbl c = true ∧
    setTimeRangeText ctx0.lowerTbl (some c) w1 = ("(host = 'a' OR host = 'b') AND " ++
      "time >= '1970-01-01T00:16:40Z' AND time < '1970-01-01T00:17:40Z'").toList ∧
    RT ctx0.lowerTbl c w1 ∧
    setTimeRange fa0 ctx0.lowerTbl (some c) w1 =
      .ok (.binary .AND (.binary .AND (.paren c) (geBound w1.start)) (ltBound w1.stop)) ∧
    (w1.contains 5 = false ∧
      holds ctx0 allTrue 5 (.binary .AND (.binary .AND (.paren c) (geBound w1.start)) (ltBound w1.stop)) = false) ∧
    (w1.contains 1000000000001 = true ∧
      holds ctx0 allTrue 1000000000001 (.binary .AND (.binary .AND (.paren c) (geBound w1.start)) (ltBound w1.stop)) = true) := by
  have hrt : RT ctx0.lowerTbl (Expr.binary .OR hostEqA hostEqB) w1 := RT_of_rtCheck _ _ _ (by decide +kernel)
  refine ⟨by decide, by decide +kernel, hrt, ?_, by decide +kernel, by decide +kernel⟩
  rw [setTimeRange_of_RT ctx0.lowerTbl fa0 _ w1 (by decide) hrt]
  exact congrArg Except.ok (Expr.same_eq _ _ (by decide +kernel))

/-! ### A defect that remains (outside the class of the theorems)

Found with the thorough tier while carrying the top-level-OR fix through; it does not involve `OR`
and is present before and after that fix. -/

/-- `7 - 0s != b`: a predicate with constant arithmetic (outside `strClass`, whose predicates have
references, literals and calls as operands). -/
def foldsToTime : Expr := .binary .NEQ (.binary .SUB (.integer 7) (.duration 0)) (.varRef ['b'] .Unknown)

/-- **Open finding C18-folded-time-literal-comes-back-as-string.** The first call is fine (`RT`
holds), and its `Reduce` folds `7 - 0s` to the time literal `1970-01-01T00:00:00.000000007Z`.
A time literal has no spelling of its own: it prints as a quoted string. So on the second call the
print → parse step fails (`rtCheck … = false`): the parser returns a *string* literal, and the
predicate `<time> != b` has become `'1970-01-01T00:00:00.000000007Z' != b` — a different predicate
(on the implementation: for b = "a" the first is false, the second true, so points are selected
after the second call that were not selected after the first). The model reproduces the
implementation here (correspondence stream); the same happens with `'2000-01-01' - 0`. -/
theorem folded_time_literal_comes_back_as_string :
    let b := Expr.varRef ['b'] .Unknown
    let c1 := stepSpec fa0 ctx0.lowerTbl foldsToTime w1
    strClass ctx0.lowerTbl foldsToTime = false ∧
    rtCheck ctx0.lowerTbl foldsToTime w1 = true ∧
    Expr.same c1 (.binary .AND (.binary .AND (.binary .NEQ (.time 7) b) (geBound w1.start)) (ltBound w1.stop)) = true ∧
    c1.print = ("'1970-01-01T00:00:00.000000007Z' != b AND time >= '1970-01-01T00:16:40Z' AND " ++
      "time < '1970-01-01T00:17:40Z'").toList ∧
    rtCheck ctx0.lowerTbl c1 ⟨1060000000000, 1120000000000⟩ = false ∧
    (match setTimeRange fa0 ctx0.lowerTbl (some c1) ⟨1060000000000, 1120000000000⟩ with
      | .ok c2 => Expr.same c2 (.binary .AND (.binary .AND
          (.binary .NEQ (.string "1970-01-01T00:00:00.000000007Z".toList) b)
          (geBound 1060000000000)) (ltBound 1120000000000))
      | .error _ => false) = true := by
  decide +kernel

/-! ### Non-vacuity -/

/-- `host = 'a' AND time > now() - 1h AND (region = 'x' OR region = 'y')`. -/
def sample : Expr :=
  .binary .AND (.binary .AND hostEqA
      (.binary .GT timeVar (.binary .SUB (.call ['n', 'o', 'w'] []) (.duration 3600000000000))))
    (.paren (.binary .OR (.binary .EQ (.varRef ['r'] .Unknown) (.string ['x']))
      (.binary .EQ (.varRef ['r'] .Unknown) (.string ['y']))))

example : strClass ctx0.lowerTbl sample = true := by decide
example : (stepSpec fa0 ctx0.lowerTbl sample w1).print =
    ("host = 'a' AND (r = 'x' OR r = 'y') AND time >= '1970-01-01T00:16:40Z' AND " ++
      "time < '1970-01-01T00:17:40Z'").toList := by decide +kernel
example : (stepSpec fa0 ctx0.lowerTbl (stepSpec fa0 ctx0.lowerTbl sample w1) ⟨5, 6⟩).print =
    ("host = 'a' AND (r = 'x' OR r = 'y') AND time >= '1970-01-01T00:00:00.000000005Z' AND " ++
      "time < '1970-01-01T00:00:00.000000006Z'").toList := by decide +kernel
example : holds ctx0 allTrue 1000000000000 (stepSpec fa0 ctx0.lowerTbl sample w1) = true ∧
    holds ctx0 allTrue 1059999999999 (stepSpec fa0 ctx0.lowerTbl sample w1) = true ∧
    holds ctx0 allTrue 1060000000000 (stepSpec fa0 ctx0.lowerTbl sample w1) = false ∧
    holds ctx0 allTrue 999999999999 (stepSpec fa0 ctx0.lowerTbl sample w1) = false := by decide +kernel

/-- `host = 'a' OR host = 'b' OR r = 'x'`: an `OR` at the top, through two successive windows. -/
def sampleOr : Expr :=
  .binary .OR (.binary .OR hostEqA hostEqB) (.binary .EQ (.varRef ['r'] .Unknown) (.string ['x']))
def w2 : Window := ⟨1060000000000, 1120000000000⟩
/-- `host = 'a'` only. -/
def onlyHostA : Expr → Bool := fun e => Expr.same e hostEqA

example : strClass ctx0.lowerTbl sampleOr = true := by decide
example : topIsOr (rewriteNoTime ctx0.lowerTbl sampleOr) = true ∧ parenCost ctx0.lowerTbl sampleOr = 1 := by decide
/-- The print → parse hypothesis along both calls, decided by running the parser model. -/
theorem sampleOr_rtSeq : RTSeq fa0 ctx0.lowerTbl sampleOr [w1, w2] :=
  RTSeq_of_rtSeqCheck fa0 ctx0.lowerTbl _ _ (by decide +kernel)
theorem window2_ok : WindowOK ctx0 w2 := by
  refine ⟨?_, ?_, ?_, ?_⟩ <;> decide
/-- `only_last_window_applies` instantiated: after the two calls the condition holds exactly on the
second window and `host = 'a' OR host = 'b' OR r = 'x'`. -/
example : ∃ cs cl, setTimeRangeSeq fa0 ctx0.lowerTbl (some sampleOr) ([w1] ++ [w2]) = (cs ++ [cl]).map Except.ok ∧
    ∀ L t, holds ctx0 L t cl = (w2.contains t && nonTimeHolds ctx0.lowerTbl L sampleOr) :=
  only_last_window_applies ctx0 fa0 table_ok [w1] w2 sampleOr (by decide) sampleOr_rtSeq window2_ok
example : (stepSpec fa0 ctx0.lowerTbl sampleOr w1).print =
    ("(host = 'a' OR host = 'b' OR r = 'x') AND time >= '1970-01-01T00:16:40Z' AND " ++
      "time < '1970-01-01T00:17:40Z'").toList := by decide +kernel
/-- No second pair of parentheses on the next call, and the first window is gone. -/
example : (stepSpec fa0 ctx0.lowerTbl (stepSpec fa0 ctx0.lowerTbl sampleOr w1) w2).print =
    ("(host = 'a' OR host = 'b' OR r = 'x') AND time >= '1970-01-01T00:17:40Z' AND " ++
      "time < '1970-01-01T00:18:40Z'").toList := by decide +kernel
example : (stepSpec fa0 ctx0.lowerTbl sampleOr w1).size = sampleOr.size + 9 ∧
    (stepSpec fa0 ctx0.lowerTbl (stepSpec fa0 ctx0.lowerTbl sampleOr w1) w2).size = sampleOr.size + 9 := by
  decide +kernel
/-- A point with `host = 'a'` (first disjunct only): selected inside the second window, not outside
— in particular not inside the first window any more. -/
example :
    let c2 := stepSpec fa0 ctx0.lowerTbl (stepSpec fa0 ctx0.lowerTbl sampleOr w1) w2
    nonTimeHolds ctx0.lowerTbl onlyHostA sampleOr = true ∧
    holds ctx0 onlyHostA 1060000000000 c2 = true ∧ holds ctx0 onlyHostA 1119999999999 c2 = true ∧
    holds ctx0 onlyHostA 1059999999999 c2 = false ∧ holds ctx0 onlyHostA 1120000000000 c2 = false ∧
    holds ctx0 onlyHostA 1000000000000 c2 = false ∧ holds ctx0 onlyHostA 5 c2 = false := by
  decide +kernel
/-- An `OR` that folds away: `host = 'a' OR false` keeps `(host = 'a')`, `true OR host = 'a'` leaves
the window alone. -/
example : (stepSpec fa0 ctx0.lowerTbl (.binary .OR hostEqA (.boolean false)) w1).print =
      "(host = 'a') AND time >= '1970-01-01T00:16:40Z' AND time < '1970-01-01T00:17:40Z'".toList ∧
    (stepSpec fa0 ctx0.lowerTbl (.binary .OR (.boolean true) hostEqA) w1).print =
      "time >= '1970-01-01T00:16:40Z' AND time < '1970-01-01T00:17:40Z'".toList := by
  decide +kernel

end InfluxQL.C18

import InfluxQL.Lemmas.Regex
/-!
# C11 — regex-to-literal rewriting preserves which strings match

Model: `Model/Regex.lean` — `matchRegex`, `matchExactTree` (= `matchExactRegex` after
`syntax.Parse(..., syntax.Perl).Simplify()`, which is executed in Go and shipped as a tree),
`rewriteExpr`/`rewriteCondition` (= `RewriteRegexConditions`), the matcher `matchB`
(`FullMatch`, `Search`) and the fragment `eval` of `ValuerEval.Eval`.

Trusted link (validated by stream `regex.sem`, not proved): `regexp.MatchString` on a compiled
source decides `Search` of the simplified syntax tree of that source on the decoded runes of the
subject, and the trees satisfy `Regex.wf`.
-/
namespace InfluxQL.C11
open InfluxQL InfluxQL.Rx Gen

/-! ## Obligations on the facts regenerated from ast.go -/

/-- The literal limit is 100. -/
theorem gen_maxLiterals : maxLiterals = 100 := by decide

/-- The flag tested at the top of `matchRegex` is `syntax.FoldCase` (= 1), as `hasFold` assumes. -/
theorem gen_foldGuardFlag : foldGuardFlag = 1 := by decide

/-- `switch re.Op` accepts exactly literal, capture, concatenation, class, alternation — the
operators `matchRegex` of the model handles (everything else: `nil, false`). -/
theorem gen_matchRegex_ops :
    matchRegexOps = [Op.literal, Op.capture, Op.concat, Op.charClass, Op.alternate].map Op.toNat := by decide

/-- The three limit checks stand where the model has them: the full product of the
concatenation loop (`sz > maxLiterals`), the class size (`sz > maxLiterals || sz == 0`) and the
alternation total (`len(names) > maxLiterals`); the two single-element short cuts of the
concatenation loop have no check. -/
theorem gen_limitChecks :
    limitChecks = [
      (Op.concat.toNat, ['s', 'z', ' ', '>', ' ', 'm', 'a', 'x', 'L', 'i', 't', 'e', 'r', 'a', 'l', 's']),
      (Op.charClass.toNat, ['s', 'z', ' ', '>', ' ', 'm', 'a', 'x', 'L', 'i', 't', 'e', 'r', 'a', 'l', 's', ' ', '|', '|', ' ', 's', 'z', ' ', '=', '=', ' ', '0']),
      (Op.alternate.toNat, ['l', 'e', 'n', '(', 'n', 'a', 'm', 'e', 's', ')', ' ', '>', ' ', 'm', 'a', 'x', 'L', 'i', 't', 'e', 'r', 'a', 'l', 's'])] ∧
    concatShortCuts = [
      ['l', 'e', 'n', '(', 'v', 'a', 'l', 's', ')', ' ', '=', '=', ' ', '1'],
      ['l', 'e', 'n', '(', 'n', 'a', 'm', 'e', 's', ')', ' ', '=', '=', ' ', '1']] := by decide

/-- Literals and classes refuse runes that are not encodable; U+FFFD is `utf8.RuneError`. -/
theorem gen_encodable : encodableChecks = [Op.literal.toNat, Op.charClass.toNat] ∧ runeError = 0xFFFD := by decide

/-- `matchExactRegex` demands a concatenation that starts with `OpBeginText` and ends with
`OpEndText` — text anchors only — in this order of guards. -/
theorem gen_exact :
    exactTopOp = Op.concat.toNat ∧ exactStartOp = Op.beginText.toNat ∧ exactEndOp = Op.endText.toNat ∧
    exactGuards = [
      ['e', 'r', 'r', ' ', '!', '=', ' ', 'n', 'i', 'l'],
      ['r', 'e', '.', 'O', 'p', ' ', '!', '=', ' ', 's', 'y', 'n', 't', 'a', 'x', '.', 'O', 'p', 'C', 'o', 'n', 'c', 'a', 't'],
      ['l', 'e', 'n', '(', 'r', 'e', '.', 'S', 'u', 'b', ')', ' ', '<', ' ', '2'],
      ['s', 't', 'a', 'r', 't', '.', 'O', 'p', ' ', '!', '=', ' ', 's', 'y', 'n', 't', 'a', 'x', '.', 'O', 'p', 'B', 'e', 'g', 'i', 'n', 'T', 'e', 'x', 't'],
      ['e', 'n', 'd', '.', 'O', 'p', ' ', '!', '=', ' ', 's', 'y', 'n', 't', 'a', 'x', '.', 'O', 'p', 'E', 'n', 'd', 'T', 'e', 'x', 't'],
      ['l', 'e', 'n', '(', 'r', 'e', '.', 'S', 'u', 'b', ')', ' ', '=', '=', ' ', '0']] := by decide

/-- `=~` is replaced by `=` tests joined with `OR`, `!~` by `!=` tests joined with `AND`. -/
theorem gen_rewriteOps :
    rewriteOps = [(Token.EQ.toNat, Token.OR.toNat), (Token.NEQ.toNat, Token.AND.toNat)] := by decide

/-! ## `matchRegex`: the literal list is the language -/

/-- **The literals are exactly the language.** If `matchRegex` answers `L` for a tree, then
for every string `s`: the tree matches the whole of `s` iff `s` is in `L`. -/
theorem matchRegex_exact {re : Regex} {L : List Str} (h : matchRegex re = some L) (s : Str) :
    FullMatch re s ↔ s ∈ L :=
  (regex_spec re L h).lang [] s []

/-- The same in every context: whatever precedes and follows in the subject, the piece matched
by an accepted tree is one of the literals (accepted trees contain no anchors or boundaries). -/
theorem matchRegex_exact_in_context {re : Regex} {L : List Str} (h : matchRegex re = some L)
    (pre s post : Str) : matchB re pre s post = true ↔ s ∈ L :=
  (regex_spec re L h).lang pre s post

/-- **At most 100 literals**, through every one of the three concatenation strategies. -/
theorem matchRegex_le_100 {re : Regex} {L : List Str} (h : matchRegex re = some L) : L.length ≤ 100 :=
  (regex_spec re L h).len

/-- No literal contains U+FFFD (or came from a surrogate): each is the UTF-8 text of itself. -/
theorem matchRegex_no_replacement_char {re : Regex} {L : List Str} (h : matchRegex re = some L) :
    ∀ l, l ∈ L → Char.ofNat 0xFFFD ∉ l := by
  intro l hl hc
  exact absurd ((regex_spec re L h).enc l hl _ hc) (by decide)

/-! ## `matchExactRegex`: search = membership -/

/-- **Anchored top level.** If `matchExactRegex` answers for a (well-formed) tree, the strings
in which `regexp` finds a match — anywhere, as `MatchString` searches — are exactly the
literals substituted by the rewrite (`rewriteLits`: the answer, or `''` for `/^$/`). -/
theorem matchExact_sound {re : Regex} {L : List Str} (h : matchExactTree re = some L) (hw : re.wf = true)
    (s : Str) : Search re s ↔ s ∈ rewriteLits L :=
  (matchExactTree_spec h hw).1 s

/-- The same for every Go string, valid UTF-8 or not: `regexp` reads a stray byte as U+FFFD,
`=` compares bytes; since no substituted literal contains U+FFFD both agree. -/
theorem matchExact_sound_bytes {re : Regex} {L : List Str} (h : matchExactTree re = some L)
    (hw : re.wf = true) (x : GoStr) : Search re (decodeStr x) ↔ x ∈ (rewriteLits L).map ofStr := by
  rw [(matchExactTree_spec h hw).1, decode_mem_iff (matchExactTree_spec h hw).2.2]

/-- At most 100 equality tests are substituted. -/
theorem matchExact_le_100 {re : Regex} {L : List Str} (h : matchExactTree re = some L) (hw : re.wf = true) :
    (rewriteLits L).length ≤ 100 :=
  (matchExactTree_spec h hw).2.1

/-! ## The rewritten condition accepts the same values -/

/-- The trusted link as a hypothesis: `parseRe` yields well-formed trees and `matchStr`
(`MatchString` of the compiled source) decides `Search` of that tree on the decoded subject. -/
structure RegexpLink (parseRe : Str → Option Regex) (matchStr : Str → GoStr → Bool) : Prop where
  wf : ∀ src re, parseRe src = some re → re.wf = true
  search : ∀ src re, parseRe src = some re → ∀ x, matchStr src x = searchB re (decodeStr x)

theorem exactSound_of_link {parseRe : Str → Option Regex} {matchStr : Str → GoStr → Bool}
    (hl : RegexpLink parseRe matchStr) : ExactSound matchStr (matchExact parseRe) := by
  intro src L h x
  unfold matchExact at h
  cases hp : parseRe src with
  | none => rw [hp] at h; simp at h
  | some re =>
    rw [hp] at h
    simp only at h
    rw [hl.search src re hp, searchB_iff]
    exact matchExact_sound_bytes h (hl.wf src re hp) x

/-- **`=~`.** For every value of the tested operand — any string (empty, not valid UTF-8),
absent (`nil`), a bool, a number — `EvalBool` of `lhs =~ /src/` and of what replaces it agree. -/
theorem rewrite_preserves_eqregex {parseRe : Str → Option Regex} {matchStr : Str → GoStr → Bool}
    (hl : RegexpLink parseRe matchStr) (atom : Expr → Val) (lhs : Expr) (src : Str) :
    truthy (eval matchStr atom (rewriteNode (matchExact parseRe) (.binary .EQREGEX lhs (.regex src)))) =
      truthy (eval matchStr atom (.binary .EQREGEX lhs (.regex src))) :=
  (rewriteNode_rel matchStr atom (exactSound_of_link hl) .EQREGEX lhs src).truthy.symm

/-- **`!~`.** The same for `lhs !~ /src/` and its `!=` … `AND` … replacement. -/
theorem rewrite_preserves_neqregex {parseRe : Str → Option Regex} {matchStr : Str → GoStr → Bool}
    (hl : RegexpLink parseRe matchStr) (atom : Expr → Val) (lhs : Expr) (src : Str) :
    truthy (eval matchStr atom (rewriteNode (matchExact parseRe) (.binary .NEQREGEX lhs (.regex src)))) =
      truthy (eval matchStr atom (.binary .NEQREGEX lhs (.regex src))) :=
  (rewriteNode_rel matchStr atom (exactSound_of_link hl) .NEQREGEX lhs src).truthy.symm

/-- **Whole conditions.** For a WHERE condition in which the regex tests are combined by
`AND`, `OR` and parentheses with arbitrary other sub-expressions, `EvalBool` before and after
`RewriteRegexConditions` (top-level parentheses stripped) agree — for every assignment of
values to everything else in the condition (`atom`), absent tags included. -/
theorem rewrite_preserves {parseRe : Str → Option Regex} {matchStr : Str → GoStr → Bool}
    (hl : RegexpLink parseRe matchStr) (atom : Expr → Val) {e : Expr} (hc : Cond e) :
    (rewriteCondition parseRe (some e)).map (fun e' => truthy (eval matchStr atom e')) =
      some (truthy (eval matchStr atom e)) := by
  simp only [rewriteCondition, Option.map_some, Option.some.injEq]
  rw [eval_stripParen]
  exact (rewriteExpr_rel matchStr atom (exactSound_of_link hl) hc).truthy.symm

/-- No WHERE clause stays no WHERE clause. -/
theorem rewrite_none (parseRe : Str → Option Regex) : rewriteCondition parseRe none = none := rfl

/-! ## What is left as it is -/

/-- A regex test whose source `matchExactRegex` does not accept is not touched. -/
theorem untouched_of_none {exact : Str → Option (List Str)} {src : Str} (h : exact src = none)
    (op : Token) (lhs : Expr) :
    rewriteNode exact (.binary op lhs (.regex src)) = .binary op lhs (.regex src) := by
  rw [rewriteNode_regex, h]
  by_cases h1 : op = .EQREGEX
  · rw [if_pos h1]
  · rw [if_neg h1]
    by_cases h2 : op = .NEQREGEX
    · rw [if_pos h2]
    · rw [if_neg h2]

/-- **Unanchored, or anchored to lines.** An answer of `matchExactRegex` means the tree is a
concatenation whose first element is `OpBeginText` and whose last is `OpEndText`: expressions
without both text anchors at the top level, and `(?m)^ … $` (line anchors), are refused. -/
theorem untouched_unless_text_anchored {re : Regex} (h : matchExactTree re ≠ none) :
    re.op = .concat ∧ (re.sub.head?.map Regex.op) = some .beginText ∧
      (re.sub.getLast?.map Regex.op) = some .endText := by
  cases hm : matchExactTree re with
  | none => exact absurd hm h
  | some L =>
    obtain ⟨flags, rune, b, e, inner, rfl, hb, he, _⟩ := matchExactTree_some hm
    refine ⟨rfl, by simp [Regex.sub, hb], ?_⟩
    simp only [Regex.sub]
    rw [show b :: (inner ++ [e]) = (b :: inner) ++ [e] by simp, List.getLast?_concat]
    simp [he]

/-- **Case folding.** A tree with the fold-case flag is refused on the spot. -/
theorem untouched_foldcase (op : Op) {flags : Nat} (rune : List Nat) (sub : List Regex)
    (h : hasFold flags = true) : matchRegex (.mk op flags rune sub) = none := by
  cases op <;> simp [matchRegex, h]

/-- **Case folding, repetition, inner anchors, `.`, word boundaries — anywhere.** On a
well-formed tree an answer of `matchRegex` means that every node of the tree is a literal,
capture, concatenation, class or alternation without the fold-case flag. Hence a tree that
contains, at any depth, a fold-case node, `*`, `+`, `?`, `{n,m}`, `^`/`$` in either flavour,
`\b`, `.`, or an empty alternative is refused. -/
theorem untouched_if_unaccepted_node {re : Regex} (hw : re.wf = true) {n : Regex} (hn : n ∈ nodes re)
    (hbad : acceptedNode n = false) : matchRegex re = none := by
  cases h : matchRegex re with
  | none => rfl
  | some L => rw [regex_nodes re L h hw n hn] at hbad; simp at hbad

/-- **More than 100 alternatives.** A tree whose language has more than 100 strings is
refused (whatever its shape). -/
theorem untouched_over_100 {re : Regex} {ws : List Str} (hn : ws.Nodup) (hm : ∀ w, w ∈ ws → FullMatch re w)
    (hlen : ws.length > 100) : matchRegex re = none := by
  cases h : matchRegex re with
  | none => rfl
  | some L =>
    have h1 := nodup_length_le hn (fun w hw => (matchRegex_exact h w).mp (hm w hw))
    have h2 := matchRegex_le_100 h
    omega

/-! ## Kernel-checked examples -/

section Examples

private def lit (s : Str) : Regex := .mk .literal 212 (s.map Char.toNat) []
private def cls (r : List Nat) : Regex := .mk .charClass 212 r []
private def cap (r : Regex) : Regex := .mk .capture 212 [] [r]
private def anchored (inner : List Regex) : Regex :=
  .mk .concat 0 [] (.mk .beginText 212 [] [] :: (inner ++ [.mk .endText 468 [] []]))

/-- `/^foo$/` → `'foo'`. -/
example : matchExactTree (anchored [lit ['f', 'o', 'o']]) = some [['f', 'o', 'o']] := by decide
/-- `/^(a|b)c$/` (parsed as capture of class `[a-b]`, literal `c`) → `'ac'`, `'bc'`. -/
example : matchExactTree (anchored [cap (cls [97, 98]), lit ['c']]) = some [['a', 'c'], ['b', 'c']] := by decide
/-- `/^$/` → answer `[]`, substituted literal `''`. -/
example : matchExactTree (anchored []) = some [] ∧ rewriteLits [] = [[]] := by decide
/-- The three strategies: many × one, one × many, many × many. -/
example : matchExactTree (anchored [cls [97, 98], lit ['x'], cls [99, 100]]) =
    some [['a', 'x', 'c'], ['a', 'x', 'd'], ['b', 'x', 'c'], ['b', 'x', 'd']] := by decide
/-- 10 × 10 = 100 literals are accepted, 10 × 11 are not. -/
example : (matchExactTree (anchored [cls [97, 106], cls [97, 106]])).map List.length = some 100 := by decide +kernel
example : matchExactTree (anchored [cls [97, 106], cls [97, 107]]) = none := by decide +kernel
/-- … but 100 × 1 and 1 × 100 go through the unchecked short cuts (still ≤ 100). -/
example : (matchExactTree (anchored [cls [256, 355], lit ['x']])).map List.length = some 100 := by decide +kernel
/-- `(?m)^foo$` (line anchors) is refused — and must be: it matches inside `"x\nfoo"`,
which is not the literal `foo` (the defect repaired by the `fix:` commit in /repo). -/
example :
    let re : Regex := .mk .concat 0 [] [.mk .beginLine 196 [] [], lit ['f', 'o', 'o'], .mk .endLine 196 [] []]
    matchExactTree re = none ∧ searchB re ['x', '\n', 'f', 'o', 'o'] = true ∧
      searchB (anchored [lit ['f', 'o', 'o']]) ['x', '\n', 'f', 'o', 'o'] = false := by decide
/-- `(?i)^foo$` is refused; it matches `FOO`. -/
example :
    let re : Regex := .mk .concat 0 [] [.mk .beginText 213 [] [], .mk .literal 213 [70, 79, 79] [], .mk .endText 469 [] []]
    matchExactTree re = none ∧ searchB re ['f', 'O', 'o'] = true := by decide
/-- Unanchored `foo`, repetition `^a+$` are refused. -/
example : matchExactTree (lit ['f', 'o', 'o']) = none ∧
    matchExactTree (anchored [.mk .plus 212 [] [lit ['a']]]) = none := by decide
/-- The three defects repaired by `fix: do not rewrite regexes with empty classes or unencodable
runes`: an empty class (matches nothing, was rewritten to `= ''`), a surrogate (never matches,
was rewritten to `= '�'`), U+FFFD (matches every stray byte) are refused now. -/
example : matchExactTree (anchored [cls []]) = none ∧ matchExactTree (anchored [cap (.mk .literal 212 [0xD800] [])]) = none ∧
    matchExactTree (anchored [.mk .literal 212 [0xFFFD] []]) = none ∧
    matchExactTree (anchored [cls [0xD7FF, 0xD800]]) = none := by decide
/-- The hypothesis `RegexpLink` of the rewrite theorems is satisfiable (the theorems are not vacuous). -/
example : RegexpLink (fun _ => some (anchored [lit ['f', 'o', 'o']]))
    (fun _ x => searchB (anchored [lit ['f', 'o', 'o']]) (decodeStr x)) :=
  ⟨fun _ _ h => by cases h; decide, fun _ _ h _ => by cases h; rfl⟩
/-- A rewritten condition: `t !~ /^(a|b)c$/` becomes `(t != 'ac' AND t != 'bc')`, the top-level
parentheses stripped. -/
example :
    let tree := anchored [cap (cls [97, 98]), lit ['c']]
    let t : Expr := .varRef ['t'] .Unknown
    rewriteCondition (fun _ => some tree) (some (.binary .NEQREGEX t (.regex ['x']))) =
      some (.binary .AND (.binary .NEQ t (.string ['a', 'c'])) (.binary .NEQ t (.string ['b', 'c']))) := by
  simp only [rewriteCondition, Option.map_some, Option.some.injEq]
  rfl

end Examples

end InfluxQL.C11

import InfluxQL.Model.ParserStmt
import InfluxQL.Lemmas.Digits
import InfluxQL.Lemmas.ParserTok
import InfluxQL.Lemmas.IntLit
import InfluxQL.Props.C03
/-
C01 — the parser accepts the grammar and builds the denoted AST.

The model is `Model/ParserStmt.lean` (all statements). The statement-level theorem

  parse_render : WF a → Legal ℓ a → parseStatement (render a ℓ) = ok a

is *not yet proved* (see notes/C01.md); every statement family is tied to the implementation
by the correspondence streams `parse.stmt` / `parse.query` only. Proved here, for all inputs:
obligations on the dispatch table regenerated from parse_tree.go, and the token-level behaviour of
the pieces every statement is assembled from (`ParseOptionalTokenAndInt`, integer clamping).
-/
namespace InfluxQL.C01
open InfluxQL Gen

/-! ## the dispatch table regenerated from `init()` of parse_tree.go -/

def keysOf {α} (l : List (Token × α)) : List Token := l.map Prod.fst

/-- No token of a node is registered twice, neither as two handlers, nor as two subtrees, nor as a
handler and a subtree (the real `Group`/`Handle` would have panicked in `init()`). -/
def nodeConflictFree (n : DispatchNode) : Bool :=
  (keysOf n.handlers ++ keysOf n.subs).Nodup

/-- `Keys` lists exactly the registered tokens (it is what the error message enumerates). -/
def nodeKeysExact (n : DispatchNode) : Bool :=
  n.keys.all (fun k => (keysOf n.handlers ++ keysOf n.subs).contains k) &&
  (keysOf n.handlers ++ keysOf n.subs).all (fun k => n.keys.contains k) &&
  n.keys.length == n.handlers.length + n.subs.length

theorem gen_dispatch_conflict_free : dispatch.all nodeConflictFree = true := by decide

theorem gen_dispatch_keys_exact : dispatch.all nodeKeysExact = true := by decide

/-- Every subtree index points into the table, and strictly forward (so the tree is a tree). -/
theorem gen_dispatch_indices_forward :
    (dispatch.zipIdx.all fun (n, i) => n.subs.all fun (_, j) => i < j && j < dispatch.length) = true := by decide

/-- Depth of the subtree at index `i` (with fuel). -/
def depthFrom : Nat → Nat → Nat
  | 0, _ => 0
  | fuel + 1, i => 1 + ((dispatch.getD i default).subs.map fun (_, j) => depthFrom fuel j).foldl max 0

/-- A statement is selected by at most three leading keywords (`SHOW TAG KEYS`, `ALTER RETENTION
POLICY`, …): the dispatch loop of the model, started with `dispatch.length + 1` rounds, never runs
out of rounds. -/
theorem gen_dispatch_depth : depthFrom (dispatch.length + 1) 0 = 3 := by decide

/-- The eleven statement-leading keywords, in the order the error message lists them. -/
theorem gen_dispatch_root_keys :
    (dispatch.getD 0 default).keys =
      [.SELECT, .DELETE, .SHOW, .CREATE, .DROP, .EXPLAIN, .GRANT, .REVOKE, .ALTER, .SET, .KILL] := by decide

/-! ## one round of `ParseTree.Parse` over token sequences -/

/-- The next significant token names a subtree: descend, consuming the token. -/
theorem dispatch_step_sub (fuel it idx k j : Nat) (s : PState) (lx : Lexeme) (hn : s.n = k + 1)
    (hb : s.buf[k]? = some lx) (ht : lx.tok ≠ .BOUNDPARAM) (hw : lx.tok ≠ .WS) (hc : lx.tok ≠ .COMMENT)
    (hsub : lookupTok lx.tok (dispatch.getD idx default).subs = some j) :
    (dispatchLoop fuel (it + 1) idx).run s = (dispatchLoop fuel it j).run { s with n := k } := by
  conv => lhs; unfold dispatchLoop
  rw [P.run_bind _ _ s lx { s with n := k } (scanIW_buffered s k lx hn hb ht hw hc)]
  simp only [hsub]

/-- The next significant token names a handler of this subtree: the handler runs on the rest. -/
theorem dispatch_step_handler (fuel it idx k : Nat) (h : Handler) (s : PState) (lx : Lexeme) (hn : s.n = k + 1)
    (hb : s.buf[k]? = some lx) (ht : lx.tok ≠ .BOUNDPARAM) (hw : lx.tok ≠ .WS) (hc : lx.tok ≠ .COMMENT)
    (hsub : lookupTok lx.tok (dispatch.getD idx default).subs = none)
    (hh : lookupTok lx.tok (dispatch.getD idx default).handlers = some h) :
    (dispatchLoop fuel (it + 1) idx).run s = (runHandler fuel h).run { s with n := k } := by
  conv => lhs; unfold dispatchLoop
  rw [P.run_bind _ _ s lx { s with n := k } (scanIW_buffered s k lx hn hb ht hw hc)]
  simp only [hsub, hh]

/-- Any other token: the error names the token found and lists `Keys` of the subtree reached, in
registration order, at the token's position. -/
theorem dispatch_step_error (fuel it idx k : Nat) (s : PState) (lx : Lexeme) (hn : s.n = k + 1)
    (hb : s.buf[k]? = some lx) (ht : lx.tok ≠ .BOUNDPARAM) (hw : lx.tok ≠ .WS) (hc : lx.tok ≠ .COMMENT)
    (hsub : lookupTok lx.tok (dispatch.getD idx default).subs = none)
    (hh : lookupTok lx.tok (dispatch.getD idx default).handlers = none) :
    (dispatchLoop fuel (it + 1) idx).run s =
      .error (.err (.found (tokstr lx.tok lx.lit) ((dispatch.getD idx default).keys.map Token.str) lx.pos)) := by
  conv => lhs; unfold dispatchLoop
  rw [P.run_bind _ _ s lx { s with n := k } (scanIW_buffered s k lx hn hb ht hw hc)]
  simp only [hsub, hh]
  rfl

/-- `SHOW DATABASES` as two pushed-back tokens. -/
def exShowState (second : Lexeme) : PState :=
  { r := Cursor.ofRunes [], n := 2, buf := [second, ⟨.SHOW, ⟨0, 0⟩, []⟩] }

/-- Non-vacuity: the token path SHOW · DATABASES selects `parseShowDatabasesStatement`. -/
example : ∃ s', (parseStatement 10).run (exShowState ⟨.DATABASES, ⟨0, 5⟩, []⟩) = .ok (.showDatabases, s') := by
  refine ⟨{ exShowState ⟨.DATABASES, ⟨0, 5⟩, []⟩ with n := 0 }, ?_⟩
  refine (dispatch_step_sub 10 20 0 1 1 _ ⟨.SHOW, ⟨0, 0⟩, []⟩ rfl rfl (by decide) (by decide) (by decide) (by decide)).trans ?_
  refine (dispatch_step_handler 10 19 1 0 .parseShowDatabasesStatement _ ⟨.DATABASES, ⟨0, 5⟩, []⟩ rfl rfl (by decide) (by decide)
    (by decide) (by decide) (by decide)).trans ?_
  rfl

/-- Non-vacuity: `SHOW x` is rejected with the sixteen keywords that may follow SHOW. -/
example : (parseStatement 10).run (exShowState ⟨.IDENT, ⟨0, 5⟩, ['x']⟩) =
    .error (.err (.found ['x'] ((dispatch.getD 1 default).keys.map Token.str) ⟨0, 5⟩)) := by
  refine (dispatch_step_sub 10 20 0 1 1 _ ⟨.SHOW, ⟨0, 0⟩, []⟩ rfl rfl (by decide) (by decide) (by decide) (by decide)).trans ?_
  exact dispatch_step_error 10 19 1 0 _ ⟨.IDENT, ⟨0, 5⟩, ['x']⟩ rfl rfl (by decide) (by decide) (by decide) (by decide) (by decide)

/-! ## integers in LIMIT-like positions -/

/-- `strconv.ParseInt` with the error dropped, on the decimal spelling of `n`: the value itself, or
`MaxInt64` when it does not fit (the range hypothesis of DESIGN Appendix B made explicit). -/
theorem parseInt64Clamped_natDigits (n : Nat) :
    parseInt64Clamped (natDigits n) = if (n : Int) ≤ maxInt64 then (n : Int) else maxInt64 := by
  unfold parseInt64Clamped
  rw [splitSign_natDigits]
  simp only [allDigits_natDigits, Bool.not_true, Bool.false_eq_true, ↓reduceIte, digitsVal_natDigits]
  unfold maxInt64 minInt64
  split <;> split <;> omega

example : parseInt64Clamped "99999999999999999999".toList = maxInt64 := by decide
example : parseInt64Clamped "007".toList = 7 := by decide
example : parseInt64Clamped "-5".toList = -5 := by decide

/-! ## `ParseOptionalTokenAndInt` over token sequences

The state is described by its pushed-back tokens (`n = k + 1`: entry `k` of the ring is delivered
next), so the statements are independent of the scanner. -/

/-- `ParseOptionalTokenAndInt(t)` when the next significant token is something else: the result
is 0 and the token is pushed back — the state is exactly as before. Hence of `LIMIT`, `OFFSET`,
`SLIMIT`, `SOFFSET` the slots not written stay 0 and do not disturb the others. -/
theorem optTokInt_absent (t : Token) (s : PState) (k : Nat) (lx : Lexeme) (hn : s.n = k + 1)
    (hb : s.buf[k]? = some lx) (ht : lx.tok ≠ .BOUNDPARAM) (hw : lx.tok ≠ .WS) (hc : lx.tok ≠ .COMMENT)
    (hne : lx.tok ≠ t) :
    (parseOptTokInt t).run s = .ok (0, s) := by
  unfold parseOptTokInt
  rw [P.run_bind _ _ s lx { s with n := k } (scanIW_buffered s k lx hn hb ht hw hc)]
  simp only [hne, ne_eq, not_false_eq_true, ↓reduceIte]
  rw [P.run_bind _ _ _ () _ (unscan_run _)]
  cases s
  simp_all [StateT.run, pure, StateT.pure, Except.pure]

/-- `ParseOptionalTokenAndInt(t)` when the next two significant tokens are `t` and an INTEGER
spelled as the decimal digits of `v`: exactly these two tokens are consumed and the value written
is the value returned (clamped to `MaxInt64`, the range hypothesis of DESIGN Appendix B). -/
theorem optTokInt_present (t : Token) (s : PState) (k : Nat) (kw il : Lexeme) (v : Nat) (hn : s.n = k + 2)
    (hb1 : s.buf[k + 1]? = some kw) (hb0 : s.buf[k]? = some il)
    (hk : kw.tok = t) (ht : t ≠ .BOUNDPARAM) (hw : t ≠ .WS) (hc : t ≠ .COMMENT)
    (hi : il.tok = .INTEGER) (hl : il.lit = natDigits v) :
    (parseOptTokInt t).run s = .ok ((if (v : Int) ≤ maxInt64 then (v : Int) else maxInt64), { s with n := k }) := by
  unfold parseOptTokInt
  rw [P.run_bind _ _ s kw { s with n := k + 1 } (scanIW_buffered s (k + 1) kw hn hb1 (hk ▸ ht) (hk ▸ hw) (hk ▸ hc))]
  simp only [hk, ne_eq, not_true_eq_false, ↓reduceIte]
  rw [P.run_bind _ _ { s with n := k + 1 } il { s with n := k }
    (scanIW_buffered { s with n := k + 1 } k il rfl hb0 (by rw [hi]; decide) (by rw [hi]; decide) (by rw [hi]; decide))]
  have hnn : ¬ ((if (v : Int) ≤ maxInt64 then (v : Int) else maxInt64) < 0) := by
    unfold maxInt64; split <;> omega
  simp only [hi, not_true_eq_false, ↓reduceIte, hl, parseInt64Clamped_natDigits, hnn]
  simp [StateT.run, pure, StateT.pure, Except.pure]

/-- `LIMIT 10` followed by `END`, with `n` of these tokens still pushed back. -/
def exLimitState (n : Nat) : PState :=
  { r := Cursor.ofRunes [], n := n,
    buf := [⟨.END, ⟨0, 9⟩, []⟩, ⟨.INTEGER, ⟨0, 6⟩, natDigits 10⟩, ⟨.LIMIT, ⟨0, 0⟩, []⟩] }

/-- Non-vacuity of `optTokInt_present` / `optTokInt_absent`. -/
example : (parseOptTokInt .LIMIT).run (exLimitState 3) = .ok (10, exLimitState 1) := by
  have h := optTokInt_present .LIMIT (exLimitState 3) 1 ⟨.LIMIT, ⟨0, 0⟩, []⟩ ⟨.INTEGER, ⟨0, 6⟩, natDigits 10⟩ 10
    rfl rfl rfl rfl (by decide) (by decide) (by decide) rfl rfl
  simpa [maxInt64, exLimitState] using h

example : (parseOptTokInt .OFFSET).run (exLimitState 1) = .ok (0, exLimitState 1) :=
  optTokInt_absent .OFFSET (exLimitState 1) 0 ⟨.END, ⟨0, 9⟩, []⟩ rfl rfl (by decide) (by decide) (by decide) (by decide)

/-! ## Operators: the precedence table the expression parser consults -/

/-- The regenerated precedence table is the five levels the property names; with
`C03.chain_wellGrouped` / `C03.chain_unique` this fixes the nesting of every operator chain inside
every statement (a change of one level in token.go breaks this obligation for C01 as well). -/
theorem gen_precedence_levels :
    ([Gen.Token.MUL, .DIV, .MOD, .BITWISE_AND].all (·.precedence == 5)) ∧
    ([Gen.Token.ADD, .SUB, .BITWISE_OR, .BITWISE_XOR].all (·.precedence == 4)) ∧
    ([Gen.Token.EQ, .NEQ, .LT, .LTE, .GT, .GTE, .EQREGEX, .NEQREGEX].all (·.precedence == 3)) ∧
    Gen.Token.AND.precedence = 2 ∧ Gen.Token.OR.precedence = 1 := C03.gen_precedence_levels

end InfluxQL.C01

import InfluxQL.Model.ParserStmt
import InfluxQL.Lemmas.Digits
import InfluxQL.Lemmas.ParserTok
import InfluxQL.Lemmas.IntLit
import InfluxQL.Props.C03
import InfluxQL.Lemmas.Render
import InfluxQL.Lemmas.ExprRender
/-
C01 — the parser accepts the grammar and builds the denoted AST.

The model is `Model/ParserStmt.lean` (all statements). The statement-level theorem

  parse_render : WF a → Legal ℓ a → parseStatement (render a ℓ) = ok a

is proved below ("Free spelling") for the administrative statement families — for every choice of
keyword case, identifier quoting and gaps (whitespace runs and comments), from the first character of
the text: `…_statement_render_parse`. Every family that contains an expression, a source list or a
SELECT is tied to the implementation by the correspondence streams `parse.stmt` / `parse.query` only
(see notes/C01.md). Also proved here, for all inputs: obligations on the dispatch table regenerated
from parse_tree.go, and the token-level behaviour of the pieces every statement is assembled from
(`ParseOptionalTokenAndInt`, integer clamping).
-/
namespace InfluxQL.C01
open InfluxQL Gen

/-! ## the dispatch table regenerated from `init()` of parse_tree.go -/

def keysOf {α} (l : List (Token × α)) : List Token := l.map Prod.fst

/-- No token of a node is registered twice, neither as two handlers, nor as two subtrees, nor as a
handler and a subtree (the real `Group`/`Handle` would have panicked in `init()`). -/
def nodeConflictFree (n : DispatchNode) : Bool :=
  (keysOf n.handlers ++ keysOf n.subs).Nodup

/-- `Keys` lists exactly the registered tokens (it is what the error message enumerates). -/
def nodeKeysExact (n : DispatchNode) : Bool :=
  n.keys.all (fun k => (keysOf n.handlers ++ keysOf n.subs).contains k) &&
  (keysOf n.handlers ++ keysOf n.subs).all (fun k => n.keys.contains k) &&
  n.keys.length == n.handlers.length + n.subs.length

theorem gen_dispatch_conflict_free : dispatch.all nodeConflictFree = true := by decide

theorem gen_dispatch_keys_exact : dispatch.all nodeKeysExact = true := by decide

/-- Every subtree index points into the table, and strictly forward (so the tree is a tree). -/
theorem gen_dispatch_indices_forward :
    (dispatch.zipIdx.all fun (n, i) => n.subs.all fun (_, j) => i < j && j < dispatch.length) = true := by decide

/-- Depth of the subtree at index `i` (with fuel). -/
def depthFrom : Nat → Nat → Nat
  | 0, _ => 0
  | fuel + 1, i => 1 + ((dispatch.getD i default).subs.map fun (_, j) => depthFrom fuel j).foldl max 0

/-- A statement is selected by at most three leading keywords (`SHOW TAG KEYS`, `ALTER RETENTION
POLICY`, …): the dispatch loop of the model, started with `dispatch.length + 1` rounds, never runs
out of rounds. -/
theorem gen_dispatch_depth : depthFrom (dispatch.length + 1) 0 = 3 := by decide

/-- The eleven statement-leading keywords, in the order the error message lists them. -/
theorem gen_dispatch_root_keys :
    (dispatch.getD 0 default).keys =
      [.SELECT, .DELETE, .SHOW, .CREATE, .DROP, .EXPLAIN, .GRANT, .REVOKE, .ALTER, .SET, .KILL] := by decide

/-! ## one round of `ParseTree.Parse` over token sequences -/

/-- The next significant token names a subtree: descend, consuming the token. -/
theorem dispatch_step_sub (fuel it idx k j : Nat) (s : PState) (lx : Lexeme) (hn : s.n = k + 1)
    (hb : s.buf[k]? = some lx) (ht : lx.tok ≠ .BOUNDPARAM) (hw : lx.tok ≠ .WS) (hc : lx.tok ≠ .COMMENT)
    (hsub : lookupTok lx.tok (dispatch.getD idx default).subs = some j) :
    (dispatchLoop fuel (it + 1) idx).run s = (dispatchLoop fuel it j).run { s with n := k } := by
  conv => lhs; unfold dispatchLoop
  rw [P.run_bind _ _ s lx { s with n := k } (scanIW_buffered s k lx hn hb ht hw hc)]
  simp only [hsub]

/-- The next significant token names a handler of this subtree: the handler runs on the rest. -/
theorem dispatch_step_handler (fuel it idx k : Nat) (h : Handler) (s : PState) (lx : Lexeme) (hn : s.n = k + 1)
    (hb : s.buf[k]? = some lx) (ht : lx.tok ≠ .BOUNDPARAM) (hw : lx.tok ≠ .WS) (hc : lx.tok ≠ .COMMENT)
    (hsub : lookupTok lx.tok (dispatch.getD idx default).subs = none)
    (hh : lookupTok lx.tok (dispatch.getD idx default).handlers = some h) :
    (dispatchLoop fuel (it + 1) idx).run s = (runHandler fuel h).run { s with n := k } := by
  conv => lhs; unfold dispatchLoop
  rw [P.run_bind _ _ s lx { s with n := k } (scanIW_buffered s k lx hn hb ht hw hc)]
  simp only [hsub, hh]

/-- Any other token: the error names the token found and lists `Keys` of the subtree reached, in
registration order, at the token's position. -/
theorem dispatch_step_error (fuel it idx k : Nat) (s : PState) (lx : Lexeme) (hn : s.n = k + 1)
    (hb : s.buf[k]? = some lx) (ht : lx.tok ≠ .BOUNDPARAM) (hw : lx.tok ≠ .WS) (hc : lx.tok ≠ .COMMENT)
    (hsub : lookupTok lx.tok (dispatch.getD idx default).subs = none)
    (hh : lookupTok lx.tok (dispatch.getD idx default).handlers = none) :
    (dispatchLoop fuel (it + 1) idx).run s =
      .error (.err (.found (tokstr lx.tok lx.lit) ((dispatch.getD idx default).keys.map Token.str) lx.pos)) := by
  conv => lhs; unfold dispatchLoop
  rw [P.run_bind _ _ s lx { s with n := k } (scanIW_buffered s k lx hn hb ht hw hc)]
  simp only [hsub, hh]
  rfl

/-- `SHOW DATABASES` as two pushed-back tokens. -/
def exShowState (second : Lexeme) : PState :=
  { r := Cursor.ofRunes [], n := 2, buf := [second, ⟨.SHOW, ⟨0, 0⟩, []⟩] }

/-- Non-vacuity: the token path SHOW · DATABASES selects `parseShowDatabasesStatement`. -/
example : ∃ s', (parseStatement 10).run (exShowState ⟨.DATABASES, ⟨0, 5⟩, []⟩) = .ok (.showDatabases, s') := by
  refine ⟨{ exShowState ⟨.DATABASES, ⟨0, 5⟩, []⟩ with n := 0 }, ?_⟩
  refine (dispatch_step_sub 10 20 0 1 1 _ ⟨.SHOW, ⟨0, 0⟩, []⟩ rfl rfl (by decide) (by decide) (by decide) (by decide)).trans ?_
  refine (dispatch_step_handler 10 19 1 0 .parseShowDatabasesStatement _ ⟨.DATABASES, ⟨0, 5⟩, []⟩ rfl rfl (by decide) (by decide)
    (by decide) (by decide) (by decide)).trans ?_
  rfl

/-- Non-vacuity: `SHOW x` is rejected with the sixteen keywords that may follow SHOW. -/
example : (parseStatement 10).run (exShowState ⟨.IDENT, ⟨0, 5⟩, ['x']⟩) =
    .error (.err (.found ['x'] ((dispatch.getD 1 default).keys.map Token.str) ⟨0, 5⟩)) := by
  refine (dispatch_step_sub 10 20 0 1 1 _ ⟨.SHOW, ⟨0, 0⟩, []⟩ rfl rfl (by decide) (by decide) (by decide) (by decide)).trans ?_
  exact dispatch_step_error 10 19 1 0 _ ⟨.IDENT, ⟨0, 5⟩, ['x']⟩ rfl rfl (by decide) (by decide) (by decide) (by decide) (by decide)

/-! ## integers in LIMIT-like positions -/

/-- `strconv.ParseInt` with the error dropped, on the decimal spelling of `n`: the value itself, or
`MaxInt64` when it does not fit (the range hypothesis of DESIGN Appendix B made explicit). -/
theorem parseInt64Clamped_natDigits (n : Nat) :
    parseInt64Clamped (natDigits n) = if (n : Int) ≤ maxInt64 then (n : Int) else maxInt64 := by
  unfold parseInt64Clamped
  rw [splitSign_natDigits]
  simp only [allDigits_natDigits, Bool.not_true, Bool.false_eq_true, ↓reduceIte, digitsVal_natDigits]
  unfold maxInt64 minInt64
  split <;> split <;> omega

example : parseInt64Clamped "99999999999999999999".toList = maxInt64 := by decide
example : parseInt64Clamped "007".toList = 7 := by decide
example : parseInt64Clamped "-5".toList = -5 := by decide

/-! ## `ParseOptionalTokenAndInt` over token sequences

The state is described by its pushed-back tokens (`n = k + 1`: entry `k` of the ring is delivered
next), so the statements are independent of the scanner. -/

/-- `ParseOptionalTokenAndInt(t)` when the next significant token is something else: the result
is 0 and the token is pushed back — the state is exactly as before. Hence of `LIMIT`, `OFFSET`,
`SLIMIT`, `SOFFSET` the slots not written stay 0 and do not disturb the others. -/
theorem optTokInt_absent (t : Token) (s : PState) (k : Nat) (lx : Lexeme) (hn : s.n = k + 1)
    (hb : s.buf[k]? = some lx) (ht : lx.tok ≠ .BOUNDPARAM) (hw : lx.tok ≠ .WS) (hc : lx.tok ≠ .COMMENT)
    (hne : lx.tok ≠ t) :
    (parseOptTokInt t).run s = .ok (0, s) := by
  unfold parseOptTokInt
  rw [P.run_bind _ _ s lx { s with n := k } (scanIW_buffered s k lx hn hb ht hw hc)]
  simp only [hne, ne_eq, not_false_eq_true, ↓reduceIte]
  rw [P.run_bind _ _ _ () _ (unscan_run _)]
  cases s
  simp_all [StateT.run, pure, StateT.pure, Except.pure]

/-- `ParseOptionalTokenAndInt(t)` when the next two significant tokens are `t` and an INTEGER
spelled as the decimal digits of `v`: exactly these two tokens are consumed and the value written
is the value returned (clamped to `MaxInt64`, the range hypothesis of DESIGN Appendix B). -/
theorem optTokInt_present (t : Token) (s : PState) (k : Nat) (kw il : Lexeme) (v : Nat) (hn : s.n = k + 2)
    (hb1 : s.buf[k + 1]? = some kw) (hb0 : s.buf[k]? = some il)
    (hk : kw.tok = t) (ht : t ≠ .BOUNDPARAM) (hw : t ≠ .WS) (hc : t ≠ .COMMENT)
    (hi : il.tok = .INTEGER) (hl : il.lit = natDigits v) :
    (parseOptTokInt t).run s = .ok ((if (v : Int) ≤ maxInt64 then (v : Int) else maxInt64), { s with n := k }) := by
  unfold parseOptTokInt
  rw [P.run_bind _ _ s kw { s with n := k + 1 } (scanIW_buffered s (k + 1) kw hn hb1 (hk ▸ ht) (hk ▸ hw) (hk ▸ hc))]
  simp only [hk, ne_eq, not_true_eq_false, ↓reduceIte]
  rw [P.run_bind _ _ { s with n := k + 1 } il { s with n := k }
    (scanIW_buffered { s with n := k + 1 } k il rfl hb0 (by rw [hi]; decide) (by rw [hi]; decide) (by rw [hi]; decide))]
  have hnn : ¬ ((if (v : Int) ≤ maxInt64 then (v : Int) else maxInt64) < 0) := by
    unfold maxInt64; split <;> omega
  simp only [hi, not_true_eq_false, ↓reduceIte, hl, parseInt64Clamped_natDigits, hnn]
  simp [StateT.run, pure, StateT.pure, Except.pure]

/-- `LIMIT 10` followed by `END`, with `n` of these tokens still pushed back. -/
def exLimitState (n : Nat) : PState :=
  { r := Cursor.ofRunes [], n := n,
    buf := [⟨.END, ⟨0, 9⟩, []⟩, ⟨.INTEGER, ⟨0, 6⟩, natDigits 10⟩, ⟨.LIMIT, ⟨0, 0⟩, []⟩] }

/-- Non-vacuity of `optTokInt_present` / `optTokInt_absent`. -/
example : (parseOptTokInt .LIMIT).run (exLimitState 3) = .ok (10, exLimitState 1) := by
  have h := optTokInt_present .LIMIT (exLimitState 3) 1 ⟨.LIMIT, ⟨0, 0⟩, []⟩ ⟨.INTEGER, ⟨0, 6⟩, natDigits 10⟩ 10
    rfl rfl rfl rfl (by decide) (by decide) (by decide) rfl rfl
  simpa [maxInt64, exLimitState] using h

example : (parseOptTokInt .OFFSET).run (exLimitState 1) = .ok (0, exLimitState 1) :=
  optTokInt_absent .OFFSET (exLimitState 1) 0 ⟨.END, ⟨0, 9⟩, []⟩ rfl rfl (by decide) (by decide) (by decide) (by decide)

/-! ## Operators: the precedence table the expression parser consults -/

/-- The regenerated precedence table is the five levels the property names; with
`C03.chain_wellGrouped` / `C03.chain_unique` this fixes the nesting of every operator chain inside
every statement (a change of one level in token.go breaks this obligation for C01 as well). -/
theorem gen_precedence_levels :
    ([Gen.Token.MUL, .DIV, .MOD, .BITWISE_AND].all (·.precedence == 5)) ∧
    ([Gen.Token.ADD, .SUB, .BITWISE_OR, .BITWISE_XOR].all (·.precedence == 4)) ∧
    ([Gen.Token.EQ, .NEQ, .LT, .LTE, .GT, .GTE, .EQREGEX, .NEQREGEX].all (·.precedence == 3)) ∧
    Gen.Token.AND.precedence = 2 ∧ Gen.Token.OR.precedence = 1 := C03.gen_precedence_levels

/-! ## Free spelling: keyword case, gaps, quoting (`Lemmas/Render.lean`)

A statement text is `render l` for a list `l` of `(gap, piece)` pairs: every piece (keyword in some
case, name bare or quoted, string, integer with leading zeros, duration literal, `=`, `,`) preceded
by a gap (any sequence of whitespace runes and comments, possibly empty). `Legal l k`: every gap
and piece is well formed and no token runs into the next (`Piece.EndOK`; automatic after a
non-empty gap). Texts are delivered runes (CR / CRLF folded to LF by the reader); the end-to-end
theorems take a raw text whose delivered form (`foldCR`) is the rendering. -/

open Render

/-- Obligation on the regenerated keyword table: the key of every entry is the ASCII lower-casing of
`Token.String()` of its token, which `Lookup` maps back to the token (a word of identifier runes). -/
theorem gen_keywords_lower : ∀ p ∈ keywords, p.2.str.map lowerAscii = p.1 ∧ p.2.isKw = true :=
  Render.gen_keywords_lower

/-- **(a) Keyword case.** For every entry `(kw, tok)` of the regenerated keyword table and every word
`w` whose ASCII lower-casing is `kw` — any mix of upper and lower case, letter by letter — `w`
followed by a rune that ends a word (or by the end of the input) scans as the single token `tok`, and
the scanner stops right behind `w`. -/
theorem keyword_anyCase (kw : Str) (tok : Token) (hmem : (kw, tok) ∈ keywords) (w k : Str)
    (hw : w.map lowerAscii = kw) (hk : WordEnd k) : ScansAs w k tok [] :=
  scansAs_kwEntry kw tok hmem w k hw hk

/-- **(b) Gap, then token.** In front of `gap ++ piece ++ k`, where the gap is any sequence of
whitespace runes and comments (`/* … */` closed by its first `*/`, `-- …⏎`; no bound on their number
or length; possibly empty) and `piece` scans as one token, `ScanIgnoreWhitespace` delivers exactly
that token and leaves the parser before `k` with nothing pushed back. Also after a one-token
look-ahead (`Around`). -/
theorem gap_then_token (s : PState) (g : Render.Gap) (piece k : Str) (T : Token) (L : Str) (hok : gapOK g = true)
    (hs : s.Around (gapText g ++ (piece ++ k))) (hsc : ScansAs piece k T L) :
    ∃ lx s', scanIW.run s = .ok (lx, s') ∧ lx.tok = T ∧ lx.lit = L ∧ s'.Before k :=
  delivers s g piece k T L hok hs hsc

/-- **(c) and the other pieces.** Every legal piece — a keyword in any case, a name bare (if it does
not need quotes) or quoted (any expressible name), a string literal, digits with leading zeros, a
duration literal, `=`, `,` — followed by a text that does not continue it is exactly one token with
the expected kind and value. -/
theorem piece_one_token (p : Piece) (k : Str) (hok : p.ok = true) (hend : p.EndOK k) :
    ScansAs p.text k p.tok p.lit := scansAs_piece p k hok hend

/-- A name that does not need quotes may be written either way: both spellings are legal and
denote the same name (`piece_one_token` gives IDENT `name` for both). -/
theorem name_bare_or_quoted (name : Str) (hq : identNeedsQuotes name = false) (hne : name ≠ []) :
    (Piece.name .bare name).ok = true ∧ (Piece.name .quoted name).ok = true ∧
    (Piece.name .bare name).lit = (Piece.name .quoted name).lit := by
  refine ⟨by simp [Piece.ok, NameSpelling.ok, hq, hne], ?_, rfl⟩
  simp only [Piece.ok, NameSpelling.ok, decide_eq_true_eq]
  exact expressible_of_bare name hq hne

/-- **Raw whitespace.** The theorems above speak about the delivered text (`foldCR text`). A raw run
of space, tab, LF, CR — in particular CR LF line ends — is delivered as a legal non-empty gap, so
it may be written wherever a gap may. -/
theorem raw_whitespace_is_gap (w : Str) (hne : w ≠ []) (h : ∀ c ∈ w, isRawWs c = true) :
    ∃ g : Render.Gap, g ≠ [] ∧ gapOK g = true ∧ gapText g = foldCR w := foldCR_gap w hne h

/-! ### the dispatch keywords in free spelling -/

/-- Follow tokens through the regenerated dispatch tree from node `idx`: the handler the last one
selects. -/
def dispatchPath : Nat → List Token → Option Handler
  | _, [] => none
  | idx, t :: rest =>
    match lookupTok t (dispatch.getD idx default).subs with
    | some j => dispatchPath j rest
    | none =>
      match rest with
      | [] => lookupTok t (dispatch.getD idx default).handlers
      | _ :: _ => none

/-- **The dispatch on freely spelled keywords.** If the tokens of the pieces `l` lead from node
`idx` to handler `h`, then `dispatchLoop` on a legal spelling `l ++ body` is `h` started right
behind the last piece of `l` (before `body`'s first gap). -/
theorem dispatch_render (fuel : Nat) (h : Handler) (l : List (Render.Gap × Piece)) :
    ∀ (it idx : Nat) (s : PState) (body : List (Render.Gap × Piece)) (k : Str),
      dispatchPath idx (l.map (·.2.tok)) = some h → l.length ≤ it → Legal (l ++ body) k →
      s.Before (render (l ++ body) ++ k) →
      ∃ s', (dispatchLoop fuel it idx).run s = (runHandler fuel h).run s' ∧ s'.Before (render body ++ k) := by
  induction l with
  | nil => intro it idx s body k hp; cases hp
  | cons gp rest ih =>
    obtain ⟨g, p⟩ := gp
    intro it idx s body k hp hlen hL hs
    cases it with
    | zero => simp at hlen
    | succ it =>
    rw [List.cons_append] at hL hs
    obtain ⟨lx, s1, h1, t1, _, b1⟩ := step s g p (rest ++ body) k hL hs.around
    simp only [List.map_cons] at hp
    cases rest with
    | nil =>
      refine ⟨s1, ?_, b1⟩
      simp only [List.map_nil, dispatchPath] at hp
      conv => lhs; unfold dispatchLoop
      rw [P.run_bind _ _ s lx s1 h1]
      simp only [t1]
      cases hsub : lookupTok p.tok (dispatch.getD idx default).subs with
      | some j => rw [hsub] at hp; cases hp
      | none =>
        rw [hsub] at hp
        simp only [hp]
    | cons gp2 rest2 =>
      simp only [List.map_cons] at hp
      unfold dispatchPath at hp
      cases hsub : lookupTok p.tok (dispatch.getD idx default).subs with
      | none => rw [hsub] at hp; cases hp
      | some j =>
        rw [hsub] at hp
        obtain ⟨s', h2, b2⟩ := ih it j s1 body k hp (by simpa using hlen) hL.tail b1
        refine ⟨s', ?_, b2⟩
        conv => lhs; unfold dispatchLoop
        rw [P.run_bind _ _ s lx s1 h1]
        simp only [t1, hsub]
        exact h2

/-- The same for `ParseStatement`. -/
theorem parseStatement_render (fuel : Nat) (h : Handler) (l body : List (Render.Gap × Piece)) (s : PState) (k : Str)
    (hp : dispatchPath 0 (l.map (·.2.tok)) = some h) (hlen : l.length ≤ dispatch.length + 1)
    (hL : Legal (l ++ body) k) (hs : s.Before (render (l ++ body) ++ k)) :
    ∃ s', (parseStatement fuel).run s = (runHandler fuel h).run s' ∧ s'.Before (render body ++ k) :=
  dispatch_render fuel h l _ 0 s body k hp hlen hL hs

/-- Keywords `toks` written as the words `ks`, each after its gap. -/
def kwPieces : List Token → List (Render.Gap × Str) → List (Render.Gap × Piece)
  | t :: toks, (g, w) :: ks => (g, .kw t w) :: kwPieces toks ks
  | _, _ => []

theorem kwPieces_toks : ∀ (toks : List Token) (ks : List (Render.Gap × Str)), ks.length = toks.length →
    (kwPieces toks ks).map (·.2.tok) = toks ∧ (kwPieces toks ks).length = toks.length
  | [], [], _ => ⟨rfl, rfl⟩
  | [], _ :: _, h => by simp at h
  | _ :: _, [], h => by simp at h
  | t :: toks, (g, w) :: ks, h => by
    obtain ⟨h1, h2⟩ := kwPieces_toks toks ks (by simpa using h)
    refine ⟨?_, ?_⟩
    · show t :: (kwPieces toks ks).map (·.2.tok) = t :: toks
      rw [h1]
    · show (kwPieces toks ks).length + 1 = toks.length + 1
      rw [h2]

/-- The keyword paths of the statement families treated below and the handler they select. -/
def familyPaths : List (List Token × Handler) :=
  [([.SHOW, .CONTINUOUS, .QUERIES], .parseShowContinuousQueriesStatement),
   ([.SHOW, .DATABASES], .parseShowDatabasesStatement),
   ([.SHOW, .QUERIES], .parseShowQueriesStatement),
   ([.SHOW, .SHARD, .GROUPS], .parseShowShardGroupsStatement),
   ([.SHOW, .SHARDS], .parseShowShardsStatement),
   ([.SHOW, .SUBSCRIPTIONS], .parseShowSubscriptionsStatement),
   ([.SHOW, .USERS], .parseShowUsersStatement),
   ([.DROP, .DATABASE], .parseDropDatabaseStatement),
   ([.DROP, .MEASUREMENT], .parseDropMeasurementStatement),
   ([.DROP, .USER], .parseDropUserStatement),
   ([.SHOW, .GRANTS, .FOR], .parseGrantsForUserStatement),
   ([.DROP, .RETENTION, .POLICY], .parseDropRetentionPolicyStatement),
   ([.DROP, .CONTINUOUS, .QUERY], .parseDropContinuousQueryStatement),
   ([.SHOW, .RETENTION, .POLICIES], .parseShowRetentionPoliciesStatement),
   ([.KILL, .QUERY], .parseKillQueryStatement),
   ([.DROP, .SHARD], .parseDropShardStatement),
   ([.CREATE, .USER], .parseCreateUserStatement),
   ([.SET, .PASSWORD, .FOR], .parseSetPasswordUserStatement),
   ([.GRANT], .parseGrantStatement),
   ([.REVOKE], .parseRevokeStatement),
   ([.CREATE, .RETENTION, .POLICY], .parseCreateRetentionPolicyStatement),
   ([.SHOW, .STATS], .parseShowStatsStatement),
   ([.SHOW, .DIAGNOSTICS], .parseShowDiagnosticsStatement)]

/-- Obligation on the regenerated tables: every path above consists of keywords of the scanner's
table and selects its handler from the root of the dispatch tree, within the rounds of the loop. -/
theorem gen_familyPaths : ∀ p ∈ familyPaths,
    (∀ t ∈ p.1, t.isKw = true) ∧ dispatchPath 0 p.1 = some p.2 ∧ p.1.length ≤ dispatch.length + 1 := by
  decide +kernel

/-- **From the first character.** `ParseStatement` on a legal free spelling of the keywords `toks`
(a path of `familyPaths`) followed by a legal spelling `body` is the path's handler started on
`body`. -/
theorem parseStatement_family (fuel : Nat) (toks : List Token) (h : Handler) (hmem : (toks, h) ∈ familyPaths)
    (ks : List (Render.Gap × Str)) (hks : ks.length = toks.length) (body : List (Render.Gap × Piece)) (s : PState) (k : Str)
    (hL : Legal (kwPieces toks ks ++ body) k) (hs : s.Before (render (kwPieces toks ks ++ body) ++ k)) :
    ∃ s', (parseStatement fuel).run s = (runHandler fuel h).run s' ∧ s'.Before (render body ++ k) ∧ Legal body k := by
  obtain ⟨_, hpath, hlen⟩ := gen_familyPaths (toks, h) hmem
  obtain ⟨h1, h2⟩ := kwPieces_toks toks ks hks
  obtain ⟨s', hr, hb⟩ := parseStatement_render fuel h (kwPieces toks ks) body s k (by rw [h1]; exact hpath)
    (by rw [h2]; exact hlen) hL hs
  exact ⟨s', hr, hb, ((legal_append _ _ _).mp hL).2⟩

/-- `ParseStatement(text)`: the parser is started before the delivered text followed by NUL. -/
theorem parseStatementText_of_run (text : Str) (params : List (Str × BoundValue)) (tbl : List (Char × Char))
    (st : Statement) (s' : PState)
    (h : (parseStatement (fuelFor text)).run (PState.init text params tbl) = .ok (st, s')) :
    parseStatementText text params tbl = .ok st := by
  unfold parseStatementText
  simp only [StateT.run'] at h ⊢
  simp only [StateT.run] at h
  rw [h]; rfl

/-- End to end: a raw text whose delivered form is a legal spelling of the keywords of a family path
followed by `body` and any continuation `k'`, on which the path's handler returns `st`. -/
theorem statement_of_family (text : Str) (params : List (Str × BoundValue)) (tbl : List (Char × Char))
    (toks : List Token) (h : Handler) (hmem : (toks, h) ∈ familyPaths) (ks : List (Render.Gap × Str))
    (hks : ks.length = toks.length) (body : List (Render.Gap × Piece)) (k' : Str) (st : Statement)
    (hfold : foldCR text = render (kwPieces toks ks ++ body) ++ k')
    (hL : Legal (kwPieces toks ks ++ body) (k' ++ [eofRune]))
    (hfam : ∀ s : PState, s.Before (render body ++ (k' ++ [eofRune])) → Legal body (k' ++ [eofRune]) →
      ∃ s', (runHandler (fuelFor text) h).run s = .ok (st, s')) :
    parseStatementText text params tbl = .ok st := by
  have hs := PState.init_before text params tbl
  rw [hfold, List.append_assoc] at hs
  obtain ⟨s1, h1, b1, hL2⟩ := parseStatement_family (fuelFor text) toks h hmem ks hks body _ _ hL hs
  obtain ⟨s', h2⟩ := hfam s1 b1 hL2
  exact parseStatementText_of_run text params tbl st s' (by rw [h1]; exact h2)

/-! ### statements without arguments -/

/-- The handlers that read nothing, with their keywords. -/
def zeroArgFamily : List (List Token × Handler × Statement) :=
  [([.SHOW, .CONTINUOUS, .QUERIES], .parseShowContinuousQueriesStatement, .showContinuousQueries),
   ([.SHOW, .DATABASES], .parseShowDatabasesStatement, .showDatabases),
   ([.SHOW, .QUERIES], .parseShowQueriesStatement, .showQueries),
   ([.SHOW, .SHARD, .GROUPS], .parseShowShardGroupsStatement, .showShardGroups),
   ([.SHOW, .SHARDS], .parseShowShardsStatement, .showShards),
   ([.SHOW, .SUBSCRIPTIONS], .parseShowSubscriptionsStatement, .showSubscriptions),
   ([.SHOW, .USERS], .parseShowUsersStatement, .showUsers)]

theorem gen_zeroArgFamily : ∀ p ∈ zeroArgFamily, (p.1, p.2.1) ∈ familyPaths := by decide

/-- The handler returns the statement and reads nothing, in every state. -/
theorem zeroArg_render_parse (fuel : Nat) (toks : List Token) (h : Handler) (st : Statement)
    (hh : (toks, h, st) ∈ zeroArgFamily) (s : PState) : (runHandler fuel h).run s = .ok (st, s) := by
  simp only [zeroArgFamily, List.mem_cons, Prod.mk.injEq, List.not_mem_nil, or_false] at hh
  rcases hh with ⟨_, rfl, rfl⟩ | ⟨_, rfl, rfl⟩ | ⟨_, rfl, rfl⟩ | ⟨_, rfl, rfl⟩ | ⟨_, rfl, rfl⟩ | ⟨_, rfl, rfl⟩ |
    ⟨_, rfl, rfl⟩ <;> rfl

/-- **SHOW CONTINUOUS QUERIES / DATABASES / QUERIES / SHARD GROUPS / SHARDS / SUBSCRIPTIONS / USERS,
from the first character**: every text whose delivered form is the keywords, each in any case and
after any gap (the first gap may be empty), followed by anything `k'` that does not continue the
last keyword, parses to the statement. -/
theorem zeroArg_statement_render_parse (text : Str) (params : List (Str × BoundValue)) (tbl : List (Char × Char))
    (toks : List Token) (h : Handler) (st : Statement) (hh : (toks, h, st) ∈ zeroArgFamily)
    (ks : List (Render.Gap × Str)) (hks : ks.length = toks.length) (k' : Str)
    (hfold : foldCR text = render (kwPieces toks ks) ++ k')
    (hL : Legal (kwPieces toks ks) (k' ++ [eofRune])) :
    parseStatementText text params tbl = .ok st := by
  refine statement_of_family text params tbl toks h (gen_zeroArgFamily _ hh) ks hks [] k' st
    (by rw [List.append_nil]; exact hfold) (by rw [List.append_nil]; exact hL) ?_
  intro s _ _
  exact ⟨s, zeroArg_render_parse _ toks h st hh s⟩

/-! ### one name: DROP DATABASE / DROP MEASUREMENT / DROP USER / SHOW GRANTS FOR -/

def singleNameFamily : List (List Token × Handler × (Str → Statement)) :=
  [([.DROP, .DATABASE], .parseDropDatabaseStatement, .dropDatabase),
   ([.DROP, .MEASUREMENT], .parseDropMeasurementStatement, .dropMeasurement),
   ([.DROP, .USER], .parseDropUserStatement, .dropUser),
   ([.SHOW, .GRANTS, .FOR], .parseGrantsForUserStatement, .showGrantsForUser)]

theorem gen_singleNameFamily : ∀ p ∈ singleNameFamily, (p.1, p.2.1) ∈ familyPaths := by decide

/-- **`<name>` in free spelling**: after any gap, the name bare (if it needs no quotes) or quoted. -/
theorem singleName_render_parse (fuel : Nat) (toks : List Token) (h : Handler) (C : Str → Statement)
    (hh : (toks, h, C) ∈ singleNameFamily) (s : PState) (g : Render.Gap) (sp : NameSpelling) (name k : Str)
    (hL : Legal [(g, .name sp name)] k) (hs : s.Before (render [(g, .name sp name)] ++ k)) :
    ∃ s', (runHandler fuel h).run s = .ok (C name, s') ∧ s'.Before k := by
  obtain ⟨s', hrun, hb⟩ := parseIdent_of (name := name) (step s g (.name sp name) [] k hL hs.around)
  refine ⟨s', ?_, hb⟩
  simp only [singleNameFamily, List.mem_cons, Prod.mk.injEq, List.not_mem_nil, or_false] at hh
  rcases hh with ⟨_, rfl, rfl⟩ | ⟨_, rfl, rfl⟩ | ⟨_, rfl, rfl⟩ | ⟨_, rfl, rfl⟩ <;>
    (simp only [runHandler]; rw [P.run_bind _ _ s name s' hrun]; rfl)

/-- **DROP DATABASE / DROP MEASUREMENT / DROP USER / SHOW GRANTS FOR `<name>`, from the first
character.** -/
theorem singleName_statement_render_parse (text : Str) (params : List (Str × BoundValue)) (tbl : List (Char × Char))
    (toks : List Token) (h : Handler) (C : Str → Statement) (hh : (toks, h, C) ∈ singleNameFamily)
    (ks : List (Render.Gap × Str)) (hks : ks.length = toks.length) (g : Render.Gap) (sp : NameSpelling) (name k' : Str)
    (hfold : foldCR text = render (kwPieces toks ks ++ [(g, .name sp name)]) ++ k')
    (hL : Legal (kwPieces toks ks ++ [(g, .name sp name)]) (k' ++ [eofRune])) :
    parseStatementText text params tbl = .ok (C name) := by
  refine statement_of_family text params tbl toks h (gen_singleNameFamily _ hh) ks hks _ k' _ hfold hL ?_
  intro s hs hL2
  obtain ⟨s', h1, _⟩ := singleName_render_parse _ toks h C hh s g sp name _ hL2 hs
  exact ⟨s', h1⟩

/-! ### `<name> ON <db>`: DROP RETENTION POLICY, DROP CONTINUOUS QUERY -/

/-- `<name> ON <db>` with its five choices: three gaps, the case of `ON`, two quotings. -/
def nameOnDbPieces (g1 : Render.Gap) (sp1 : NameSpelling) (g2 : Render.Gap) (on : Str) (g3 : Render.Gap) (sp2 : NameSpelling)
    (name db : Str) : List (Render.Gap × Piece) :=
  [(g1, .name sp1 name), (g2, .kw .ON on), (g3, .name sp2 db)]

theorem parseNameOnDb_render (s : PState) (g1 : Render.Gap) (sp1 : NameSpelling) (g2 : Render.Gap) (on : Str) (g3 : Render.Gap)
    (sp2 : NameSpelling) (name db k : Str) (hL : Legal (nameOnDbPieces g1 sp1 g2 on g3 sp2 name db) k)
    (hs : s.Before (render (nameOnDbPieces g1 sp1 g2 on g3 sp2 name db) ++ k)) :
    ∃ s', parseNameOnDb.run s = .ok ((name, db), s') ∧ s'.Before k := by
  obtain ⟨s1, h1, b1⟩ := parseIdent_of (name := name) (step s g1 _ _ k hL hs.around)
  obtain ⟨s2, h2, b2⟩ := expectTok_of (t := .ON) (L := []) ["ON"] (step s1 g2 _ _ k hL.tail b1.around)
  obtain ⟨s3, h3, b3⟩ := parseIdent_of (name := db) (step s2 g3 _ _ k hL.tail.tail b2.around)
  refine ⟨s3, ?_, b3⟩
  unfold parseNameOnDb
  rw [P.run_bind _ _ s name s1 h1, P.run_bind _ _ s1 () s2 h2, P.run_bind _ _ s2 db s3 h3]
  rfl

def nameOnDbFamily : List (List Token × Handler × (Str → Str → Statement)) :=
  [([.DROP, .RETENTION, .POLICY], .parseDropRetentionPolicyStatement, .dropRetentionPolicy),
   ([.DROP, .CONTINUOUS, .QUERY], .parseDropContinuousQueryStatement, .dropContinuousQuery)]

theorem gen_nameOnDbFamily : ∀ p ∈ nameOnDbFamily, (p.1, p.2.1) ∈ familyPaths := by decide

/-- **`<name> ON <db>` in free spelling.** -/
theorem nameOnDb_render_parse (fuel : Nat) (toks : List Token) (h : Handler) (C : Str → Str → Statement)
    (hh : (toks, h, C) ∈ nameOnDbFamily) (s : PState) (g1 : Render.Gap) (sp1 : NameSpelling) (g2 : Render.Gap) (on : Str)
    (g3 : Render.Gap) (sp2 : NameSpelling) (name db k : Str)
    (hL : Legal (nameOnDbPieces g1 sp1 g2 on g3 sp2 name db) k)
    (hs : s.Before (render (nameOnDbPieces g1 sp1 g2 on g3 sp2 name db) ++ k)) :
    ∃ s', (runHandler fuel h).run s = .ok (C name db, s') ∧ s'.Before k := by
  obtain ⟨s', hrun, hb⟩ := parseNameOnDb_render s g1 sp1 g2 on g3 sp2 name db k hL hs
  refine ⟨s', ?_, hb⟩
  simp only [nameOnDbFamily, List.mem_cons, Prod.mk.injEq, List.not_mem_nil, or_false] at hh
  rcases hh with ⟨_, rfl, rfl⟩ | ⟨_, rfl, rfl⟩ <;>
    (simp only [runHandler]; rw [P.run_bind _ _ s (name, db) s' hrun]; rfl)

/-- **DROP RETENTION POLICY / DROP CONTINUOUS QUERY `<name> ON <db>`, from the first character.** -/
theorem nameOnDb_statement_render_parse (text : Str) (params : List (Str × BoundValue)) (tbl : List (Char × Char))
    (toks : List Token) (h : Handler) (C : Str → Str → Statement) (hh : (toks, h, C) ∈ nameOnDbFamily)
    (ks : List (Render.Gap × Str)) (hks : ks.length = toks.length) (g1 : Render.Gap) (sp1 : NameSpelling) (g2 : Render.Gap)
    (on : Str) (g3 : Render.Gap) (sp2 : NameSpelling) (name db k' : Str)
    (hfold : foldCR text = render (kwPieces toks ks ++ nameOnDbPieces g1 sp1 g2 on g3 sp2 name db) ++ k')
    (hL : Legal (kwPieces toks ks ++ nameOnDbPieces g1 sp1 g2 on g3 sp2 name db) (k' ++ [eofRune])) :
    parseStatementText text params tbl = .ok (C name db) := by
  refine statement_of_family text params tbl toks h (gen_nameOnDbFamily _ hh) ks hks _ k' _ hfold hL ?_
  intro s hs hL2
  obtain ⟨s', h1, _⟩ := nameOnDb_render_parse _ toks h C hh s g1 sp1 g2 on g3 sp2 name db _ hL2 hs
  exact ⟨s', h1⟩

/-! ### the optional `ON <name>` clause: SHOW RETENTION POLICIES, KILL QUERY; DROP SHARD -/

/-- The optional clause: absent, or a gap, `ON` in some case, a gap, the name in some quoting. -/
def onPieces : Option (Render.Gap × Str × Render.Gap × NameSpelling) → Str → List (Render.Gap × Piece)
  | none, _ => []
  | some (g1, on, g2, sp), db => [(g1, .kw .ON on), (g2, .name sp db)]

/-- A handler that ends with a look-ahead returns its result as soon as the text that follows does
not start with one of the tokens that would continue the statement. -/
theorem run_of_returnsAt {α : Type} {m : P α} {s : PState} {a : α} {sK : PState} {peek : Bool} {stop : List Token}
    {k : Str} (hr : ReturnsAt m s a sK peek stop) (hb : sK.Before k)
    (hn : peek = true → ∀ t ∈ stop, NextNot k t) : ∃ s', m.run s = .ok (a, s') := by
  unfold ReturnsAt at hr
  cases peek with
  | false => exact ⟨sK, by simpa using hr⟩
  | true =>
    obtain ⟨lx, s1, h1⟩ := scanIW_total sK
    simp only [if_true] at hr
    exact ⟨_, hr lx _ ⟨s1, h1, rfl⟩ (fun hmem => hn rfl _ hmem sK lx s1 hb h1 rfl)⟩

/-- `[ON <name>]` in free spelling. Absent (which denotes the empty name) one token is looked at
and pushed back. -/
theorem parseOnDb_render (s : PState) (c : Option (Render.Gap × Str × Render.Gap × NameSpelling)) (db k : Str)
    (hc : c = none → db = []) (hL : Legal (onPieces c db) k) (hs : s.Before (render (onPieces c db) ++ k)) :
    ∃ sK, sK.Before k ∧ ReturnsAt parseOnDb s db sK c.isNone [.ON] := by
  cases c with
  | none =>
    have hdb := hc rfl
    subst hdb
    refine ⟨s, hs, ?_⟩
    unfold ReturnsAt
    rw [if_pos (by rfl)]
    intro lx s' hp hne
    unfold parseOnDb
    rw [P.run_bind _ _ s false s' (optTok_absent .ON hp (by simpa using hne))]
    rfl
  | some c =>
    obtain ⟨g1, on, g2, sp⟩ := c
    obtain ⟨s1, h1, b1⟩ := optTok_of (t := .ON) (L := []) (step s g1 _ _ k hL hs.around)
    obtain ⟨s2, h2, b2⟩ := parseIdent_of (name := db) (step s1 g2 _ _ k hL.tail b1.around)
    refine ⟨s2, b2, ?_⟩
    unfold ReturnsAt
    rw [if_neg (by simp)]
    unfold parseOnDb
    rw [P.run_bind _ _ s true s1 h1]
    exact h2

/-- **SHOW RETENTION POLICIES [ON db] in free spelling.** -/
theorem showRetentionPolicies_render_parse (fuel : Nat) (s : PState)
    (c : Option (Render.Gap × Str × Render.Gap × NameSpelling)) (db k : Str) (hc : c = none → db = [])
    (hL : Legal (onPieces c db) k) (hs : s.Before (render (onPieces c db) ++ k)) :
    ∃ sK, sK.Before k ∧
      ReturnsAt (runHandler fuel .parseShowRetentionPoliciesStatement) s (.showRetentionPolicies db) sK c.isNone [.ON] := by
  obtain ⟨sK, hb, hr⟩ := parseOnDb_render s c db k hc hL hs
  refine ⟨sK, hb, ?_⟩
  unfold ReturnsAt at hr ⊢
  simp only [runHandler, parseShowRetentionPolicies]
  split
  · next hp =>
    rw [if_pos hp] at hr
    intro lx s' h1 h2
    rw [P.run_bind _ _ s db s' (hr lx s' h1 h2)]; rfl
  · next hp =>
    rw [if_neg hp] at hr
    rw [P.run_bind _ _ s db sK hr]; rfl

/-- **SHOW RETENTION POLICIES [ON db], from the first character** (without the clause the text that
follows must not start with `ON`; the end of the input qualifies: `nextNot_eof`). -/
theorem showRetentionPolicies_statement_render_parse (text : Str) (params : List (Str × BoundValue))
    (tbl : List (Char × Char)) (ks : List (Render.Gap × Str)) (hks : ks.length = 3)
    (c : Option (Render.Gap × Str × Render.Gap × NameSpelling)) (db k' : Str) (hc : c = none → db = [])
    (hfold : foldCR text = render (kwPieces [.SHOW, .RETENTION, .POLICIES] ks ++ onPieces c db) ++ k')
    (hL : Legal (kwPieces [.SHOW, .RETENTION, .POLICIES] ks ++ onPieces c db) (k' ++ [eofRune]))
    (hnext : c = none → NextNot (k' ++ [eofRune]) .ON) :
    parseStatementText text params tbl = .ok (.showRetentionPolicies db) := by
  refine statement_of_family text params tbl [.SHOW, .RETENTION, .POLICIES] .parseShowRetentionPoliciesStatement (by simp [familyPaths]) ks hks _ k' _
    hfold hL ?_
  intro s hs hL2
  obtain ⟨sK, hb, hr⟩ := showRetentionPolicies_render_parse _ s c db _ hc hL2 hs
  refine run_of_returnsAt hr hb ?_
  intro hp t ht
  simp only [List.mem_cons, List.not_mem_nil, or_false] at ht
  subst ht
  exact hnext (by cases c <;> simp_all)

/-- **KILL QUERY n [ON host] in free spelling**: the query id may carry leading zeros. -/
theorem killQuery_render_parse (fuel : Nat) (s : PState) (g : Render.Gap) (z qid : Nat)
    (c : Option (Render.Gap × Str × Render.Gap × NameSpelling)) (host k : Str) (hq : (qid : Int) ≤ maxUInt64)
    (hc : c = none → host = []) (hL : Legal ((g, .int z qid) :: onPieces c host) k)
    (hs : s.Before (render ((g, .int z qid) :: onPieces c host) ++ k)) :
    ∃ sK, sK.Before k ∧
      ReturnsAt (runHandler fuel .parseKillQueryStatement) s (.killQuery qid host) sK c.isNone [.ON] := by
  obtain ⟨s1, h1, b1⟩ := parseUInt64_of (z := z) (n := qid) hq (step s g _ _ k hL hs.around)
  obtain ⟨sK, hb, hr⟩ := parseOnDb_render s1 c host k hc hL.tail b1
  refine ⟨sK, hb, ?_⟩
  unfold ReturnsAt at hr ⊢
  simp only [runHandler, parseKillQuery]
  split
  · next hp =>
    rw [if_pos hp] at hr
    intro lx s' h2 h3
    rw [P.run_bind _ _ s qid s1 h1, P.run_bind _ _ s1 host s' (hr lx s' h2 h3)]; rfl
  · next hp =>
    rw [if_neg hp] at hr
    rw [P.run_bind _ _ s qid s1 h1, P.run_bind _ _ s1 host sK hr]; rfl

/-- **KILL QUERY, from the first character.** -/
theorem killQuery_statement_render_parse (text : Str) (params : List (Str × BoundValue))
    (tbl : List (Char × Char)) (ks : List (Render.Gap × Str)) (hks : ks.length = 2) (g : Render.Gap) (z qid : Nat)
    (c : Option (Render.Gap × Str × Render.Gap × NameSpelling)) (host k' : Str) (hq : (qid : Int) ≤ maxUInt64)
    (hc : c = none → host = [])
    (hfold : foldCR text = render (kwPieces [.KILL, .QUERY] ks ++ (g, .int z qid) :: onPieces c host) ++ k')
    (hL : Legal (kwPieces [.KILL, .QUERY] ks ++ (g, .int z qid) :: onPieces c host) (k' ++ [eofRune]))
    (hnext : c = none → NextNot (k' ++ [eofRune]) .ON) :
    parseStatementText text params tbl = .ok (.killQuery qid host) := by
  refine statement_of_family text params tbl [.KILL, .QUERY] .parseKillQueryStatement (by simp [familyPaths]) ks hks _ k' _
    hfold hL ?_
  intro s hs hL2
  obtain ⟨sK, hb, hr⟩ := killQuery_render_parse _ s g z qid c host _ hq hc hL2 hs
  refine run_of_returnsAt hr hb ?_
  intro hp t ht
  simp only [List.mem_cons, List.not_mem_nil, or_false] at ht
  subst ht
  exact hnext (by cases c <;> simp_all)

/-- **DROP SHARD n in free spelling** (leading zeros accepted). -/
theorem dropShard_render_parse (fuel : Nat) (s : PState) (g : Render.Gap) (z id : Nat) (k : Str)
    (hid : (id : Int) ≤ maxUInt64) (hL : Legal [(g, .int z id)] k) (hs : s.Before (render [(g, .int z id)] ++ k)) :
    ∃ s', (runHandler fuel .parseDropShardStatement).run s = .ok (.dropShard id, s') ∧ s'.Before k := by
  obtain ⟨s1, h1, b1⟩ := parseUInt64_of (z := z) (n := id) hid (step s g _ _ k hL hs.around)
  refine ⟨s1, ?_, b1⟩
  simp only [runHandler]
  rw [P.run_bind _ _ s id s1 h1]; rfl

/-- **DROP SHARD, from the first character.** -/
theorem dropShard_statement_render_parse (text : Str) (params : List (Str × BoundValue))
    (tbl : List (Char × Char)) (ks : List (Render.Gap × Str)) (hks : ks.length = 2) (g : Render.Gap) (z id : Nat) (k' : Str)
    (hid : (id : Int) ≤ maxUInt64)
    (hfold : foldCR text = render (kwPieces [.DROP, .SHARD] ks ++ [(g, .int z id)]) ++ k')
    (hL : Legal (kwPieces [.DROP, .SHARD] ks ++ [(g, .int z id)]) (k' ++ [eofRune])) :
    parseStatementText text params tbl = .ok (.dropShard id) := by
  refine statement_of_family text params tbl [.DROP, .SHARD] .parseDropShardStatement (by simp [familyPaths]) ks hks _ k' _
    hfold hL ?_
  intro s hs hL2
  obtain ⟨s', h1, _⟩ := dropShard_render_parse _ s g z id _ hid hL2 hs
  exact ⟨s', h1⟩

/-! ### CREATE USER, SET PASSWORD -/

/-- The optional `WITH ALL PRIVILEGES`: three gaps and three keyword spellings. -/
def adminPieces : Option (Render.Gap × Str × Render.Gap × Str × Render.Gap × Str) → List (Render.Gap × Piece)
  | none => []
  | some (g1, w1, g2, w2, g3, w3) => [(g1, .kw .WITH w1), (g2, .kw .ALL w2), (g3, .kw .PRIVILEGES w3)]

/-- `<name> WITH PASSWORD '<pw>' [WITH ALL PRIVILEGES]`. -/
def createUserPieces (g1 : Render.Gap) (sp : NameSpelling) (g2 : Render.Gap) (w1 : Str) (g3 : Render.Gap) (w2 : Str) (g4 : Render.Gap)
    (c : Option (Render.Gap × Str × Render.Gap × Str × Render.Gap × Str)) (name pw : Str) : List (Render.Gap × Piece) :=
  (g1, .name sp name) :: (g2, .kw .WITH w1) :: (g3, .kw .PASSWORD w2) :: (g4, .str pw) :: adminPieces c

/-- **CREATE USER in free spelling** (the password is the string literal written). -/
theorem createUser_render_parse (fuel : Nat) (s : PState) (g1 : Render.Gap) (sp : NameSpelling) (g2 : Render.Gap) (w1 : Str)
    (g3 : Render.Gap) (w2 : Str) (g4 : Render.Gap) (c : Option (Render.Gap × Str × Render.Gap × Str × Render.Gap × Str))
    (name pw k : Str) (hL : Legal (createUserPieces g1 sp g2 w1 g3 w2 g4 c name pw) k)
    (hs : s.Before (render (createUserPieces g1 sp g2 w1 g3 w2 g4 c name pw) ++ k)) :
    ∃ sK, sK.Before k ∧
      ReturnsAt (runHandler fuel .parseCreateUserStatement) s (.createUser name pw c.isSome) sK c.isNone [.WITH] := by
  obtain ⟨s1, h1, b1⟩ := parseIdent_of (name := name) (step s g1 _ _ k hL hs.around)
  obtain ⟨s2, h2, b2⟩ := parseTokens_cons_of (t := .WITH) (L := []) [.PASSWORD] (step s1 g2 _ _ k hL.tail b1.around)
  obtain ⟨s3, h3, b3⟩ := parseTokens_cons_of (t := .PASSWORD) (L := []) [] (step s2 g3 _ _ k hL.tail.tail b2.around)
  have h23 : (parseTokens [.WITH, .PASSWORD]).run s1 = .ok ((), s3) := by rw [h2, h3]; rfl
  obtain ⟨s4, h4, b4⟩ := parseString_of (v := pw) (step s3 g4 _ _ k hL.tail.tail.tail b3.around)
  have hL4 := hL.tail.tail.tail.tail
  simp only [runHandler, parseCreateUser]
  cases c with
  | none =>
    refine ⟨s4, b4, ?_⟩
    unfold ReturnsAt
    rw [if_pos (by rfl)]
    intro lx s' hp hne
    rw [P.run_bind _ _ s name s1 h1, P.run_bind _ _ s1 () s3 h23, P.run_bind _ _ s3 pw s4 h4,
      P.run_bind _ _ s4 false s' (optTok_absent .WITH hp (by simpa using hne))]
    rfl
  | some c =>
    obtain ⟨g5, w3, g6, w4, g7, w5⟩ := c
    obtain ⟨s5, h5, b5⟩ := optTok_of (t := .WITH) (L := []) (step s4 g5 _ _ k hL4 b4.around)
    obtain ⟨s6, h6, b6⟩ := parseTokens_cons_of (t := .ALL) (L := []) [.PRIVILEGES] (step s5 g6 _ _ k hL4.tail b5.around)
    obtain ⟨s7, h7, b7⟩ := parseTokens_cons_of (t := .PRIVILEGES) (L := []) [] (step s6 g7 _ _ k hL4.tail.tail b6.around)
    have h67 : (parseTokens [.ALL, .PRIVILEGES]).run s5 = .ok ((), s7) := by rw [h6, h7]; rfl
    refine ⟨s7, b7, ReturnsAt.exact ?_⟩
    rw [P.run_bind _ _ s name s1 h1, P.run_bind _ _ s1 () s3 h23, P.run_bind _ _ s3 pw s4 h4,
      P.run_bind _ _ s4 true s5 h5]
    simp only [if_true]
    rw [P.run_bind _ _ s5 () s7 h67]
    rfl

/-- **CREATE USER, from the first character.** -/
theorem createUser_statement_render_parse (text : Str) (params : List (Str × BoundValue))
    (tbl : List (Char × Char)) (ks : List (Render.Gap × Str)) (hks : ks.length = 2) (g1 : Render.Gap) (sp : NameSpelling)
    (g2 : Render.Gap) (w1 : Str) (g3 : Render.Gap) (w2 : Str) (g4 : Render.Gap)
    (c : Option (Render.Gap × Str × Render.Gap × Str × Render.Gap × Str)) (name pw k' : Str)
    (hfold : foldCR text = render (kwPieces [.CREATE, .USER] ks ++ createUserPieces g1 sp g2 w1 g3 w2 g4 c name pw) ++ k')
    (hL : Legal (kwPieces [.CREATE, .USER] ks ++ createUserPieces g1 sp g2 w1 g3 w2 g4 c name pw) (k' ++ [eofRune]))
    (hnext : c = none → NextNot (k' ++ [eofRune]) .WITH) :
    parseStatementText text params tbl = .ok (.createUser name pw c.isSome) := by
  refine statement_of_family text params tbl [.CREATE, .USER] .parseCreateUserStatement (by simp [familyPaths]) ks hks _ k' _
    hfold hL ?_
  intro s hs hL2
  obtain ⟨sK, hb, hr⟩ := createUser_render_parse _ s g1 sp g2 w1 g3 w2 g4 c name pw _ hL2 hs
  refine run_of_returnsAt hr hb ?_
  intro hp t ht
  simp only [List.mem_cons, List.not_mem_nil, or_false] at ht
  subst ht
  exact hnext (by cases c <;> simp_all)

/-- `<name> = '<pw>'` (after `SET PASSWORD FOR`); the gaps around `=` may be empty. -/
def setPasswordPieces (g1 : Render.Gap) (sp : NameSpelling) (g2 g3 : Render.Gap) (name pw : Str) : List (Render.Gap × Piece) :=
  [(g1, .name sp name), (g2, .eq), (g3, .str pw)]

/-- **SET PASSWORD FOR name = 'pw' in free spelling.** -/
theorem setPassword_render_parse (fuel : Nat) (s : PState) (g1 : Render.Gap) (sp : NameSpelling) (g2 g3 : Render.Gap)
    (name pw k : Str) (hL : Legal (setPasswordPieces g1 sp g2 g3 name pw) k)
    (hs : s.Before (render (setPasswordPieces g1 sp g2 g3 name pw) ++ k)) :
    ∃ s', (runHandler fuel .parseSetPasswordUserStatement).run s = .ok (.setPasswordUser pw name, s') ∧
      s'.Before k := by
  obtain ⟨s1, h1, b1⟩ := parseIdent_of (name := name) (step s g1 _ _ k hL hs.around)
  obtain ⟨s2, h2, b2⟩ := expectTok_of (t := .EQ) (L := []) ["="] (step s1 g2 _ _ k hL.tail b1.around)
  obtain ⟨s3, h3, b3⟩ := parseString_of (v := pw) (step s2 g3 _ _ k hL.tail.tail b2.around)
  refine ⟨s3, ?_, b3⟩
  simp only [runHandler, parseSetPasswordUser]
  rw [P.run_bind _ _ s name s1 h1, P.run_bind _ _ s1 () s2 h2, P.run_bind _ _ s2 pw s3 h3]
  rfl

/-- **SET PASSWORD, from the first character.** -/
theorem setPassword_statement_render_parse (text : Str) (params : List (Str × BoundValue))
    (tbl : List (Char × Char)) (ks : List (Render.Gap × Str)) (hks : ks.length = 3) (g1 : Render.Gap) (sp : NameSpelling)
    (g2 g3 : Render.Gap) (name pw k' : Str)
    (hfold : foldCR text = render (kwPieces [.SET, .PASSWORD, .FOR] ks ++ setPasswordPieces g1 sp g2 g3 name pw) ++ k')
    (hL : Legal (kwPieces [.SET, .PASSWORD, .FOR] ks ++ setPasswordPieces g1 sp g2 g3 name pw) (k' ++ [eofRune])) :
    parseStatementText text params tbl = .ok (.setPasswordUser pw name) := by
  refine statement_of_family text params tbl [.SET, .PASSWORD, .FOR] .parseSetPasswordUserStatement (by simp [familyPaths]) ks hks _ k' _
    hfold hL ?_
  intro s hs hL2
  obtain ⟨s', h1, _⟩ := setPassword_render_parse _ s g1 sp g2 g3 name pw _ hL2 hs
  exact ⟨s', h1⟩

/-! ### GRANT, REVOKE -/

/-- How a privilege is written: `READ`, `WRITE`, `ALL PRIVILEGES`, or `ALL` alone (the grammar's
`ALL [PRIVILEGES]`), keywords in any case after any gaps. -/
inductive PrivSpelling where
  | read (g : Render.Gap) (w : Str)
  | write (g : Render.Gap) (w : Str)
  | allPrivileges (g1 : Render.Gap) (w1 : Str) (g2 : Render.Gap) (w2 : Str)
  | all (g : Render.Gap) (w : Str)

def PrivSpelling.pieces : PrivSpelling → List (Render.Gap × Piece)
  | .read g w => [(g, .kw .READ w)]
  | .write g w => [(g, .kw .WRITE w)]
  | .allPrivileges g1 w1 g2 w2 => [(g1, .kw .ALL w1), (g2, .kw .PRIVILEGES w2)]
  | .all g w => [(g, .kw .ALL w)]

/-- The privilege denoted. -/
def PrivSpelling.priv : PrivSpelling → Privilege
  | .read _ _ => .read
  | .write _ _ => .write
  | .allPrivileges _ _ _ _ => .all
  | .all _ _ => .all

/-- `parsePrivilege` on a freely spelled privilege followed by a piece that is not `PRIVILEGES`
(after `ALL` alone the next token is looked at and pushed back: the parser is `Around` the rest). -/
theorem parsePrivilege_render (s : PState) (ps : PrivSpelling) (g : Render.Gap) (p : Piece) (l : List (Render.Gap × Piece))
    (k : Str) (hne : p.tok ≠ .PRIVILEGES) (hL : Legal (ps.pieces ++ (g, p) :: l) k)
    (hs : s.Before (render (ps.pieces ++ (g, p) :: l) ++ k)) :
    ∃ s', parsePrivilege.run s = .ok (ps.priv, s') ∧ s'.Around (render ((g, p) :: l) ++ k) := by
  cases ps with
  | read g0 w =>
    obtain ⟨lx, s1, h1, t1, _, b1⟩ := step s g0 (.kw .READ w) _ k hL hs.around
    refine ⟨s1, ?_, b1.around⟩
    unfold parsePrivilege
    rw [P.run_bind _ _ s lx s1 h1]
    simp only [t1, Piece.tok]
    rfl
  | write g0 w =>
    obtain ⟨lx, s1, h1, t1, _, b1⟩ := step s g0 (.kw .WRITE w) _ k hL hs.around
    refine ⟨s1, ?_, b1.around⟩
    unfold parsePrivilege
    rw [P.run_bind _ _ s lx s1 h1]
    simp only [t1, Piece.tok]
    rfl
  | allPrivileges g1 w1 g2 w2 =>
    obtain ⟨lx, s1, h1, t1, _, b1⟩ := step s g1 (.kw .ALL w1) _ k hL hs.around
    obtain ⟨lx2, s2, h2, t2, _, b2⟩ := step s1 g2 (.kw .PRIVILEGES w2) _ k hL.tail b1.around
    refine ⟨s2, ?_, b2.around⟩
    unfold parsePrivilege
    rw [P.run_bind _ _ s lx s1 h1]
    simp only [t1, Piece.tok]
    rw [P.run_bind _ _ s1 lx2 s2 h2]
    simp only [t2, Piece.tok, ne_eq, not_true_eq_false, if_false]
    rfl
  | all g0 w =>
    obtain ⟨lx, s1, h1, t1, _, b1⟩ := step s g0 (.kw .ALL w) _ k hL hs.around
    obtain ⟨lx2, s2, h2, t2, _, _⟩ := step s1 g p l k hL.tail b1.around
    refine ⟨{ s2 with n := s2.n + 1 }, ?_, s1, b1, Or.inr ⟨lx2, s2, h2, rfl⟩⟩
    have hne2 : lx2.tok ≠ .PRIVILEGES := by rw [t2]; exact hne
    unfold parsePrivilege
    rw [P.run_bind _ _ s lx s1 h1]
    simp only [t1, Piece.tok]
    rw [P.run_bind _ _ s1 lx2 s2 h2]
    simp only [ne_eq, hne2, not_false_eq_true, if_true]
    rw [P.run_bind _ _ s2 () _ (unscan_run s2)]
    rfl

/-- `<privilege> ON <db> TO <user>`. -/
def grantPieces (ps : PrivSpelling) (g1 : Render.Gap) (w1 : Str) (g2 : Render.Gap) (sp1 : NameSpelling) (g3 : Render.Gap) (w2 : Str)
    (g4 : Render.Gap) (sp2 : NameSpelling) (on user : Str) : List (Render.Gap × Piece) :=
  ps.pieces ++ [(g1, .kw .ON w1), (g2, .name sp1 on), (g3, .kw .TO w2), (g4, .name sp2 user)]

/-- `ALL [PRIVILEGES] TO <user>`. -/
def grantAdminPieces (ps : PrivSpelling) (g1 : Render.Gap) (w : Str) (g2 : Render.Gap) (sp : NameSpelling) (user : Str) :
    List (Render.Gap × Piece) :=
  ps.pieces ++ [(g1, .kw .TO w), (g2, .name sp user)]

/-- **GRANT <privilege> ON <db> TO <user> in free spelling** (`READ`, `WRITE`, `ALL`, `ALL PRIVILEGES`). -/
theorem grant_render_parse (fuel : Nat) (s : PState) (ps : PrivSpelling) (g1 : Render.Gap) (w1 : Str) (g2 : Render.Gap)
    (sp1 : NameSpelling) (g3 : Render.Gap) (w2 : Str) (g4 : Render.Gap) (sp2 : NameSpelling) (on user k : Str)
    (hL : Legal (grantPieces ps g1 w1 g2 sp1 g3 w2 g4 sp2 on user) k)
    (hs : s.Before (render (grantPieces ps g1 w1 g2 sp1 g3 w2 g4 sp2 on user) ++ k)) :
    ∃ s', (runHandler fuel .parseGrantStatement).run s = .ok (.grant ps.priv on user, s') ∧ s'.Before k := by
  have hL' := ((legal_append _ _ _).mp hL).2
  obtain ⟨s1, h1, b1⟩ := parsePrivilege_render s ps g1 (.kw .ON w1) _ k (by simp [Piece.tok]) hL hs
  obtain ⟨lx, s2, h2, t2, _, b2⟩ := step s1 g1 (.kw .ON w1) _ k hL' b1
  obtain ⟨s3, h3, b3⟩ := parseIdent_of (name := on) (step s2 g2 _ _ k hL'.tail b2.around)
  obtain ⟨s4, h4, b4⟩ := expectTok_of (t := .TO) (L := []) ["TO"] (step s3 g3 _ _ k hL'.tail.tail b3.around)
  obtain ⟨s5, h5, b5⟩ := parseIdent_of (name := user) (step s4 g4 _ _ k hL'.tail.tail.tail b4.around)
  refine ⟨s5, ?_, b5⟩
  simp only [runHandler, parseGrant]
  rw [P.run_bind _ _ s ps.priv s1 h1, P.run_bind _ _ s1 lx s2 h2]
  simp only [t2, Piece.tok, if_true]
  rw [P.run_bind _ _ s2 on s3 h3, P.run_bind _ _ s3 () s4 h4, P.run_bind _ _ s4 user s5 h5]
  rfl

/-- **GRANT ALL [PRIVILEGES] TO <user> in free spelling.** -/
theorem grantAdmin_render_parse (fuel : Nat) (s : PState) (ps : PrivSpelling) (hp : ps.priv = .all) (g1 : Render.Gap) (w : Str)
    (g2 : Render.Gap) (sp : NameSpelling) (user k : Str) (hL : Legal (grantAdminPieces ps g1 w g2 sp user) k)
    (hs : s.Before (render (grantAdminPieces ps g1 w g2 sp user) ++ k)) :
    ∃ s', (runHandler fuel .parseGrantStatement).run s = .ok (.grantAdmin user, s') ∧ s'.Before k := by
  have hL' := ((legal_append _ _ _).mp hL).2
  obtain ⟨s1, h1, b1⟩ := parsePrivilege_render s ps g1 (.kw .TO w) _ k (by simp [Piece.tok]) hL hs
  obtain ⟨lx, s2, h2, t2, _, b2⟩ := step s1 g1 (.kw .TO w) _ k hL' b1
  obtain ⟨s3, h3, b3⟩ := parseIdent_of (name := user) (step s2 g2 _ _ k hL'.tail b2.around)
  refine ⟨s3, ?_, b3⟩
  simp only [runHandler, parseGrant]
  rw [P.run_bind _ _ s ps.priv s1 h1, P.run_bind _ _ s1 lx s2 h2]
  simp only [t2, Piece.tok, hp, reduceCtorEq, if_false, if_true, ne_eq, not_true_eq_false]
  rw [P.run_bind _ _ s2 user s3 h3]
  rfl

/-- `<privilege> ON <db> FROM <user>`. -/
def revokePieces (ps : PrivSpelling) (g1 : Render.Gap) (w1 : Str) (g2 : Render.Gap) (sp1 : NameSpelling) (g3 : Render.Gap) (w2 : Str)
    (g4 : Render.Gap) (sp2 : NameSpelling) (on user : Str) : List (Render.Gap × Piece) :=
  ps.pieces ++ [(g1, .kw .ON w1), (g2, .name sp1 on), (g3, .kw .FROM w2), (g4, .name sp2 user)]

/-- `ALL [PRIVILEGES] FROM <user>`. -/
def revokeAdminPieces (ps : PrivSpelling) (g1 : Render.Gap) (w : Str) (g2 : Render.Gap) (sp : NameSpelling) (user : Str) :
    List (Render.Gap × Piece) :=
  ps.pieces ++ [(g1, .kw .FROM w), (g2, .name sp user)]

/-- **REVOKE <privilege> ON <db> FROM <user> in free spelling.** -/
theorem revoke_render_parse (fuel : Nat) (s : PState) (ps : PrivSpelling) (g1 : Render.Gap) (w1 : Str) (g2 : Render.Gap)
    (sp1 : NameSpelling) (g3 : Render.Gap) (w2 : Str) (g4 : Render.Gap) (sp2 : NameSpelling) (on user k : Str)
    (hL : Legal (revokePieces ps g1 w1 g2 sp1 g3 w2 g4 sp2 on user) k)
    (hs : s.Before (render (revokePieces ps g1 w1 g2 sp1 g3 w2 g4 sp2 on user) ++ k)) :
    ∃ s', (runHandler fuel .parseRevokeStatement).run s = .ok (.revoke ps.priv on user, s') ∧ s'.Before k := by
  have hL' := ((legal_append _ _ _).mp hL).2
  obtain ⟨s1, h1, b1⟩ := parsePrivilege_render s ps g1 (.kw .ON w1) _ k (by simp [Piece.tok]) hL hs
  obtain ⟨lx, s2, h2, t2, _, b2⟩ := step s1 g1 (.kw .ON w1) _ k hL' b1
  obtain ⟨s3, h3, b3⟩ := parseIdent_of (name := on) (step s2 g2 _ _ k hL'.tail b2.around)
  obtain ⟨s4, h4, b4⟩ := expectTok_of (t := .FROM) (L := []) ["FROM"] (step s3 g3 _ _ k hL'.tail.tail b3.around)
  obtain ⟨s5, h5, b5⟩ := parseIdent_of (name := user) (step s4 g4 _ _ k hL'.tail.tail.tail b4.around)
  refine ⟨s5, ?_, b5⟩
  simp only [runHandler, parseRevoke]
  rw [P.run_bind _ _ s ps.priv s1 h1, P.run_bind _ _ s1 lx s2 h2]
  simp only [t2, Piece.tok, if_true]
  rw [P.run_bind _ _ s2 on s3 h3, P.run_bind _ _ s3 () s4 h4, P.run_bind _ _ s4 user s5 h5]
  rfl

/-- **REVOKE ALL [PRIVILEGES] FROM <user> in free spelling.** -/
theorem revokeAdmin_render_parse (fuel : Nat) (s : PState) (ps : PrivSpelling) (hp : ps.priv = .all) (g1 : Render.Gap) (w : Str)
    (g2 : Render.Gap) (sp : NameSpelling) (user k : Str) (hL : Legal (revokeAdminPieces ps g1 w g2 sp user) k)
    (hs : s.Before (render (revokeAdminPieces ps g1 w g2 sp user) ++ k)) :
    ∃ s', (runHandler fuel .parseRevokeStatement).run s = .ok (.revokeAdmin user, s') ∧ s'.Before k := by
  have hL' := ((legal_append _ _ _).mp hL).2
  obtain ⟨s1, h1, b1⟩ := parsePrivilege_render s ps g1 (.kw .FROM w) _ k (by simp [Piece.tok]) hL hs
  obtain ⟨lx, s2, h2, t2, _, b2⟩ := step s1 g1 (.kw .FROM w) _ k hL' b1
  obtain ⟨s3, h3, b3⟩ := parseIdent_of (name := user) (step s2 g2 _ _ k hL'.tail b2.around)
  refine ⟨s3, ?_, b3⟩
  simp only [runHandler, parseRevoke]
  rw [P.run_bind _ _ s ps.priv s1 h1, P.run_bind _ _ s1 lx s2 h2]
  simp only [t2, Piece.tok, hp, reduceCtorEq, if_false, if_true, ne_eq, not_true_eq_false]
  rw [P.run_bind _ _ s2 user s3 h3]
  rfl

/-- **GRANT / REVOKE, from the first character**: the four statement forms. -/
theorem grantRevoke_statement_render_parse (text : Str) (params : List (Str × BoundValue)) (tbl : List (Char × Char))
    (g0 : Render.Gap) (w0 : Str) (ps : PrivSpelling) (g1 : Render.Gap) (w1 : Str) (g2 : Render.Gap) (sp1 : NameSpelling) (g3 : Render.Gap)
    (w2 : Str) (g4 : Render.Gap) (sp2 : NameSpelling) (on user k' : Str) :
    (foldCR text = render (kwPieces [.GRANT] [(g0, w0)] ++ grantPieces ps g1 w1 g2 sp1 g3 w2 g4 sp2 on user) ++ k' →
      Legal (kwPieces [.GRANT] [(g0, w0)] ++ grantPieces ps g1 w1 g2 sp1 g3 w2 g4 sp2 on user) (k' ++ [eofRune]) →
      parseStatementText text params tbl = .ok (.grant ps.priv on user)) ∧
    (foldCR text = render (kwPieces [.REVOKE] [(g0, w0)] ++ revokePieces ps g1 w1 g2 sp1 g3 w2 g4 sp2 on user) ++ k' →
      Legal (kwPieces [.REVOKE] [(g0, w0)] ++ revokePieces ps g1 w1 g2 sp1 g3 w2 g4 sp2 on user) (k' ++ [eofRune]) →
      parseStatementText text params tbl = .ok (.revoke ps.priv on user)) ∧
    (ps.priv = .all →
      foldCR text = render (kwPieces [.GRANT] [(g0, w0)] ++ grantAdminPieces ps g1 w1 g2 sp1 user) ++ k' →
      Legal (kwPieces [.GRANT] [(g0, w0)] ++ grantAdminPieces ps g1 w1 g2 sp1 user) (k' ++ [eofRune]) →
      parseStatementText text params tbl = .ok (.grantAdmin user)) ∧
    (ps.priv = .all →
      foldCR text = render (kwPieces [.REVOKE] [(g0, w0)] ++ revokeAdminPieces ps g1 w1 g2 sp1 user) ++ k' →
      Legal (kwPieces [.REVOKE] [(g0, w0)] ++ revokeAdminPieces ps g1 w1 g2 sp1 user) (k' ++ [eofRune]) →
      parseStatementText text params tbl = .ok (.revokeAdmin user)) := by
  refine ⟨?_, ?_, ?_, ?_⟩
  · intro hfold hL
    refine statement_of_family text params tbl [.GRANT] .parseGrantStatement (by simp [familyPaths]) _ rfl _ k' _
      hfold hL ?_
    intro s hs hL2
    obtain ⟨s', h1, _⟩ := grant_render_parse _ s ps g1 w1 g2 sp1 g3 w2 g4 sp2 on user _ hL2 hs
    exact ⟨s', h1⟩
  · intro hfold hL
    refine statement_of_family text params tbl [.REVOKE] .parseRevokeStatement (by simp [familyPaths]) _ rfl _ k' _
      hfold hL ?_
    intro s hs hL2
    obtain ⟨s', h1, _⟩ := revoke_render_parse _ s ps g1 w1 g2 sp1 g3 w2 g4 sp2 on user _ hL2 hs
    exact ⟨s', h1⟩
  · intro hp hfold hL
    refine statement_of_family text params tbl [.GRANT] .parseGrantStatement (by simp [familyPaths]) _ rfl _ k' _
      hfold hL ?_
    intro s hs hL2
    obtain ⟨s', h1, _⟩ := grantAdmin_render_parse _ s ps hp g1 w1 g2 sp1 user _ hL2 hs
    exact ⟨s', h1⟩
  · intro hp hfold hL
    refine statement_of_family text params tbl [.REVOKE] .parseRevokeStatement (by simp [familyPaths]) _ rfl _ k' _
      hfold hL ?_
    intro s hs hL2
    obtain ⟨s', h1, _⟩ := revokeAdmin_render_parse _ s ps hp g1 w1 g2 sp1 user _ hL2 hs
    exact ⟨s', h1⟩

/-! ### CREATE RETENTION POLICY -/

/-- The optional `SHARD DURATION <literal>` (`INF` is rejected there by the parser). -/
def shardPieces : Option (Render.Gap × Str × Render.Gap × Str × Render.Gap × Str) → List (Render.Gap × Piece)
  | none => []
  | some (g1, w1, g2, w2, g3, lit) => [(g1, .kw .SHARD w1), (g2, .kw .DURATION w2), (g3, .dur lit)]

/-- The optional `DEFAULT`. -/
def defaultPieces : Option (Render.Gap × Str) → List (Render.Gap × Piece)
  | none => []
  | some (g, w) => [(g, .kw .DEFAULT w)]

/-- The optional `FUTURE LIMIT <duration>` / `PAST LIMIT <duration>`. -/
def limitPieces (t : Token) : Option (Render.Gap × Str × Render.Gap × Str × Render.Gap × DurSpelling) → List (Render.Gap × Piece)
  | none => []
  | some (g1, w1, g2, w2, g3, ds) => [(g1, .kw t w1), (g2, .kw .LIMIT w2), (g3, ds.piece)]

/-- Absent means zero; present, the value `ParseDuration` gives the literal. -/
def ShardDenotes : Option (Render.Gap × Str × Render.Gap × Str × Render.Gap × Str) → Int → Prop
  | none, v => v = 0
  | some (_, _, _, _, _, lit), v => parseDuration lit = .ok v

def LimitDenotes : Option (Render.Gap × Str × Render.Gap × Str × Render.Gap × DurSpelling) → Int → Prop
  | none, v => v = 0
  | some (_, _, _, _, _, ds), v => ds.Denotes v

theorem headTokIn_shard (c) : HeadTokIn (shardPieces c) [.SHARD] := by
  cases c with
  | none => exact .nil _
  | some c => obtain ⟨g1, w1, g2, w2, g3, lit⟩ := c; exact .cons _ _ _ _ (by simp [Piece.tok])

theorem headTokIn_default (c) : HeadTokIn (defaultPieces c) [.DEFAULT] := by
  cases c with
  | none => exact .nil _
  | some c => obtain ⟨g, w⟩ := c; exact .cons _ _ _ _ (by simp [Piece.tok])

theorem headTokIn_limit (t : Token) (c) : HeadTokIn (limitPieces t c) [t] := by
  cases c with
  | none => exact .nil _
  | some c => obtain ⟨g1, w1, g2, w2, g3, ds⟩ := c; exact .cons _ _ _ _ (by simp [Piece.tok])

/-- The optional `SHARD DURATION` clause in free spelling. -/
theorem crp_shard_render (s : PState) (c : Option (Render.Gap × Str × Render.Gap × Str × Render.Gap × Str)) (sh : Int)
    (rest : List (Render.Gap × Piece)) (k : Str) (ts : List Token) (hv : ShardDenotes c sh)
    (hL : Legal (shardPieces c ++ rest) k) (hs : s.Around (render (shardPieces c ++ rest) ++ k))
    (hh : HeadTokIn rest ts) (hts : Token.SHARD ∉ ts) (hk : NextNot k .SHARD) :
    ∃ s', (do
        if ← optTok .SHARD then
          expectTok .DURATION ["DURATION"]
          parseShardDuration
        else pure 0 : P Int).run s = .ok (sh, s') ∧ s'.Around (render rest ++ k) := by
  cases c with
  | none =>
    have hv' : sh = 0 := hv
    subst hv'
    obtain ⟨s1, h1, b1⟩ := optTok_absent_render .SHARD s rest k ts hs hL hh hts hk
    refine ⟨s1, ?_, b1⟩
    rw [P.run_bind _ _ s false s1 h1]
    rfl
  | some c =>
    obtain ⟨g1, w1, g2, w2, g3, lit⟩ := c
    have hv' : parseDuration lit = .ok sh := hv
    obtain ⟨s1, h1, b1⟩ := optTok_of (t := .SHARD) (L := []) (step s g1 _ _ k hL hs)
    obtain ⟨s2, h2, b2⟩ := expectTok_of (t := .DURATION) (L := []) ["DURATION"] (step s1 g2 _ _ k hL.tail b1.around)
    obtain ⟨lx, s3, h3, t3, a3⟩ := peek_step s2 g3 (.dur lit) _ k hL.tail.tail b2.around
    obtain ⟨s4, h4, b4⟩ := parseDurationTok_of hv' (step _ g3 (.dur lit) _ k hL.tail.tail a3)
    refine ⟨s4, ?_, b4.around⟩
    rw [P.run_bind _ _ s true s1 h1]
    simp only [if_true]
    rw [P.run_bind _ _ s1 () s2 h2]
    unfold parseShardDuration
    rw [P.run_bind _ _ s2 lx s3 h3]
    simp only [t3, Piece.tok, reduceCtorEq, if_false]
    rw [P.run_bind _ _ s3 () _ (unscan_run s3)]
    exact h4

/-- The optional `DEFAULT` in free spelling. -/
theorem crp_default_render (s : PState) (c : Option (Render.Gap × Str)) (rest : List (Render.Gap × Piece)) (k : Str)
    (ts : List Token) (hL : Legal (defaultPieces c ++ rest) k) (hs : s.Around (render (defaultPieces c ++ rest) ++ k))
    (hh : HeadTokIn rest ts) (hts : Token.DEFAULT ∉ ts) (hk : NextNot k .DEFAULT) :
    ∃ s', (optTok .DEFAULT).run s = .ok (c.isSome, s') ∧ s'.Around (render rest ++ k) := by
  cases c with
  | none => exact optTok_absent_render .DEFAULT s rest k ts hs hL hh hts hk
  | some c =>
    obtain ⟨g, w⟩ := c
    obtain ⟨s1, h1, b1⟩ := optTok_of (t := .DEFAULT) (L := []) (step s g _ _ k hL hs)
    exact ⟨s1, h1, b1.around⟩

/-- The optional `FUTURE LIMIT` / `PAST LIMIT` clause in free spelling. -/
theorem crp_limit_render (t : Token) (s : PState)
    (c : Option (Render.Gap × Str × Render.Gap × Str × Render.Gap × DurSpelling)) (v : Int) (rest : List (Render.Gap × Piece))
    (k : Str) (ts : List Token) (hv : LimitDenotes c v) (hL : Legal (limitPieces t c ++ rest) k)
    (hs : s.Around (render (limitPieces t c ++ rest) ++ k)) (hh : HeadTokIn rest ts) (hts : t ∉ ts)
    (hk : NextNot k t) :
    ∃ s', (do if ← optTok t then parseWriteLimit else pure 0 : P Int).run s = .ok (v, s') ∧
      s'.Around (render rest ++ k) := by
  cases c with
  | none =>
    have hv' : v = 0 := hv
    subst hv'
    obtain ⟨s1, h1, b1⟩ := optTok_absent_render t s rest k ts hs hL hh hts hk
    refine ⟨s1, ?_, b1⟩
    rw [P.run_bind _ _ s false s1 h1]
    rfl
  | some c =>
    obtain ⟨g1, w1, g2, w2, g3, ds⟩ := c
    have hv' : ds.Denotes v := hv
    obtain ⟨s1, h1, b1⟩ := optTok_of (t := t) (L := []) (step s g1 _ _ k hL hs)
    obtain ⟨lx, s2, h2, t2, _, b2⟩ := step s1 g2 (.kw .LIMIT w2) _ k hL.tail b1.around
    obtain ⟨s3, h3, b3⟩ := parseDurationTok_spelled hv' (step s2 g3 ds.piece _ k hL.tail.tail b2.around)
    refine ⟨s3, ?_, b3.around⟩
    rw [P.run_bind _ _ s true s1 h1]
    simp only [if_true]
    unfold parseWriteLimit
    rw [P.run_bind _ _ s1 lx s2 h2]
    simp only [t2, Piece.tok, if_true]
    exact h3

/-- The choices of the mandatory part `<name> ON <db> DURATION <d> REPLICATION <n>`. -/
structure CrpHead where
  g1 : Render.Gap
  sp1 : NameSpelling
  g2 : Render.Gap
  on : Str
  g3 : Render.Gap
  sp2 : NameSpelling
  g4 : Render.Gap
  duration : Str
  g5 : Render.Gap
  dur : DurSpelling
  g6 : Render.Gap
  replication : Str
  g7 : Render.Gap
  zeros : Nat

/-- What follows `CREATE RETENTION POLICY`: the mandatory part, then the optional clauses in the
order the parser reads them. -/
def crpPieces (c : CrpHead) (c1 : Option (Render.Gap × Str × Render.Gap × Str × Render.Gap × Str)) (c2 : Option (Render.Gap × Str))
    (c3 c4 : Option (Render.Gap × Str × Render.Gap × Str × Render.Gap × DurSpelling)) (name db : Str) (n : Nat) :
    List (Render.Gap × Piece) :=
  (c.g1, .name c.sp1 name) :: (c.g2, .kw .ON c.on) :: (c.g3, .name c.sp2 db) :: (c.g4, .kw .DURATION c.duration) ::
    (c.g5, c.dur.piece) :: (c.g6, .kw .REPLICATION c.replication) :: (c.g7, .int c.zeros n) ::
    (shardPieces c1 ++ (defaultPieces c2 ++ (limitPieces .FUTURE c3 ++ limitPieces .PAST c4)))

/-- **CREATE RETENTION POLICY in free spelling**, with every combination of the optional clauses.
The duration is a literal with the value `ParseDuration` gives it, or `INF` (zero); the replication
factor (leading zeros allowed) lies in `1 … MaxInt32`, the range `ParseInt(1, MaxInt32)` accepts;
an absent `SHARD DURATION` / `FUTURE LIMIT` / `PAST LIMIT` denotes zero. The handler ends around
`k` (it looks one token ahead unless the statement ends with `PAST LIMIT`); `k` must not begin with
a token that opens one of the optional clauses. -/
theorem createRetentionPolicy_render_parse (fuel : Nat) (s : PState) (c : CrpHead)
    (c1 : Option (Render.Gap × Str × Render.Gap × Str × Render.Gap × Str)) (c2 : Option (Render.Gap × Str))
    (c3 c4 : Option (Render.Gap × Str × Render.Gap × Str × Render.Gap × DurSpelling)) (name db : Str) (d : Int) (n : Nat)
    (sh fu pa : Int) (k : Str) (hd : c.dur.Denotes d) (hn : 1 ≤ n ∧ (n : Int) ≤ maxInt32)
    (hsh : ShardDenotes c1 sh) (hfu : LimitDenotes c3 fu) (hpa : LimitDenotes c4 pa)
    (hstop : ∀ t ∈ [Token.SHARD, .DEFAULT, .FUTURE, .PAST], NextNot k t)
    (hL : Legal (crpPieces c c1 c2 c3 c4 name db n) k)
    (hs : s.Before (render (crpPieces c c1 c2 c3 c4 name db n) ++ k)) :
    ∃ s', (runHandler fuel .parseCreateRetentionPolicyStatement).run s =
        .ok (.createRetentionPolicy name db d (n : Int) c2.isSome sh fu pa, s') ∧ s'.Around k := by
  obtain ⟨s1, h1, b1⟩ := parseIdent_of (name := name) (step s c.g1 _ _ k hL hs.around)
  have hL1 := hL.tail
  obtain ⟨s2, h2, b2⟩ := expectTok_of (t := .ON) (L := []) ["ON"] (step s1 c.g2 _ _ k hL1 b1.around)
  have hL2 := hL1.tail
  obtain ⟨s3, h3, b3⟩ := parseIdent_of (name := db) (step s2 c.g3 _ _ k hL2 b2.around)
  have hL3 := hL2.tail
  obtain ⟨s4, h4, b4⟩ := expectTok_of (t := .DURATION) (L := []) ["DURATION"] (step s3 c.g4 _ _ k hL3 b3.around)
  have hL4 := hL3.tail
  obtain ⟨s5, h5, b5⟩ := parseDurationTok_spelled hd (step s4 c.g5 c.dur.piece _ k hL4 b4.around)
  have hL5 := hL4.tail
  obtain ⟨s6, h6, b6⟩ := expectTok_of (t := .REPLICATION) (L := []) ["REPLICATION"] (step s5 c.g6 _ _ k hL5 b5.around)
  have hL6 := hL5.tail
  obtain ⟨s7, h7, b7⟩ := parseIntRange_of (z := c.zeros) (n := n) 1 maxInt32 (by omega) hn.2
    (by have := hn.2; unfold maxInt32 at this; unfold maxInt64; omega) (step s6 c.g7 _ _ k hL6 b6.around)
  have hL7 := hL6.tail
  have hL8 := ((legal_append _ _ _).mp hL7).2
  have hL9 := ((legal_append _ _ _).mp hL8).2
  have hL10 := ((legal_append _ _ _).mp hL9).2
  obtain ⟨s8, h8, b8⟩ := crp_shard_render s7 c1 sh _ k _ hsh hL7 b7.around
    ((headTokIn_default c2).append ((headTokIn_limit .FUTURE c3).append (headTokIn_limit .PAST c4))) (by decide)
    (hstop _ (by simp))
  obtain ⟨s9, h9, b9⟩ := crp_default_render s8 c2 _ k _ hL8 b8
    ((headTokIn_limit .FUTURE c3).append (headTokIn_limit .PAST c4)) (by decide) (hstop _ (by simp))
  obtain ⟨s10, h10, b10⟩ := crp_limit_render .FUTURE s9 c3 fu _ k _ hfu hL9 b9 (headTokIn_limit .PAST c4) (by decide)
    (hstop _ (by simp))
  have hL10' : Legal (limitPieces .PAST c4 ++ []) k := by rw [List.append_nil]; exact hL10
  obtain ⟨s11, h11, b11⟩ := crp_limit_render .PAST s10 c4 pa [] k [] hpa hL10' (by rw [List.append_nil]; exact b10)
    (.nil _) (by simp) (hstop _ (by simp))
  refine ⟨s11, ?_, b11⟩
  simp only [runHandler, parseCreateRetentionPolicy]
  rw [P.run_bind _ _ s name s1 h1, P.run_bind _ _ s1 () s2 h2, P.run_bind _ _ s2 db s3 h3,
    P.run_bind _ _ s3 () s4 h4, P.run_bind _ _ s4 d s5 h5, P.run_bind _ _ s5 () s6 h6,
    P.run_bind _ _ s6 (n : Int) s7 h7, P.run_bind _ _ s7 sh s8 h8, P.run_bind _ _ s8 c2.isSome s9 h9,
    P.run_bind _ _ s9 fu s10 h10, P.run_bind _ _ s10 pa s11 h11]
  rfl

/-- **CREATE RETENTION POLICY, from the first character** (`k'` must not start with `SHARD`,
`DEFAULT`, `FUTURE`, `PAST`; the end of the input qualifies). -/
theorem createRetentionPolicy_statement_render_parse (text : Str) (params : List (Str × BoundValue))
    (tbl : List (Char × Char)) (ks : List (Render.Gap × Str)) (hks : ks.length = 3) (c : CrpHead)
    (c1 : Option (Render.Gap × Str × Render.Gap × Str × Render.Gap × Str)) (c2 : Option (Render.Gap × Str))
    (c3 c4 : Option (Render.Gap × Str × Render.Gap × Str × Render.Gap × DurSpelling)) (name db : Str) (d : Int) (n : Nat)
    (sh fu pa : Int) (k' : Str) (hd : c.dur.Denotes d) (hn : 1 ≤ n ∧ (n : Int) ≤ maxInt32)
    (hsh : ShardDenotes c1 sh) (hfu : LimitDenotes c3 fu) (hpa : LimitDenotes c4 pa)
    (hstop : ∀ t ∈ [Token.SHARD, .DEFAULT, .FUTURE, .PAST], NextNot (k' ++ [eofRune]) t)
    (hfold : foldCR text = render (kwPieces [.CREATE, .RETENTION, .POLICY] ks ++ crpPieces c c1 c2 c3 c4 name db n) ++ k')
    (hL : Legal (kwPieces [.CREATE, .RETENTION, .POLICY] ks ++ crpPieces c c1 c2 c3 c4 name db n) (k' ++ [eofRune])) :
    parseStatementText text params tbl = .ok (.createRetentionPolicy name db d (n : Int) c2.isSome sh fu pa) := by
  refine statement_of_family text params tbl [.CREATE, .RETENTION, .POLICY] .parseCreateRetentionPolicyStatement
    (by simp [familyPaths]) ks hks _ k' _ hfold hL ?_
  intro s hs hL2
  obtain ⟨s', h1, _⟩ := createRetentionPolicy_render_parse _ s c c1 c2 c3 c4 name db d n sh fu pa _ hd hn hsh hfu hpa
    hstop hL2 hs
  exact ⟨s', h1⟩

/-! ### SHOW STATS / SHOW DIAGNOSTICS [FOR '<module>'] -/

/-- The optional `FOR '<module>'`. -/
def forPieces : Option (Render.Gap × Str × Render.Gap) → Str → List (Render.Gap × Piece)
  | none, _ => []
  | some (g1, w, g2), m => [(g1, .kw .FOR w), (g2, .str m)]

theorem parseForModule_render (s : PState) (c : Option (Render.Gap × Str × Render.Gap)) (m k : Str) (hc : c = none → m = [])
    (hL : Legal (forPieces c m) k) (hs : s.Before (render (forPieces c m) ++ k)) :
    ∃ sK, sK.Before k ∧ ReturnsAt parseForModule s m sK c.isNone [.FOR] := by
  cases c with
  | none =>
    have hm := hc rfl
    subst hm
    refine ⟨s, hs, ?_⟩
    unfold ReturnsAt
    rw [if_pos (by rfl)]
    intro lx s' hp hne
    unfold parseForModule
    rw [P.run_bind _ _ s false s' (optTok_absent .FOR hp (by simpa using hne))]
    rfl
  | some c =>
    obtain ⟨g1, w, g2⟩ := c
    obtain ⟨s1, h1, b1⟩ := optTok_of (t := .FOR) (L := []) (step s g1 _ _ k hL hs.around)
    obtain ⟨s2, h2, b2⟩ := parseString_of (v := m) (step s1 g2 _ _ k hL.tail b1.around)
    refine ⟨s2, b2, ?_⟩
    unfold ReturnsAt
    rw [if_neg (by simp)]
    unfold parseForModule
    rw [P.run_bind _ _ s true s1 h1]
    exact h2

def forModuleFamily : List (List Token × Handler × (Str → Statement)) :=
  [([.SHOW, .STATS], .parseShowStatsStatement, .showStats),
   ([.SHOW, .DIAGNOSTICS], .parseShowDiagnosticsStatement, .showDiagnostics)]

theorem gen_forModuleFamily : ∀ p ∈ forModuleFamily, (p.1, p.2.1) ∈ familyPaths := by decide

/-- **SHOW STATS / SHOW DIAGNOSTICS [FOR 'module'] in free spelling** (no clause denotes the empty
module name). -/
theorem forModule_render_parse (fuel : Nat) (toks : List Token) (h : Handler) (C : Str → Statement)
    (hh : (toks, h, C) ∈ forModuleFamily) (s : PState) (c : Option (Render.Gap × Str × Render.Gap)) (m k : Str)
    (hc : c = none → m = []) (hL : Legal (forPieces c m) k) (hs : s.Before (render (forPieces c m) ++ k)) :
    ∃ sK, sK.Before k ∧ ReturnsAt (runHandler fuel h) s (C m) sK c.isNone [.FOR] := by
  obtain ⟨sK, hb, hr⟩ := parseForModule_render s c m k hc hL hs
  refine ⟨sK, hb, ?_⟩
  simp only [forModuleFamily, List.mem_cons, Prod.mk.injEq, List.not_mem_nil, or_false] at hh
  unfold ReturnsAt at hr ⊢
  rcases hh with ⟨_, rfl, rfl⟩ | ⟨_, rfl, rfl⟩ <;>
  · simp only [runHandler]
    split
    · next hp =>
      rw [if_pos hp] at hr
      intro lx s' h1 h2
      rw [P.run_bind _ _ s m s' (hr lx s' h1 h2)]; rfl
    · next hp =>
      rw [if_neg hp] at hr
      rw [P.run_bind _ _ s m sK hr]; rfl

/-- **SHOW STATS / SHOW DIAGNOSTICS, from the first character.** -/
theorem forModule_statement_render_parse (text : Str) (params : List (Str × BoundValue)) (tbl : List (Char × Char))
    (toks : List Token) (h : Handler) (C : Str → Statement) (hh : (toks, h, C) ∈ forModuleFamily)
    (ks : List (Render.Gap × Str)) (hks : ks.length = toks.length) (c : Option (Render.Gap × Str × Render.Gap)) (m k' : Str)
    (hc : c = none → m = [])
    (hfold : foldCR text = render (kwPieces toks ks ++ forPieces c m) ++ k')
    (hL : Legal (kwPieces toks ks ++ forPieces c m) (k' ++ [eofRune]))
    (hnext : c = none → NextNot (k' ++ [eofRune]) .FOR) :
    parseStatementText text params tbl = .ok (C m) := by
  refine statement_of_family text params tbl toks h (gen_forModuleFamily _ hh) ks hks _ k' _ hfold hL ?_
  intro s hs hL2
  obtain ⟨sK, hb, hr⟩ := forModule_render_parse _ toks h C hh s c m _ hc hL2 hs
  refine run_of_returnsAt hr hb ?_
  intro hp t ht
  simp only [List.mem_cons, List.not_mem_nil, or_false] at ht
  subst ht
  exact hnext (by cases c <;> simp_all)

/-! ### why `EndOK` is needed: words glued to a quoted identifier -/

/-- The side condition `Piece.EndOK` (a keyword or bare name must not be directly followed by `"`) is not
an artefact: `KILL QUERY 7 ON"h"` is accepted as `KILL QUERY 7` (the scanner reads `ON"h"` as the identifier
`h`, so the `ON` clause is not seen and `h` is left unread), `DROP DATABASE x"y"` drops `y`, and
`DROP DATABASE"a"` is rejected. With a gap (or nothing glued) the theorems above apply. -/
theorem glued_quote_counterexample :
    (match parseStatementText "KILL QUERY 7 ON\"h\"".toList [] [] with
     | .ok (.killQuery 7 host) => host == []
     | _ => false) = true ∧
    (match parseStatementText "DROP DATABASE x\"y\"".toList [] [] with
     | .ok (.dropDatabase n) => n == "y".toList
     | _ => false) = true ∧
    (match parseStatementText "DROP DATABASE\"a\"".toList [] [] with
     | .ok _ => false
     | .error _ => true) = true := by
  refine ⟨?_, ?_, ?_⟩ <;> decide +kernel

/-! ### non-vacuity of the first families -/

/-- `dRoP  /* c */ dataBASE⇥"a b"`: mixed case, two blanks + a block comment + a blank, a tab, a quoted name. -/
example : parseStatementText "dRoP  /* c */ dataBASE\t\"a b\"".toList [] [] = .ok (.dropDatabase "a b".toList) := by
  refine singleName_statement_render_parse _ [] [] [.DROP, .DATABASE] .parseDropDatabaseStatement .dropDatabase (by simp [singleNameFamily])
    [([], "dRoP".toList), ([.ws ' ', .ws ' ', .block " c ".toList, .ws ' '], "dataBASE".toList)] rfl
    [.ws '\t'] .quoted "a b".toList [] (by decide +kernel) ?_
  exact legal_of_spaced _ _ _ _ (by decide +kernel) (by decide +kernel) (by decide +kernel)
    (fun q _ => q.2.endOK_eof)

/-- `show -- all of them⏎ DataBases ;`: a line comment as the gap, trailing text. -/
example : parseStatementText "show -- all of them\n DataBases ;".toList [] [] = .ok .showDatabases := by
  refine zeroArg_statement_render_parse _ [] [] [.SHOW, .DATABASES] .parseShowDatabasesStatement .showDatabases (by simp [zeroArgFamily])
    [([], "show".toList), ([.ws ' ', .line " all of them".toList, .ws ' '], "DataBases".toList)] rfl " ;".toList
    (by decide +kernel) ?_
  exact legal_of_spaced _ _ _ _ (by decide +kernel) (by decide +kernel) (by decide +kernel)
    (fun q _ => q.2.endOK_sepHead ⟨' ', _, rfl, by decide⟩)

/-- `DROP retention POLICY "1h.cpu"/**/on⏎mydb` (CR LF in the raw text): the quoted name needs no gap
behind it; `mydb` is written bare. -/
example : parseStatementText "DROP retention POLICY \"1h.cpu\"/**/on\r\nmydb".toList [] [] =
    .ok (.dropRetentionPolicy "1h.cpu".toList "mydb".toList) := by
  refine nameOnDb_statement_render_parse _ [] [] [.DROP, .RETENTION, .POLICY] .parseDropRetentionPolicyStatement .dropRetentionPolicy
    (by simp [nameOnDbFamily])
    [([], "DROP".toList), ([.ws ' '], "retention".toList), ([.ws ' '], "POLICY".toList)] rfl
    [.ws ' '] .quoted [.block []] "on".toList [.ws '\n'] .bare "1h.cpu".toList "mydb".toList [] (by decide +kernel) ?_
  exact legal_of_spaced _ _ _ _ (by decide +kernel) (by decide +kernel) (by decide +kernel)
    (fun q _ => q.2.endOK_eof)

/-- `KILL query 007 on "host 1"`: leading zeros, lower-case keywords. -/
example : parseStatementText "KILL query 007 on \"host 1\"".toList [] [] = .ok (.killQuery 7 "host 1".toList) := by
  refine killQuery_statement_render_parse _ [] [] [([], "KILL".toList), ([.ws ' '], "query".toList)] rfl
    [.ws ' '] 2 7 (some ([.ws ' '], "on".toList, [.ws ' '], .quoted)) "host 1".toList [] (by decide) (by simp)
    (by decide +kernel) ?_ (by simp)
  exact legal_of_spaced _ _ _ _ (by decide +kernel) (by decide +kernel) (by decide +kernel)
    (fun q _ => q.2.endOK_eof)

/-- `show retention policies` at the end of the input: no clause, the empty database name. -/
example : parseStatementText "show retention policies".toList [] [] = .ok (.showRetentionPolicies []) := by
  refine showRetentionPolicies_statement_render_parse _ [] []
    [([], "show".toList), ([.ws ' '], "retention".toList), ([.ws ' '], "policies".toList)] rfl none [] [] (fun _ => rfl)
    (by decide +kernel) ?_ (fun _ => nextNot_eof _ (by decide))
  exact legal_of_spaced _ _ _ _ (by decide +kernel) (by decide +kernel) (by decide +kernel)
    (fun q _ => q.2.endOK_eof)

/-- `set password for bob='x y'`: no blank around `=`. -/
example : parseStatementText "set password for bob='x y'".toList [] [] =
    .ok (.setPasswordUser "x y".toList "bob".toList) := by
  refine setPassword_statement_render_parse _ [] []
    [([], "set".toList), ([.ws ' '], "password".toList), ([.ws ' '], "for".toList)] rfl
    [.ws ' '] .bare [] [] "bob".toList "x y".toList [] (by decide +kernel) ?_
  refine (legal_append _ _ _).mpr ⟨legal_of_spaced _ _ _ _ (by decide +kernel) (by decide +kernel) (by decide +kernel)
    (fun q _ => q.2.endOK_sepHead ⟨' ', _, rfl, by decide⟩), ?_⟩
  exact ⟨by decide, by decide +kernel, Piece.endOK_sepHead _ ⟨'=', _, rfl, by decide⟩, rfl, rfl,
    Piece.endOK_sepHead _ ⟨'\'', _, rfl, by decide⟩, rfl, by decide +kernel, trivial, trivial⟩

/-- `Create User "jo e" with PASSWORD 'it\'s'⏎WITH all /*!*/ privileges`. -/
example : parseStatementText "Create User \"jo e\" with PASSWORD 'it\\'s'\nWITH all /*!*/ privileges".toList [] [] =
    .ok (.createUser "jo e".toList "it's".toList true) := by
  refine createUser_statement_render_parse _ [] [] [([], "Create".toList), ([.ws ' '], "User".toList)] rfl
    [.ws ' '] .quoted [.ws ' '] "with".toList [.ws ' '] "PASSWORD".toList [.ws ' ']
    (some ([.ws '\n'], "WITH".toList, [.ws ' '], "all".toList, [.ws ' ', .block "!".toList, .ws ' '], "privileges".toList))
    "jo e".toList "it's".toList [] (by decide +kernel) ?_ (by simp)
  exact legal_of_spaced _ _ _ _ (by decide +kernel) (by decide +kernel) (by decide +kernel)
    (fun q _ => q.2.endOK_eof)

/-- `grant ALL on "select" to alice` (`ALL` without `PRIVILEGES`) and `REVOKE all  privileges FROM "a b"`. -/
example : parseStatementText "grant ALL on \"select\" to alice".toList [] [] =
      .ok (.grant .all "select".toList "alice".toList) ∧
    parseStatementText "REVOKE all  privileges FROM \"a b\"".toList [] [] = .ok (.revokeAdmin "a b".toList) := by
  constructor
  · refine (grantRevoke_statement_render_parse _ [] [] [] "grant".toList (.all [.ws ' '] "ALL".toList)
      [.ws ' '] "on".toList [.ws ' '] .quoted [.ws ' '] "to".toList [.ws ' '] .bare "select".toList "alice".toList []).1
      (by decide +kernel) ?_
    exact legal_of_spaced _ _ _ _ (by decide +kernel) (by decide +kernel) (by decide +kernel)
      (fun q _ => q.2.endOK_eof)
  · refine (grantRevoke_statement_render_parse _ [] [] [] "REVOKE".toList
      (.allPrivileges [.ws ' '] "all".toList [.ws ' ', .ws ' '] "privileges".toList)
      [.ws ' '] "FROM".toList [.ws ' '] .quoted [] [] [] .bare [] "a b".toList []).2.2.2 rfl
      (by decide +kernel) ?_
    exact legal_of_spaced _ _ _ _ (by decide +kernel) (by decide +kernel) (by decide +kernel)
      (fun q _ => q.2.endOK_eof)

/-- Evaluating `ParseDuration` on a concrete literal (for the examples). -/
theorem parseDuration_ok_of_check (lit : Str) (d : Int)
    (h : (match parseDuration lit with | .ok v => decide (v = d) | .error _ => false) = true) :
    parseDuration lit = .ok d := by
  cases hp : parseDuration lit with
  | error e => rw [hp] at h; cases h
  | ok v => rw [hp] at h; simp only [decide_eq_true_eq] at h; rw [h]

/-- `create retention policy "1h" on db0 duration 1h30m replication 03 shard duration 60m default past limit inf`:
a two-unit duration literal, a leading zero, `INF`, lower-case keywords. -/
example : parseStatementText
    "create retention policy \"1h\" on db0 duration 1h30m replication 03 shard duration 60m default past limit inf".toList
    [] [] = .ok (.createRetentionPolicy "1h".toList "db0".toList 5400000000000 3 true 3600000000000 0 0) := by
  refine createRetentionPolicy_statement_render_parse _ [] []
    [([], "create".toList), ([.ws ' '], "retention".toList), ([.ws ' '], "policy".toList)] rfl
    ⟨[.ws ' '], .quoted, [.ws ' '], "on".toList, [.ws ' '], .bare, [.ws ' '], "duration".toList, [.ws ' '],
      .lit "1h30m".toList, [.ws ' '], "replication".toList, [.ws ' '], 1⟩
    (some ([.ws ' '], "shard".toList, [.ws ' '], "duration".toList, [.ws ' '], "60m".toList))
    (some ([.ws ' '], "default".toList)) none
    (some ([.ws ' '], "past".toList, [.ws ' '], "limit".toList, [.ws ' '], .inf "inf".toList))
    "1h".toList "db0".toList 5400000000000 3 3600000000000 0 0 []
    (parseDuration_ok_of_check "1h30m".toList 5400000000000 (by decide +kernel)) (by decide)
    (parseDuration_ok_of_check "60m".toList 3600000000000 (by decide +kernel)) rfl rfl
    ?_ (by decide +kernel) ?_
  · intro t ht
    refine nextNot_eof t ?_
    simp only [List.mem_cons, List.not_mem_nil, or_false] at ht
    rcases ht with rfl | rfl | rfl | rfl <;> decide
  · exact legal_of_spaced _ _ _ _ (by decide +kernel) (by decide +kernel) (by decide +kernel)
      (fun q _ => q.2.endOK_eof)

/-- `SHOW stats FOR 'runtime'` and `show diagnostics` at the end of the input. -/
example : parseStatementText "SHOW stats FOR 'runtime'".toList [] [] = .ok (.showStats "runtime".toList) ∧
    parseStatementText "show diagnostics".toList [] [] = .ok (.showDiagnostics []) := by
  constructor
  · refine forModule_statement_render_parse _ [] [] [.SHOW, .STATS] .parseShowStatsStatement .showStats
      (by simp [forModuleFamily]) [([], "SHOW".toList), ([.ws ' '], "stats".toList)] rfl
      (some ([.ws ' '], "FOR".toList, [.ws ' '])) "runtime".toList [] (by simp) (by decide +kernel) ?_ (by simp)
    exact legal_of_spaced _ _ _ _ (by decide +kernel) (by decide +kernel) (by decide +kernel)
      (fun q _ => q.2.endOK_eof)
  · refine forModule_statement_render_parse _ [] [] [.SHOW, .DIAGNOSTICS] .parseShowDiagnosticsStatement .showDiagnostics
      (by simp [forModuleFamily]) [([], "show".toList), ([.ws ' '], "diagnostics".toList)] rfl
      none [] [] (fun _ => rfl) (by decide +kernel) ?_ (fun _ => nextNot_eof _ (by decide))
    exact legal_of_spaced _ _ _ _ (by decide +kernel) (by decide +kernel) (by decide +kernel)
      (fun q _ => q.2.endOK_eof)

/-! ## Free spelling of expressions

C03 proves `ParseExpr (e.String()) = e` — the *printed* spelling. Here: **every legal spelling**.
A spelled expression (`ER.SExpr`: `ER.SAtom` operands — variable references bare or quoted, integer
literals with leading zeros, string literals, `true` / `false` in any case, duration literals,
parenthesised chains; `ER.SOps` operator chain — all 18 binary operators, `=~` / `!~` with a regex
literal) carries a `Render.Gap`
— any number of whitespace runs and comments — at every place where the parser calls
`ScanIgnoreWhitespace`, and the spelling choices of every token. `legal` (decidable) says that every gap
and token is well formed and that no token runs into the next one (`aANDb`, `1h`, `a<=b` for `a < =b`,
`a--b`, `a/*` are other token sequences). -/

/-- **C01, expressions, any legal spelling.** For every spelled expression `e` that is legal before the
end of the input, `ParseExpr` on its text returns the expression the text denotes (`e.erase`) —
whatever the bound parameters and the lower-casing table. `text` is the raw input (`foldCR`: the
reader delivers CR and CRLF as LF, so raw gaps may contain them). -/
theorem expr_render_parse (e : ER.SExpr) (text : Str) (params : List (Str × BoundValue)) (tbl : List (Char × Char))
    (htext : foldCR text = e.text) (hl : e.legal [eofRune] = true) : parseExprText text params tbl = .ok e.erase :=
  ER.parseExprText_render e text params tbl htext hl

/-- **State-level form** (what a statement parser needs): from any parser state standing before a legal
spelling of `e` followed by `post` — nothing pushed back, or the token scanned there pushed back —
where the first token `T` of `post` is no binary operator and none of `(`, `.`, `::`: `ParseExpr`
returns `e.erase`, keeps parameters, table and the three-slot bound of the token ring (`s.buf.length ≤ 3`:
true of every reachable state), and stands before `post` having looked at `T` and pushed
it back (or the fuel was too small). -/
theorem expr_render_parse_state (F : Nat) (s : PState) (e : ER.SExpr) (post : Str) (T : Token)
    (hF : ER.First post T) (hT : ER.StopTok T) (hb : s.buf.length ≤ 3) (hl : e.legal post = true)
    (hat : RT.At s (e.text ++ post)) :
    wp (parseExpr F) s (fun e' s' => e' = e.erase ∧ RT.At s' post ∧ ER.Keeps s s') RT.IsFuel :=
  ER.parseExpr_render_state F s e post T hF hT hb hl hat

/-- **What the text denotes.** `e.erase` is not defined by the parser's own insertion step only: it is
the image of C03's `parseChain` over the operands and operators in reading order, hence
(`chain_wellGrouped`, `chain_yield`, `chain_unique`) *the* tree with this yield that is grouped by the
five precedence levels, left-associatively. -/
theorem expr_render_denotes (e : ER.SExpr) :
    e.erase = RT.embT (Prec.parseChain e.a.erase e.ops.pairs) ∧
      Prec.WellGrouped (Prec.parseChain e.a.erase e.ops.pairs) ∧
      Prec.firstAtom (Prec.parseChain e.a.erase e.ops.pairs) = e.a.erase ∧
      Prec.yieldOps (Prec.parseChain e.a.erase e.ops.pairs) = e.ops.pairs :=
  ⟨e.erase_eq, Prec.wellGrouped_parseChain _ _, (Prec.yield_parseChain _ _).1, (Prec.yield_parseChain _ _).2⟩

/-- Every legal spelling of a binary operator is one token: `AND` / `OR` in any letter case before a
word end, the sixteen symbolic operators (`!=` and `<>` for NEQ) unless the next rune would make a
longer token (`=~`, `<=`, `<>`, `>=`) or open a comment (`--`, `/*`). -/
theorem operator_any_spelling (op : Token) (w k : Str) (h1 : ER.opSpellB op w = true) (h2 : ER.opEndB op w k = true) :
    ScansAs w k op [] := ER.scansAs_op op w k h1 h2

/-- `a+b  *⏎( c -- x⏎ - 1 )  aNd⇥d = 'x'`. -/
def exprExample1 : ER.SExpr :=
  { g0 := [], a := .ref .bare ['a'],
    ops := .cons [] .ADD ['+'] [] (.ref .bare ['b'])
      (.cons [.ws ' ', .ws ' '] .MUL ['*'] [.ws '\n']
        (.paren [.ws ' '] (.ref .bare ['c'])
          (.cons [.ws ' ', .line [' ', 'x'], .ws ' '] .SUB ['-'] [.ws ' '] (.int 0 1) .nil) [.ws ' '])
      (.cons [.ws ' ', .ws ' '] .AND ['a', 'N', 'd'] [.ws '\t'] (.ref .bare ['d'])
      (.cons [.ws ' '] .EQ ['='] [.ws ' '] (.str ['x']) .nil))),
    g := [] }

/-- Non-vacuity, through the theorem (not by evaluating the parser): gaps of every kind, a line
comment inside parentheses, `aNd`, no gap around `+`. -/
example : parseExprText "a+b  *\n( c -- x\n - 1 )  aNd\td = 'x'".toList [] [] =
    .ok (.binary .AND
      (.binary .ADD (.varRef ['a'] .Unknown)
        (.binary .MUL (.varRef ['b'] .Unknown)
          (.paren (.binary .SUB (.varRef ['c'] .Unknown) (.integer 1)))))
      (.binary .EQ (.varRef ['d'] .Unknown) (.string ['x']))) :=
  expr_render_parse exprExample1 _ [] [] (by decide) (by decide)

/-- `"select"<>007/**/OR\r\n(x)`: a quoted keyword as a name, `<>`, leading zeros, an empty block
comment as the only gap, CRLF. -/
example : parseExprText "\"select\"<>007/**/OR\r\n(x)".toList [] [] =
    .ok (.binary .OR (.binary .NEQ (.varRef "select".toList .Unknown) (.integer 7)) (.paren (.varRef ['x'] .Unknown))) :=
  expr_render_parse
    { g0 := [], a := .ref .quoted "select".toList,
      ops := .cons [] .NEQ ['<', '>'] [] (.int 2 7) (.cons [.block []] .OR ['O', 'R'] [.ws '\n'] (.paren [] (.ref .bare ['x']) .nil []) .nil),
      g := [] } _ [] [] (by decide) (by decide)

/-- `host=~ /* any */\n/^a\/b/ and\tn !~-- c\n /x/`: gaps with comments between `=~` / `!~` and the regex
(`parseRegex` peeks at runes: the gap is skipped by its own whitespace / comment loop). -/
example : parseExprText "host=~ /* any */\n/^a\\/b/ and\tn !~-- c\n /x/".toList [] [] =
    .ok (.binary .AND (.binary .EQREGEX (.varRef "host".toList .Unknown) (.regex "^a/b".toList))
      (.binary .NEQREGEX (.varRef ['n'] .Unknown) (.regex ['x']))) :=
  expr_render_parse
    { g0 := [], a := .ref .bare "host".toList,
      ops := .consRe [] .EQREGEX ['=', '~'] [.ws ' ', .block " any ".toList, .ws '\n'] "^a/b".toList
        (.cons [.ws ' '] .AND "and".toList [.ws '\t'] (.ref .bare ['n'])
        (.consRe [.ws ' '] .NEQREGEX ['!', '~'] [.line " c".toList, .ws ' '] ['x'] .nil)),
      g := [] } _ [] [] (by decide) (by decide)

/-- ` time>1h30m\r\noR/***/k=TRUE \n`: a duration literal and a boolean in capitals, no gap around `>` and
`=`, CRLF, a block comment as the only gap after `oR`, leading and trailing gaps. -/
example : parseExprText " time>1h30m\r\noR/***/k=TRUE \n".toList [] [] =
    .ok (.binary .OR (.binary .GT (.varRef "time".toList .Unknown) (.duration 5400000000000))
      (.binary .EQ (.varRef ['k'] .Unknown) (.boolean true))) :=
  expr_render_parse
    { g0 := [.ws ' '], a := .ref .bare "time".toList,
      ops := .cons [] .GT ['>'] [] (.dur "1h30m".toList 5400000000000)
        (.cons [.ws '\n'] .OR ['o', 'R'] [.block ['*']] (.ref .bare ['k'])
        (.cons [] .EQ ['='] [] (.bool "TRUE".toList true) .nil)),
      g := [.ws ' ', .ws '\n'] } _ [] [] (by decide) (by decide +kernel)

/-- Outside `legal`, and rightly so: `a ---x⏎ b` is `a`, a comment, `b` (`ParseExpr` returns `a` and
leaves `b`), not `a - b`. -/
example : (ER.SExpr.mk [] (.ref .bare ['a']) (.cons [.ws ' '] .SUB ['-'] [.line ['x'], .ws ' '] (.ref .bare ['b']) .nil) []).legal
    [eofRune] = false := by decide

end InfluxQL.C01

import InfluxQL.Lemmas.Neutral
import InfluxQL.Lemmas.Query
import InfluxQL.Lemmas.PMonad
import InfluxQL.Lemmas.RegexGap
import InfluxQL.Model.ParserCore
import InfluxQL.Lemmas.RenderQuery
import InfluxQL.Lemmas.RenderPrinted
import InfluxQL.Lemmas.PrintedFamilies
import InfluxQL.Lemmas.PrintedFamiliesT
import InfluxQL.Lemmas.PrintedNoCR
import InfluxQL.Lemmas.PrintedGapSep
import InfluxQL.Props.C04
/-!
# C16 — statement separation, whitespace and comments do not change meaning

Lexer level (all texts). `sigTokens r` (Lemmas/Neutral.lean) is what `ScanIgnoreWhitespace`
delivers from the cursor `r` on: every token except WS and COMMENT, kind and literal only, up to
and including the first EOF. The theorems are stated on the *delivered* rune stream
`Cursor.chars` (= `Cursor.rest.map Prod.fst`: after CR/CRLF folding, so whitespace is space, tab
and line feed).

Side conditions, exactly: the gap must begin at a token boundary of the first text
(`∃ n, (scanN n r).rest.length = …`: some number of `Scan`s ends precisely there — this excludes
gaps inside string literals, quoted identifiers, comments); the whitespace run must be maximal
to the right (`NotWsHead post`). NUL-freeness is *not* needed for the token-sequence statements
(a NUL is the EOF sentinel: the stream of both texts stops at the same EOF); it is needed only
to read `sigTokens` as "all tokens of the text", and inside an inserted comment.

Parser level: `ParseQuery` is modelled generically over an abstract statement parser that
consumes significant tokens; the expression parser's regex look-ahead — the one place where a
comment used to be *not* equivalent to whitespace (finding `comment-before-regex-lookahead`,
fixed) — skips comments like whitespace (`parseRegex_gap_neutral` and kernel-checked examples).
-/
namespace InfluxQL.C16
open InfluxQL Gen

/-! ## Locality of `Scan` -/

/-- **C16 (locality).** `Scan` looks at the runes it consumes and at most one rune beyond, and of
that rune only at its class when it is whitespace: if two delivered streams are `a ++ t1` and
`a ++ t2`, the continuations `t1`, `t2` are both empty or both start with a whitespace rune, and
`Scan` on the first stream does not consume beyond `a`, then `Scan` on the second stream returns
a token of the same kind with the same literal and stops at the same place. -/
theorem scan_local (t1 t2 : List Char) (r1 r2 : Cursor) (a : List Char)
    (h1 : r1.chars = a ++ t1) (h2 : r2.chars = a ++ t2) (ht : TailOK t1 t2)
    (hlen : t1.length ≤ (scan r1).2.rest.length) :
    (scan r1).1.tok = (scan r2).1.tok ∧ (scan r1).1.lit = (scan r2).1.lit ∧
    ∃ a', (scan r1).2.chars = a' ++ t1 ∧ (scan r2).2.chars = a' ++ t2 := by
  obtain ⟨hsig, hl⟩ := scan_loc (t1 := t1) (t2 := t2) ⟨a, h1, h2⟩ ht hlen
  exact ⟨congrArg Prod.fst hsig, congrArg Prod.snd hsig, hl⟩

/-- **C16 (position erasure).** The significant tokens ahead of a cursor depend only on the
delivered runes, not on positions, offsets or what was read before. -/
theorem sigTokens_depends_on_runes_only (r1 r2 : Cursor) (h : r1.chars = r2.chars) :
    sigTokens r1 = sigTokens r2 := sigTokens_erase r1 r2 h

/-! ## Whitespace substitution -/

/-- **C16 (whitespace).** Two delivered streams that differ only in one whitespace run — any
non-empty run of spaces, tabs and line feeds replaced by any other — have the same sequence of
significant tokens, provided the run starts at a token boundary of the first stream and is not
followed by more whitespace. Nothing is assumed about the rest of the text (it may be malformed,
contain NUL, …). -/
theorem ws_subst_tokens (r1 r2 : Cursor) (a w1 w2 post : List Char)
    (h1 : r1.chars = a ++ (w1 ++ post)) (h2 : r2.chars = a ++ (w2 ++ post))
    (hw1 : WsRun w1) (hw2 : WsRun w2) (hpost : NotWsHead post)
    (hb : ∃ n, (scanN n r1).rest.length = (w1 ++ post).length) :
    sigTokens r1 = sigTokens r2 := by
  obtain ⟨n, hn⟩ := hb
  exact sigTokens_prefix (tailOK_of_wsRuns hw1 hw2) n r1 r2 ⟨a, h1, h2⟩ hn
    (fun g1 g2 e1 e2 => sigTokens_wsRun g1 g2 w1 w2 post e1 e2 hw1 hw2 hpost)

/-! ## Comment insertion -/

/-- The sufficient condition for a block-comment body in plain words: no NUL and no `*/`
inside (and it does not begin with `/` right after a `*`, which cannot happen after `/*`). -/
theorem commentBodyOK_of_noEnd (body : List Char) (star : Bool) (hnul : ∀ c ∈ body, c ≠ eofRune)
    (hstar : star = true → body.head? ≠ some '/')
    (hend : ∀ p s, body ≠ p ++ '*' :: '/' :: s) : commentBodyOK star body = true := by
  induction body generalizing star with
  | nil => rfl
  | cons c t ih =>
    simp only [commentBodyOK, Bool.and_eq_true, bne_iff_ne, ne_eq, Bool.not_eq_true',
      Bool.and_eq_false_iff, beq_eq_false_iff_ne]
    refine ⟨⟨hnul c (by simp), ?_⟩, ?_⟩
    · cases star with
      | false => exact Or.inl rfl
      | true => right; intro hc; exact hstar rfl (by simp [hc])
    · apply ih
      · intro x hx; exact hnul x (by simp [hx])
      · intro hs
        have hc : c = '*' := by simpa using hs
        intro hh
        cases t with
        | nil => simp at hh
        | cons d t' =>
          simp at hh
          exact hend [] t' (by simp [hc, hh])
      · intro p s hps
        exact hend (c :: p) s (by simp [hps])

/-- **C16 (comments).** Inserting a comment into a whitespace run, with whitespace on both sides
of it, leaves the sequence of significant tokens unchanged: `a w post` and `a wa comment wb post`
have the same significant tokens for all non-empty whitespace runs `w`, `wa`, `wb` and every
well-formed comment (terminated block comment, or line comment ending in a line feed), provided
the run starts at a token boundary of the first stream and is not followed by more whitespace. -/
theorem comment_insert_tokens (r1 r2 : Cursor) (a w wa cm wb post : List Char)
    (h1 : r1.chars = a ++ (w ++ post)) (h2 : r2.chars = a ++ (wa ++ (cm ++ (wb ++ post))))
    (hw : WsRun w) (hwa : WsRun wa) (hwb : WsRun wb) (hc : IsComment cm) (hpost : NotWsHead post)
    (hb : ∃ n, (scanN n r1).rest.length = (w ++ post).length) :
    sigTokens r1 = sigTokens r2 := by
  obtain ⟨n, hn⟩ := hb
  have ht : TailOK (w ++ post) (wa ++ (cm ++ (wb ++ post))) := by
    obtain ⟨hn1, ha1⟩ := hw
    obtain ⟨hn2, ha2⟩ := hwa
    cases w with
    | nil => exact absurd rfl hn1
    | cons c1 x1 =>
      cases wa with
      | nil => exact absurd rfl hn2
      | cons c2 x2 =>
        exact Or.inr ⟨c1, x1 ++ post, c2, x2 ++ (cm ++ (wb ++ post)), rfl, rfl,
          ha1 c1 (by simp), ha2 c2 (by simp)⟩
  refine sigTokens_prefix ht n r1 r2 ⟨a, h1, h2⟩ hn ?_
  intro g1 g2 e1 e2
  -- first text: one WS token
  obtain ⟨t1, c1⟩ := scan_wsRun g1 w post e1 hw hpost
  -- second text: WS, COMMENT, WS
  obtain ⟨t2, c2⟩ := scan_wsRun g2 wa (cm ++ (wb ++ post)) e2 hwa (notWsHead_comment cm _ hc)
  rw [dropEof_comment cm _ hc] at c2
  obtain ⟨t3, c3⟩ := scan_comment (scan g2).2 cm (wb ++ post) hc c2
  obtain ⟨t4, c4⟩ := scan_wsRun (scan (scan g2).2).2 wb post c3 hwb hpost
  rw [sigTokens_step g1, sigTokens_step g2, t1, t2]
  simp only [reduceCtorEq, if_false, true_or, if_true]
  rw [sigTokens_step (scan g2).2, t3]
  simp only [reduceCtorEq, if_false, or_true, if_true]
  rw [sigTokens_step (scan (scan g2).2).2, t4]
  simp only [reduceCtorEq, if_false, true_or, if_true]
  exact sigTokens_erase _ _ (by rw [c1, c4])

/-! ## The same, for whole texts -/

/-- `ws_subst_tokens` for two texts whose delivered forms are `a w1 post` and `a w2 post`. -/
theorem ws_subst_text (text1 text2 a w1 w2 post : List Char)
    (h1 : foldCR text1 = a ++ (w1 ++ post)) (h2 : foldCR text2 = a ++ (w2 ++ post))
    (hw1 : WsRun w1) (hw2 : WsRun w2) (hpost : NotWsHead post)
    (hb : ∃ n, (scanN n (Cursor.ofRunes text1)).rest.length = (w1 ++ post).length + 1) :
    sigTokens (Cursor.ofRunes text1) = sigTokens (Cursor.ofRunes text2) := by
  apply ws_subst_tokens _ _ a w1 w2 (post ++ [eofRune])
  · rw [chars_ofRunes, h1]; simp
  · rw [chars_ofRunes, h2]; simp
  · exact hw1
  · exact hw2
  · exact notWsHead_append_eof post hpost
  · obtain ⟨n, hn⟩ := hb
    exact ⟨n, by rw [hn]; simp; omega⟩

/-- `comment_insert_tokens` for two texts. -/
theorem comment_insert_text (text1 text2 a w wa cm wb post : List Char)
    (h1 : foldCR text1 = a ++ (w ++ post)) (h2 : foldCR text2 = a ++ (wa ++ (cm ++ (wb ++ post))))
    (hw : WsRun w) (hwa : WsRun wa) (hwb : WsRun wb) (hc : IsComment cm) (hpost : NotWsHead post)
    (hb : ∃ n, (scanN n (Cursor.ofRunes text1)).rest.length = (w ++ post).length + 1) :
    sigTokens (Cursor.ofRunes text1) = sigTokens (Cursor.ofRunes text2) := by
  apply comment_insert_tokens _ _ a w wa cm wb (post ++ [eofRune])
  · rw [chars_ofRunes, h1]; simp
  · rw [chars_ofRunes, h2]; simp
  · exact hw
  · exact hwa
  · exact hwb
  · exact hc
  · exact notWsHead_append_eof post hpost
  · obtain ⟨n, hn⟩ := hb
    exact ⟨n, by rw [hn]; simp; omega⟩

/-- **C16 (whitespace), raw text.** In a text `pre w post` replace the maximal run `w` of spaces,
tabs, LF, CR (CRLF included) by any other non-empty such run: if the run starts at a token
boundary, the significant tokens are unchanged. Maximal = `pre` does not end and `post` does
not begin with one of these four runes. -/
theorem ws_subst_raw (pre w1 w2 post : List Char)
    (hw1 : w1 ≠ [] ∧ ∀ c ∈ w1, isRawWs c = true) (hw2 : w2 ≠ [] ∧ ∀ c ∈ w2, isRawWs c = true)
    (hpre : ∀ c, pre.getLast? = some c → isRawWs c = false)
    (hpost : ∀ c x, post = c :: x → isRawWs c = false)
    (hb : ∃ n, (scanN n (Cursor.ofRunes (pre ++ w1 ++ post))).rest.length =
      (foldCR w1 ++ foldCR post).length + 1) :
    sigTokens (Cursor.ofRunes (pre ++ w1 ++ post)) = sigTokens (Cursor.ofRunes (pre ++ w2 ++ post)) := by
  have split : ∀ w : List Char, foldCR (pre ++ w ++ post) = foldCR pre ++ (foldCR w ++ foldCR post) := by
    intro w
    rw [foldCR_append (pre ++ w) post, foldCR_append pre w, List.append_assoc]
    · rintro ⟨h1, _⟩
      have := hpre '\r' h1
      simp [isRawWs] at this
    · rintro ⟨_, h2⟩
      cases post with
      | nil => simp at h2
      | cons d post' =>
        simp at h2
        have := hpost d post' rfl
        rw [h2] at this
        simp [isRawWs] at this
        exact absurd this (by decide)
  exact ws_subst_text _ _ (foldCR pre) (foldCR w1) (foldCR w2) (foldCR post) (split w1) (split w2)
    (foldCR_rawWs w1 hw1.1 hw1.2) (foldCR_rawWs w2 hw2.1 hw2.2) (notWsHead_foldCR post hpost) hb

/-! ## `sigTokens` is what `ScanIgnoreWhitespace` delivers -/

theorem substTok_nil (lx : Lexeme) : substTok [] lx = lx := by
  unfold substTok
  split
  · split
    · rfl
    · rfl
  · rfl

theorem scanIWLoop_sigTokens (fuel : Nat) (s : PState) (hn : s.n = 0) (hp : s.params = [])
    (hf : s.r.rest.length < fuel) :
    ∃ lx s', (scanIWLoop fuel).run s = .ok (lx, s') ∧ s'.n = 0 ∧ s'.params = [] ∧
      sigTokens s.r = if lx.tok = .EOF then [lx.sig] else lx.sig :: sigTokens s'.r := by
  induction fuel generalizing s with
  | zero => omega
  | succ fuel ih =>
    have hraw : rawNext false s = ((scan s.r).1, { s with r := (scan s.r).2, buf := ((scan s.r).1 :: s.buf).take 3 }) := by
      unfold rawNext
      have : ¬ s.n > 0 := by omega
      simp only [this, if_false, Bool.false_eq_true]
    have hsub : substTok s.params (rawNext false s).1 = (scan s.r).1 := by
      rw [hp, substTok_nil, hraw]
    by_cases hw : (scan s.r).1.tok = .WS ∨ (scan s.r).1.tok = .COMMENT
    · rw [scanIWLoop_run_skip fuel s (by rw [hsub]; exact hw), hraw]
      have hne : (scan s.r).1.tok ≠ .EOF := by
        rcases hw with h | h <;> rw [h] <;> decide
      have hne' : s.r.rest ≠ [] := fun hnil => hne (scan_at_end s.r hnil)
      have hprog := scan_progress s.r hne'
      obtain ⟨lx, s', hrun, hn', hp', hsig⟩ := ih
        { s with r := (scan s.r).2, buf := ((scan s.r).1 :: s.buf).take 3 } hn hp (by simp only; omega)
      refine ⟨lx, s', hrun, hn', hp', ?_⟩
      rw [sigTokens_step s.r]
      simp only [hne, if_false, hw, if_true]
      exact hsig
    · have h1 : (scan s.r).1.tok ≠ .WS := fun e => hw (Or.inl e)
      have h2 : (scan s.r).1.tok ≠ .COMMENT := fun e => hw (Or.inr e)
      rw [scanIWLoop_run_sig fuel s (by rw [hsub]; exact h1) (by rw [hsub]; exact h2), pscan_run, hsub, hraw]
      refine ⟨_, _, rfl, hn, hp, ?_⟩
      rw [sigTokens_step s.r]
      simp only [hw, if_false]

/-- **C16 (bridge to the parser).** With nothing pushed back and no parameters,
`Parser.ScanIgnoreWhitespace` returns exactly the first significant token of the cursor (kind and
literal) and leaves the cursor where the remaining significant tokens are the rest of the list.
Hence everything the parser obtains through `ScanIgnoreWhitespace` is a function of `sigTokens`,
to which `ws_subst_tokens` and `comment_insert_tokens` apply. -/
theorem scanIW_delivers_sigTokens (s : PState) (hn : s.n = 0) (hp : s.params = []) :
    ∃ lx s', scanIW.run s = .ok (lx, s') ∧ s'.n = 0 ∧ s'.params = [] ∧
      sigTokens s.r = if lx.tok = .EOF then [lx.sig] else lx.sig :: sigTokens s'.r := by
  unfold scanIW
  rw [P.runBind, P.run_get]
  exact scanIWLoop_sigTokens _ s hn hp (by omega)

/-! ## `ParseQuery`: statement separation

`absParseQuery ps` (Lemmas/Query.lean) mirrors the loop of `Parser.ParseQuery` over the significant
tokens: `;` sets `semi`; EOF returns; any other token is an error unless `semi`, else the
statement parser `ps` is run from that token on and `semi` is cleared. `ps` is arbitrary. -/

/-- **C16 (statement separation).** A query `;* s₁ ;+ s₂ ;+ … sₙ ;* EOF` — statements separated
by one or more semicolons, with optional leading and trailing semicolons — parses to exactly
the statements `s₁ … sₙ`, in order: empty statements and a trailing semicolon are ignored.
`StmtOK ps x`: `ps` parses the tokens `x.1` to the statement `x.2.2` and stops exactly before a
following `;` or EOF. -/
theorem parseQuery_split {ε σ : Type} (ps : List Tok → Except ε (σ × List Tok)) (lead : Nat)
    (segs : List (List Tok × Nat × σ)) (hok : ∀ x ∈ segs, StmtOK ps x) (hsep : WellSep segs) :
    absParseQuery ps (semis lead ++ render segs) = .ok (segs.map (·.2.2)) := by
  unfold absParseQuery
  have e : (semis lead ++ render segs).length + 1 = ((render segs).length + 1) + lead := by
    simp [semis]; omega
  rw [e, parseQueryLoop_semis]
  simp only [Bool.true_or]
  rw [parseQueryLoop_render ps segs hok hsep _ _ (by omega)]
  simp

/-- Each statement parsed alone gives the one-element list with that statement: the result for
the whole query is the concatenation of the results of its statements parsed alone. -/
theorem parseQuery_single {ε σ : Type} (ps : List Tok → Except ε (σ × List Tok))
    (x : List Tok × Nat × σ) (hok : StmtOK ps x) : absParseQuery ps (x.1 ++ [eofTok]) = .ok [x.2.2] := by
  have hok' : StmtOK ps (x.1, 0, x.2.2) := hok
  have h := parseQuery_split ps 0 [(x.1, 0, x.2.2)] (by intro y hy; simp at hy; subst hy; exact hok') trivial
  simpa [semis, render] using h

/-- **C16 (missing separator).** After a statement (hence with `semi` cleared) a token that is
neither `;` nor EOF is the error `found <token>, expected ;`, whatever follows. -/
theorem parseQuery_missing_semi {ε σ : Type} (ps : List Tok → Except ε (σ × List Tok)) (fuel : Nat)
    (s : List Tok) (st : σ) (t : Tok) (rest : List Tok) (acc : List σ)
    (hs : ∃ t0 s', s = t0 :: s' ∧ t0.1 ≠ .EOF ∧ t0.1 ≠ .SEMICOLON)
    (hps : ps (s ++ t :: rest) = .ok (st, t :: rest)) (ht : t.1 ≠ .EOF ∧ t.1 ≠ .SEMICOLON) :
    absParseQueryLoop ps (fuel + 2) true (s ++ t :: rest) acc = .error (.missingSemi t) := by
  obtain ⟨t0, s', hs0, h1, h2⟩ := hs
  subst hs0
  have hps' : ps (t0 :: (s' ++ t :: rest)) = .ok (st, t :: rest) := by simpa using hps
  simp only [List.cons_append, absParseQueryLoop, h1, h2, if_false, Bool.not_true, Bool.false_eq_true,
    hps', ht.1, ht.2, Bool.not_false, if_true]

/-! ## The regex look-ahead (finding `comment-before-regex-lookahead`, fixed)

`parseRegex` decides by the next *rune* whether a regular expression follows. Before the fix it
skipped one WS token and peeked: a `/` started `ScanRegex` — also when that `/` opened a `/* … */`
comment — and a `-` (of `-- …`) meant "no regex here". Now it skips the WS token, then every
comment and the WS token after it (`skipCommentsLoop`), and only then peeks. The concrete texts
that used to be rejected now parse to the same tree as their whitespace-only versions
(kernel-checked); the general statement is `parseRegex_gap_neutral` below. -/

def parsesTo (text printed : List Char) : Prop :=
  match parseExprText text [] [] with
  | .ok e => e.print = printed
  | .error _ => False

instance (text printed : List Char) : Decidable (parsesTo text printed) := by
  unfold parsesTo; split <;> infer_instance

def isRejected (text : List Char) : Bool :=
  match parseExprText text [] [] with
  | .error (.err _) => true
  | _ => false

/-- After the `,` of a call: `f(a,  b)`, `f(a /*c*/, b)`, `f(a, /*c*/ b)`, `f(a,/*c*/b)` and
`f(a, --c⏎ b)` all parse to the same call. -/
theorem comment_before_regex_lookahead_call_arg :
    parsesTo ['f', '(', 'a', ',', ' ', ' ', 'b', ')'] ['f', '(', 'a', ',', ' ', 'b', ')'] ∧
    parsesTo ['f', '(', 'a', ' ', '/', '*', 'c', '*', '/', ',', ' ', 'b', ')'] ['f', '(', 'a', ',', ' ', 'b', ')'] ∧
    parsesTo ['f', '(', 'a', ',', ' ', '/', '*', 'c', '*', '/', ' ', 'b', ')'] ['f', '(', 'a', ',', ' ', 'b', ')'] ∧
    parsesTo ['f', '(', 'a', ',', '/', '*', 'c', '*', '/', 'b', ')'] ['f', '(', 'a', ',', ' ', 'b', ')'] ∧
    parsesTo ['f', '(', 'a', ',', ' ', '-', '-', 'c', '\n', ' ', 'b', ')'] ['f', '(', 'a', ',', ' ', 'b', ')'] := by
  decide +kernel

/-- After the `(` of a call: `f( a)`, `f( /*c*/ a)` and `f(/*c*//*d*/ a)` parse to `f(a)`. -/
theorem comment_before_regex_lookahead_call_open :
    parsesTo ['f', '(', ' ', 'a', ')'] ['f', '(', 'a', ')'] ∧
    parsesTo ['f', '(', ' ', '/', '*', 'c', '*', '/', ' ', 'a', ')'] ['f', '(', 'a', ')'] ∧
    parsesTo ['f', '(', '/', '*', 'c', '*', '/', '/', '*', 'd', '*', '/', ' ', 'a', ')'] ['f', '(', 'a', ')'] := by
  decide +kernel

/-- After `=~`: `a =~  /x/`, `a =~ /*c*/ /x/` and `a =~/*c*//x/` parse to `a =~ /x/`. -/
theorem comment_before_regex_lookahead_regex_op :
    parsesTo ['a', ' ', '=', '~', ' ', ' ', '/', 'x', '/'] ['a', ' ', '=', '~', ' ', '/', 'x', '/'] ∧
    parsesTo ['a', ' ', '=', '~', ' ', '/', '*', 'c', '*', '/', ' ', '/', 'x', '/'] ['a', ' ', '=', '~', ' ', '/', 'x', '/'] ∧
    parsesTo ['a', ' ', '=', '~', '/', '*', 'c', '*', '/', '/', 'x', '/'] ['a', ' ', '=', '~', ' ', '/', 'x', '/'] := by
  decide +kernel

/-- A `-- …` comment in front of a regular expression no longer hides it: after `=~` and as a
call argument, `--c⏎ /x/` is read like ` /x/`. -/
theorem line_comment_before_regex_lookahead :
    parsesTo ['a', ' ', '=', '~', ' ', '\n', ' ', '/', 'x', '/'] ['a', ' ', '=', '~', ' ', '/', 'x', '/'] ∧
    parsesTo ['a', ' ', '=', '~', ' ', '-', '-', 'c', '\n', ' ', '/', 'x', '/'] ['a', ' ', '=', '~', ' ', '/', 'x', '/'] ∧
    parsesTo ['f', '(', 'a', ',', ' ', '/', 'x', '/', ')'] ['f', '(', 'a', ',', ' ', '/', 'x', '/', ')'] ∧
    parsesTo ['f', '(', 'a', ',', ' ', '-', '-', 'c', '\n', ' ', '/', 'x', '/', ')'] ['f', '(', 'a', ',', ' ', '/', 'x', '/', ')'] := by
  decide +kernel

/-- What is still rejected, as it should be: an unterminated `/*` at a look-ahead point (the
ILLEGAL token is left to the caller), a `--` comment that swallows the rest of the input, and a
comment in front of something that is not a regular expression where one is required. -/
theorem comment_at_regex_lookahead_still_rejected :
    isRejected ['f', '(', 'a', ',', ' ', '/', '*', 'c'] = true ∧
    isRejected ['a', ' ', '=', '~', ' ', '/', '*'] = true ∧
    isRejected ['a', ' ', '=', '~', ' ', '-', '-', ' ', '/', 'x', '/'] = true ∧
    isRejected ['a', ' ', '=', '~', ' ', '/', '*', 'c', '*', '/', ' ', 'b'] = true := by
  decide +kernel

/-- The texts of the first statement have the same significant tokens (`comment_insert_tokens`
applies): lexer-level neutrality, of which the parser-level statement above is now the image. -/
theorem comment_before_regex_lookahead_same_tokens :
    sigTokens (Cursor.ofRunes ['f', '(', 'a', ',', ' ', ' ', 'b', ')']) =
      sigTokens (Cursor.ofRunes ['f', '(', 'a', ',', ' ', '/', '*', 'c', '*', '/', ' ', 'b', ')']) := by
  decide +kernel

/-! ### The general statement: the look-ahead does not see the gap

State level, because `parseRegex` is called in the middle of a parse: `s.r.chars` is the rune
stream still ahead of the parser state `s`, `s.n` the number of pushed-back tokens (the
look-ahead is only made with none, see the guard of `parseRegex`). A *gap* is `w g`: an optional
whitespace run `w` followed by `g`, comments each followed by an optional whitespace run
(`CommentRun`), every whitespace run maximal. `IsComment` is a terminated block comment or a
line comment ending in a line feed — exactly what `comment_insert_tokens` inserts. -/

/-- Two outcomes of a parsing function that agree up to positions: both succeed with the same
result and states that agree up to positions (`SEq 0`: same push-back count, same parameters,
same runes ahead, the tokens that can be re-delivered of the same kind and literal), or both fail
with the same error up to the position it reports (`Fail.erase`). -/
def SameUpToPos {α : Type} (x y : Except Fail (α × PState)) : Prop :=
  match x, y with
  | .ok (a1, t1), .ok (a2, t2) => a1 = a2 ∧ SEq 0 t1 t2
  | .error e1, .error e2 => e1.erase = e2.erase
  | _, _ => False

theorem sameUpToPos_of_wpE {α : Type} {m1 m2 : P α} {s1 s2 : PState}
    (h : wpE m1 m2 s1 s2 (fun a b t1 t2 => a = b ∧ SEq 0 t1 t2)) :
    SameUpToPos (m1.run s1) (m2.run s2) := by
  unfold wpE at h
  unfold SameUpToPos
  cases h1 : m1.run s1 with
  | error e1 =>
    cases h2 : m2.run s2 with
    | error e2 => rw [h1, h2] at h; exact h
    | ok q => rw [h1, h2] at h; exact h.elim
  | ok q1 =>
    obtain ⟨a1, t1⟩ := q1
    cases h2 : m2.run s2 with
    | error e2 => rw [h1, h2] at h; exact h.elim
    | ok q2 => obtain ⟨a2, t2⟩ := q2; rw [h1, h2] at h; exact h

/-- **C16 (look-ahead, exact).** In front of `w g post`, with nothing pushed back, `parseRegex`
consumes exactly the gap `w g` — plus one `eof` rune (NUL) if `post` begins with one — and then
behaves exactly (result, error, positions, final state) as `parseRegexSkip` started there:
`parseRegexSkip` is the rest of `parseRegex`, the comment loop followed by the look at the next
rune. In particular the loop's fuel never runs out on the way, and no comment of the gap is ever
handed to `ScanRegex`. -/
theorem parseRegex_skips_gap (s : PState) (hn : s.n = 0) (hgood : Good s) (w g post : List Char)
    (hc : s.r.chars = w ++ (g ++ post)) (hw : WsOpt w) (hmax : NotWsHead (g ++ post))
    (hg : CommentRun post g) :
    ∃ s', s'.n = 0 ∧ s'.params = s.params ∧ s'.r.chars = dropEof post ∧
      parseRegex.run s = parseRegexSkip.run s' := by
  obtain ⟨s', hat, e⟩ := InfluxQL.parseRegex_skips_gap s hn hgood w g post hc hw hmax hg
  exact ⟨s', hat.n0, hat.params, hat.chars, e⟩

/-- **C16 (look-ahead, neutrality).** The outcome of `parseRegex` does not depend on the gap in
front of it. Two parser states with nothing pushed back and the same parameters, one in front of
`w1 g1 post`, the other in front of `w2 g2 post`: either both calls return the same result — the
same regex literal, or both "no regex here" — and leave states that agree up to positions
(`SEq 0`: same push-back count, same runes ahead, the tokens that can be re-delivered of the same
kind and literal), or both fail with the same error up to the position it reports
(`Fail.erase`). With `g1 = []` this is "a comment is treated the same as whitespace" at every
look-ahead point of the parser: after `(` and `,` of a call, after `=~` / `!~`, and (statement
level) after `,` in field, source and dimension lists, after FROM and GROUP BY. -/
theorem parseRegex_gap_neutral (s1 s2 : PState) (hn1 : s1.n = 0) (hn2 : s2.n = 0) (hg1 : Good s1)
    (hg2 : Good s2) (hpar : s1.params = s2.params) (hlow : s1.lowerTbl = s2.lowerTbl)
    (w1 g1 w2 g2 post : List Char)
    (hc1 : s1.r.chars = w1 ++ (g1 ++ post)) (hc2 : s2.r.chars = w2 ++ (g2 ++ post))
    (hw1 : WsOpt w1) (hw2 : WsOpt w2) (hm1 : NotWsHead (g1 ++ post)) (hm2 : NotWsHead (g2 ++ post))
    (hr1 : CommentRun post g1) (hr2 : CommentRun post g2) :
    SameUpToPos (parseRegex.run s1) (parseRegex.run s2) :=
  sameUpToPos_of_wpE (InfluxQL.parseRegex_gap_neutral s1 s2 hn1 hn2 hg1 hg2 hpar hlow w1 g1 w2 g2 post
    hc1 hc2 hw1 hw2 hm1 hm2 hr1 hr2)

/-- The shape of `comment_insert_tokens`: whitespace `w` against `wa comment wb`, where now the
flanking whitespace may be empty (`f(a,/*c*/b)`), and `w` too. -/
theorem parseRegex_comment_as_whitespace (s1 s2 : PState) (hn1 : s1.n = 0) (hn2 : s2.n = 0)
    (hg1 : Good s1) (hg2 : Good s2) (hpar : s1.params = s2.params) (hlow : s1.lowerTbl = s2.lowerTbl)
    (w wa cm wb post : List Char)
    (hc1 : s1.r.chars = w ++ post) (hc2 : s2.r.chars = wa ++ (cm ++ (wb ++ post)))
    (hw : WsOpt w) (hwa : WsOpt wa) (hwb : WsOpt wb) (hc : IsComment cm) (hpost : NotWsHead post) :
    SameUpToPos (parseRegex.run s1) (parseRegex.run s2) := by
  have hr2 : CommentRun post (cm ++ (wb ++ [])) := CommentRun.cons hc hwb (by simpa using hpost) CommentRun.nil
  exact sameUpToPos_of_wpE (InfluxQL.parseRegex_gap_neutral s1 s2 hn1 hn2 hg1 hg2 hpar hlow w [] wa
    (cm ++ (wb ++ [])) post (by simpa using hc1) (by simpa using hc2) hw hwa (by simpa using hpost)
    (by rw [List.append_assoc]; exact notWsHead_comment cm _ hc) CommentRun.nil hr2)

/-- Position erasure for everything `parseRegex` does behind the gap: two states that agree up
to positions give outcomes that agree up to positions. -/
theorem parseRegexSkip_depends_on_runes_only (s1 s2 : PState) (h : SEq 0 s1 s2) :
    SameUpToPos (parseRegexSkip.run s1) (parseRegexSkip.run s2) :=
  sameUpToPos_of_wpE (parseRegexSkip_erase h)

-- non-vacuity: ` ` against `/*c*/ --d⏎⇥` in front of `b)`
example : CommentRun ['b', ')'] (['/', '*', 'c', '*', '/'] ++ ([' '] ++ (['-', '-', 'd', '\n'] ++ (['\t'] ++ [])))) :=
  CommentRun.cons (IsComment.block ['c'] (by decide)) (Or.inr ⟨by decide, by decide⟩)
    (by intro c x h; simp at h; rw [← h.1]; decide)
    (CommentRun.cons (IsComment.line ['d'] (by decide)) (Or.inr ⟨by decide, by decide⟩)
      (by intro c x h; simp at h; rw [← h.1]; decide) CommentRun.nil)
example : (PState.init [' ', 'b', ')'] [] []).r.chars = [' '] ++ ([] ++ ['b', ')', eofRune]) := by decide
example : Good (PState.init [' ', 'b', ')'] [] []) := ⟨Nat.le_refl _, by decide⟩

/-! ## Statement level: the spelling of a statement does not change its AST (rendered families)

`Lemmas/Render.lean` describes a statement text as `render` of a list of `(gap, piece)` pairs: every
piece (keyword in any case, name bare or quoted, string, integer with leading zeros, duration
literal, `=`) preceded by a gap — any sequence of whitespace runes and comments, possibly empty.
`Props/C01.lean` proves for the administrative families that every legal rendering parses to the
statement its parameters denote. `Lemmas/RenderQuery.lean` packages the families as `Family π σ`
(`π` = parameters: names, numbers, clauses present; `σ` = spelling choices) — `zeroArgF` (SHOW
DATABASES …), `singleNameF` (DROP DATABASE / MEASUREMENT / USER, SHOW GRANTS FOR), `nameOnDbF`,
`showRetentionPoliciesF`, `killQueryF`, `dropShardF`, `createUserF`, `setPasswordF`, `grantF`,
`revokeF`, `grantAdminF`, `revokeAdminF`, `createRetentionPolicyF`, `forModuleF`. -/

open Render RenderQuery in
/-- **C16 (b), statement level.** For every rendered family: two texts that are legal renderings of
the same statement (same parameters `p`) — differing in the whitespace between tokens (any runs of
space, tab, LF, CR LF), in comments inserted into that whitespace (any number, `/* … */` or
`-- …⏎`), in keyword case, in the quoting of names and in leading zeros — parse to the same AST,
namely the statement `F.ast p`. `k1`, `k2`: whatever follows the statement in either text (it must
end the last piece, `Legal`, and not open an optional clause of the statement, `NextNot`; `[]`
qualifies). Bound parameters and lower tables are irrelevant. -/
theorem family_render_neutral {π σ : Type} (F : Family π σ) (p : π) (sp1 sp2 : σ) (hv1 : F.Valid p sp1)
    (hv2 : F.Valid p sp2) (text1 text2 : Str) (params1 params2 : List (Str × BoundValue))
    (tbl1 tbl2 : List (Char × Char)) (k1 k2 : Str)
    (hfold1 : foldCR text1 = Render.render (F.spell p sp1).pieces ++ k1)
    (hfold2 : foldCR text2 = Render.render (F.spell p sp2).pieces ++ k2)
    (hL1 : Legal (F.spell p sp1).pieces (k1 ++ [eofRune])) (hL2 : Legal (F.spell p sp2).pieces (k2 ++ [eofRune]))
    (hstop1 : ∀ t ∈ (F.spell p sp1).stop, NextNot (k1 ++ [eofRune]) t)
    (hstop2 : ∀ t ∈ (F.spell p sp2).stop, NextNot (k2 ++ [eofRune]) t) :
    parseStatementText text1 params1 tbl1 = .ok (F.ast p) ∧
      parseStatementText text2 params2 tbl2 = parseStatementText text1 params1 tbl1 :=
  RenderQuery.family_render_neutral F p sp1 sp2 hv1 hv2 text1 text2 params1 params2 tbl1 tbl2 k1 k2 hfold1 hfold2
    hL1 hL2 hstop1 hstop2

open Render RenderQuery in
/-- The same without the `Family` packaging: two spelled statements of proved families that denote
the same statement parse to the same AST. -/
theorem spelled_render_neutral (x y : Spelled) (hx : x.OK) (hy : y.OK) (hxy : x.stmt = y.stmt) (text1 text2 : Str)
    (params1 params2 : List (Str × BoundValue)) (tbl1 tbl2 : List (Char × Char)) (k1 k2 : Str)
    (hfold1 : foldCR text1 = Render.render x.pieces ++ k1) (hfold2 : foldCR text2 = Render.render y.pieces ++ k2)
    (hL1 : Legal x.pieces (k1 ++ [eofRune])) (hL2 : Legal y.pieces (k2 ++ [eofRune]))
    (hstop1 : ∀ t ∈ x.stop, NextNot (k1 ++ [eofRune]) t) (hstop2 : ∀ t ∈ y.stop, NextNot (k2 ++ [eofRune]) t) :
    parseStatementText text2 params2 tbl2 = parseStatementText text1 params1 tbl1 := by
  rw [hx.parseStatementText text1 params1 tbl1 k1 hfold1 hL1 hstop1,
    hy.parseStatementText text2 params2 tbl2 k2 hfold2 hL2 hstop2, hxy]

open Render RenderQuery in
/-- Non-vacuity: `DROP DATABASE foo` and `drop /* c */⏎⇥dataBASE "foo"` — lower / mixed case, a gap of
blank, block comment, line feed, tab, and the name quoted — parse to the same statement. -/
example : parseStatementText "DROP DATABASE foo".toList [] [] = .ok (.dropDatabase "foo".toList) ∧
    parseStatementText "drop /* c */\n\tdataBASE \"foo\"".toList [] [] =
      parseStatementText "DROP DATABASE foo".toList [] [] := by
  refine family_render_neutral singleNameF
    (⟨([.DROP, .DATABASE], .parseDropDatabaseStatement, .dropDatabase), by simp [C01.singleNameFamily]⟩, "foo".toList)
    ([([], "DROP".toList), ([.ws ' '], "DATABASE".toList)], [.ws ' '], .bare)
    ([([], "drop".toList), ([.ws ' ', .block " c ".toList, .ws '\n', .ws '\t'], "dataBASE".toList)], [.ws ' '], .quoted)
    rfl rfl _ _ [] [] [] [] [] [] (by decide +kernel) (by decide +kernel) ?_ ?_ (by intro t ht; cases ht)
    (by intro t ht; cases ht)
  · exact legal_of_spaced _ _ _ _ (by decide +kernel) (by decide +kernel) (by decide +kernel)
      (fun q _ => q.2.endOK_eof)
  · exact legal_of_spaced _ _ _ _ (by decide +kernel) (by decide +kernel) (by decide +kernel)
      (fun q _ => q.2.endOK_eof)

/-! ## `ParseQuery` on rendered statements: the model's real `parseQuery`

`parseQuery_split` above is about an abstract loop over token lists. Here the loop is the model's
`queryLoop` (`Model/ParserStmt.lean`, the model of `Parser.ParseQuery`) run by `parseQueryText` on a
raw text. The text is `sep₀ stmt₁ sep₁ stmt₂ … stmtₙ sepₙ`: every `stmtᵢ` a legal rendering
(`Spelled`, `Spelled.OK`: any of the rendered families, any keyword case, quoting, gaps) and every
separator a run of `;`, each `;` preceded by any gap (`semisText`; the gap behind the last `;` of a
separator is the leading gap of the next statement, the gap behind the very last one is `g`).
`queryText items K` = the items (`(;-run, statement)` pairs) followed by `K`; `QueryLegal`: all gaps
well formed, every statement of a proved family and `Legal` in front of what follows it; `SepOK
true items`: every statement but the first has a non-empty `;` run in front of it. -/

open Render RenderQuery in
/-- **C16 (a), rendered statements.** A query text consisting of legal renderings of statements of
the proved families, separated by one or more semicolons with arbitrary gaps (whitespace, comments)
between and around them, optionally led and trailed by semicolons and gaps, parses (`ParseQuery`) to
exactly those statements, in order. Empty statements (`;;`), a trailing semicolon, trailing
whitespace and comments are ignored. Any number of statements (`items = []`: the empty query). -/
theorem parseQuery_rendered_split (text : Str) (params : List (Str × BoundValue)) (tbl : List (Char × Char))
    (items : List Item) (gs : List Render.Gap) (g : Render.Gap)
    (hfold : foldCR text = queryText items (semisText gs ++ gapText g))
    (hL : QueryLegal items (tailText gs g)) (hsep : SepOK true items) (hgs : ∀ h ∈ gs, gapOK h = true)
    (hg : gapOK g = true) : parseQueryText text params tbl = .ok (items.map (·.2.stmt)) :=
  parseQueryText_rendered text params tbl items gs g hfold hL hsep hgs hg

open Render RenderQuery in
/-- The same with a decidable legality condition: when inside every statement the pieces are
separated by non-empty gaps (`SpacedStmt`), nothing has to be said about how a statement meets what
follows it — a gap, a `;` or the end of the input end every token. -/
theorem parseQuery_rendered_split_spaced (text : Str) (params : List (Str × BoundValue)) (tbl : List (Char × Char))
    (items : List Item) (gs : List Render.Gap) (g : Render.Gap)
    (hfold : foldCR text = queryText items (semisText gs ++ gapText g)) (hok : ∀ z ∈ items, z.2.OK)
    (hsp : ∀ z ∈ items, (∀ h ∈ z.1, gapOK h = true) ∧ SpacedStmt z.2.pieces = true) (hsep : SepOK true items)
    (hgs : ∀ h ∈ gs, gapOK h = true) (hg : gapOK g = true) :
    parseQueryText text params tbl = .ok (items.map (·.2.stmt)) :=
  parseQueryText_rendered text params tbl items gs g hfold
    (queryLegal_of_spaced gs g hgs hg items true hok hsp hsep) hsep hgs hg

open Render RenderQuery in
/-- **Each statement alone.** The text of one rendered statement (followed by any gap) parses as a
query to the one-element list with that statement, and `ParseStatement` on it gives that statement:
the result for a whole query (`parseQuery_rendered_split`) is the concatenation of the results of
its statements parsed alone. -/
theorem parseQuery_rendered_single (text : Str) (params : List (Str × BoundValue)) (tbl : List (Char × Char))
    (x : Spelled) (hx : x.OK) (g : Render.Gap) (hg : gapOK g = true)
    (hfold : foldCR text = Render.render x.pieces ++ gapText g) (hL : Legal x.pieces (gapText g ++ [eofRune])) :
    parseQueryText text params tbl = .ok [x.stmt] ∧ parseStatementText text params tbl = .ok x.stmt := by
  constructor
  · refine parseQueryText_rendered text params tbl [([], x)] [] g ?_ ⟨by simp, hx, ?_, trivial⟩
      ⟨Or.inl rfl, trivial⟩ (by simp) hg
    · rw [hfold]; simp [queryText, semisText]
    · simpa [queryText, tailText, semisText] using hL
  · exact hx.parseStatementText text params tbl (gapText g) hfold hL
      (fun t ht => nextNot_gap_eof g t hg (clauseOpeners_ne t (hx.stopKw t ht)).2)

open Render RenderQuery in
/-- **C16 (a), missing separator.** After one or more well-separated rendered statements, a further
rendered statement `y` separated from the last one only by a gap (no `;`) makes `ParseQuery` fail
with `found <first keyword of y>, expected ;` at that keyword's position — whatever follows (`k'`). -/
theorem parseQuery_rendered_missing_separator (text : Str) (params : List (Str × BoundValue))
    (tbl : List (Char × Char)) (items : List Item) (hne : items ≠ []) (y : Spelled) (hy : y.OK) (k' : Str)
    (hfold : foldCR text = queryText items (Render.render y.pieces ++ k'))
    (hL : QueryLegal items (Render.render y.pieces ++ (k' ++ [eofRune]))) (hsep : SepOK true items)
    (hLy : Legal y.pieces (k' ++ [eofRune])) :
    ∃ pos, parseQueryText text params tbl = .error (.err (.found (y.toks.headD .ILLEGAL).str [[';']] pos)) :=
  parseQueryText_missing_stmt text params tbl items hne y hy k' hfold hL hsep hLy

open Render RenderQuery in
/-- The same for any token: after well-separated rendered statements, any legal piece `p` (keyword,
name, string, number, `=`, `,`) that follows the last statement without a `;` and is not the opener
of an optional clause of that statement is `found <p>, expected ;`. -/
theorem parseQuery_rendered_missing_token (text : Str) (params : List (Str × BoundValue)) (tbl : List (Char × Char))
    (items : List Item) (hne : items ≠ []) (g : Render.Gap) (p : Piece) (k' : Str)
    (hfold : foldCR text = queryText items (Render.render [(g, p)] ++ k'))
    (hL : QueryLegal items (Render.render [(g, p)] ++ (k' ++ [eofRune]))) (hsep : SepOK true items)
    (hp : Legal [(g, p)] (k' ++ [eofRune])) (hstop : ∀ y, items.getLast? = some y → p.tok ∉ y.2.stop) :
    ∃ pos, parseQueryText text params tbl = .error (.err (.found (tokstr p.tok p.lit) [[';']] pos)) :=
  parseQueryText_missing text params tbl items hne g p k' hfold hL hsep hp hstop

section examples
open Render RenderQuery

/-- Non-vacuity of `parseQuery_rendered_split`: `show databases ; /* c */ ;⏎ DROP DATABASE "a b" -- bye⏎ ;`
— an empty statement, a block comment between two semicolons, a line comment before the trailing
semicolon — parses to the two statements. -/
example : parseQueryText "show databases ; /* c */ ;\n DROP DATABASE \"a b\" -- bye\n ;".toList [] [] =
    .ok [.showDatabases, .dropDatabase "a b".toList] := by
  refine parseQuery_rendered_split _ [] []
    [([], exShow), ([[.ws ' '], [.ws ' ', .block " c ".toList, .ws ' ']], exDrop)]
    [[.ws ' ', .line " bye".toList, .ws ' ']] [] (by decide +kernel) ?_ ⟨Or.inl rfl, Or.inr (by simp), trivial⟩
    (by decide +kernel) rfl
  refine ⟨by simp, exShow_ok, ?_, by decide +kernel, exDrop_ok, ?_, trivial⟩
  · exact legal_of_spaced _ _ _ _ (by decide +kernel) (by decide +kernel) (by decide +kernel)
      (fun q _ => q.2.endOK_sepHead ⟨' ', _, rfl, by decide⟩)
  · exact legal_of_spaced _ _ _ _ (by decide +kernel) (by decide +kernel) (by decide +kernel)
      (fun q _ => q.2.endOK_sepHead ⟨' ', _, rfl, by decide⟩)

/-- Non-vacuity of `parseQuery_rendered_missing_separator`: `show databases⏎ DROP DATABASE "a b"` is
rejected with `found DROP, expected ;`. -/
example : ∃ pos, parseQueryText "show databases\n DROP DATABASE \"a b\"".toList [] [] =
    .error (.err (.found "DROP".toList [[';']] pos)) := by
  refine parseQuery_rendered_missing_separator _ [] [] [([], exShow)] (by simp) exDrop exDrop_ok []
    (by decide +kernel) ⟨by simp, exShow_ok, ?_, trivial⟩ ⟨Or.inl rfl, trivial⟩ ?_
  · exact legal_of_spaced _ _ _ _ (by decide +kernel) (by decide +kernel) (by decide +kernel)
      (fun q _ => q.2.endOK_sepHead ⟨'\n', _, rfl, by decide⟩)
  · exact legal_of_spaced _ _ _ _ (by decide +kernel) (by decide +kernel) (by decide +kernel)
      (fun q _ => q.2.endOK_eof)

end examples

/-! ## Printed queries (`Statements.String()`) as an instance

For the families where it is immediate — statements without arguments, single-name statements,
`<name> ON <db>` statements, DROP SHARD (`RenderPrinted.Printed`) — the printed form (upper-case
keywords, `QuoteIdent`, one blank between pieces) *is* a legal rendering, so a printed query
(statements joined by `;⏎`) is covered by `parseQuery_rendered_split`. -/

open Render RenderQuery RenderPrinted in
/-- **The printed form is a legal rendering.** `Statement.print` of a statement of these families is
`render` of its printed spelling (keywords upper case after one blank, names as `QuoteIdent` writes
them, no leading zeros); for well-formed parameters (names without NUL / CR, shard id within
`uint64`) that spelling belongs to a proved family and is legal (`SpacedStmt`). -/
theorem print_is_render (p : Printed) :
    Render.render (p.spelled []).pieces = p.stmt.print ∧ (p.spelled []).stmt = p.stmt ∧
      (p.WF → (p.spelled []).OK ∧ SpacedStmt (p.spelled []).pieces = true) :=
  ⟨RenderPrinted.print_is_render [] p, p.spelled_stmt [], fun h => ⟨p.ok [] h, p.spaced [] rfl h⟩⟩

open Render RenderQuery RenderPrinted in
/-- **C16 (a) for printed queries.** A raw text whose delivered form is `Statements.String()` of
statements of these families — `stmt₁;⏎stmt₂;⏎…` — parses (`ParseQuery`) to exactly these statements,
in order. -/
theorem parseQuery_printed (ps : List Printed) (hwf : ∀ p ∈ ps, p.WF) (text : Str)
    (params : List (Str × BoundValue)) (tbl : List (Char × Char))
    (hfold : foldCR text = printStatements (ps.map Printed.stmt)) :
    parseQueryText text params tbl = .ok (ps.map Printed.stmt) :=
  parseQueryText_printed ps hwf text params tbl hfold

open Render RenderQuery RenderPrinted in
/-- **`ParseQuery(Statements.String())` = the statements.** The printed query itself (it contains no
carriage return when the names are expressible: `RenderPrinted.noCR_printStatements`), for any number
of well-formed statements of these families. -/
theorem parseQuery_printed_text (ps : List Printed) (hwf : ∀ p ∈ ps, p.WF) (params : List (Str × BoundValue))
    (tbl : List (Char × Char)) :
    parseQueryText (printStatements (ps.map Printed.stmt)) params tbl = .ok (ps.map Printed.stmt) :=
  parseQueryText_printed_text ps hwf params tbl

open Render RenderQuery RenderPrinted in
/-- Non-vacuity: `SHOW DATABASES;⏎DROP DATABASE "a b";⏎DROP SHARD 7` is the printed form of the three
statements and parses back to them. -/
example : printStatements [.showDatabases, .dropDatabase "a b".toList, .dropShard 7] =
      "SHOW DATABASES;\nDROP DATABASE \"a b\";\nDROP SHARD 7".toList ∧
    parseQueryText "SHOW DATABASES;\nDROP DATABASE \"a b\";\nDROP SHARD 7".toList [] [] =
      .ok [.showDatabases, .dropDatabase "a b".toList, .dropShard 7] := by
  refine ⟨by decide +kernel, ?_⟩
  exact parseQuery_printed
    [.zeroArg ([.SHOW, .DATABASES], .parseShowDatabasesStatement, .showDatabases) (by simp [C01.zeroArgFamily]),
     .singleName ([.DROP, .DATABASE], .parseDropDatabaseStatement, .dropDatabase) (by simp [C01.singleNameFamily])
       "a b".toList, .dropShard 7]
    (by
      intro p hp
      simp only [List.mem_cons, List.not_mem_nil, or_false] at hp
      rcases hp with rfl | rfl | rfl
      · trivial
      · show Expressible "a b".toList; decide
      · show ((7 : Nat) : Int) ≤ maxUInt64; decide)
    _ [] [] (by decide +kernel)

/-! ## Printed queries that contain statements with expressions

Inside `Statements.String()` a statement is followed by `;⏎`: the `;` stands directly behind the last
token, for DELETE / SHOW … / SELECT usually behind an expression. `;` directly after an expression is
outside the continuations of C02 / C03 (`RT.SepU`); Lemmas/ExprSemi.lean proves the operand and
`ParseExpr` steps for it, Lemmas/StmtExprSemi.lean re-states the clause lemmas and family theorems of C02
for it, Lemmas/PrintedQuery.lean runs the loop of `ParseQuery` over statements of either kind
(`PrintedQuery.StmtSpec`), Lemmas/PrintedFamilies.lean has the instances. -/

open PrintedQuery in
/-- **`;` directly after a printed expression.** From a state standing before `e.String()` followed by
`;` (possibly after one blank), `ParseExpr` returns `e` and stands before the `;` — or the fuel given was
too small. Partial: `e` in C03's class `Printable` (`RT.rtOK false`: binary operators over references,
string / integer / boolean literals, parentheses, regex operands; no calls, casts, number / duration
literals, wildcards — the class the family theorems of C02 use). -/
theorem parseExpr_before_semicolon_partial (F : Nat) (s : PState) (e : Expr) (t : Str) (he : RT.rtOK false e = true)
    (hat : RT.AtW s (e.print ++ ';' :: t)) :
    wp (parseExpr F) s (fun e' s' => e' = e ∧ RT.Stand s' (';' :: t) ∧ RT.Same s s') RT.IsFuel :=
  C02.Semi.RT.parseExpr_semi F s e t he hat

open PrintedQuery in
/-- Obligation on the regenerated tables (keyword table, dispatch tree of parse_tree.go): the keyword
paths of the expression-bearing families — DELETE, DROP SERIES, SHOW SERIES, SHOW TAG KEYS, SHOW FIELD
KEYS, SHOW MEASUREMENTS, SELECT — consist of keywords, select their handlers from the root within the
rounds `ParseStatement` grants, and begin with a token that is neither EOF nor `;`. -/
theorem gen_exprPaths : ∀ p ∈ exprPaths,
    (∀ t ∈ p.1, t.isKw = true) ∧ C01.dispatchPath 0 p.1 = some p.2 ∧ p.1.length ≤ Gen.dispatch.length + 1 ∧
      (match p.1 with
       | [] => false
       | t :: _ => t != .EOF && t != .SEMICOLON) = true := PrintedQuery.gen_exprPaths

open PrintedQuery RenderPrinted in
/-- **C16 (a) for printed queries with expression-bearing statements.** `qs` is any list of printed
statements of a proved family of either kind: `QStmt.plain p` — zero-argument SHOW, DROP DATABASE /
MEASUREMENT / USER, SHOW GRANTS FOR, DROP RETENTION POLICY / CONTINUOUS QUERY / SHARD
(`parseQuery_printed`) — or `QStmt.expr x` with `x.OK`: `deletePS`, `dropSeriesPS`, `showSeriesPS`,
`showTagKeysPS`, `showFieldKeysPS`, `showMeasurementsPS`, `selectPS`, `selectIntoPS` (one `…_ok` lemma
each, from the decidable classes `DeleteLikeOK`, `ShowOK`, `C02.SimpleSelect`, `C02.IntoSelect`). A raw
text whose delivered form is `Statements.String()` of them — `stmt₁;⏎stmt₂;⏎…`, each `;` directly behind
the last token of its statement — parses (`ParseQuery`, with the fuel `parseQueryText` gives it) to
exactly these statements, in order: no statement swallows the next one, none is cut short.

Partial: the classes are those of the C02 family theorems — excluded (all producible by the parser) are
regex / sub-query sources, ORDER BY, GROUP BY, fill(), TZ(), WITH KEY / WITH MEASUREMENT, and conditions
or fields outside `Printable` (calls, number / duration literals, wildcards, the negated-operand trees of
the open finding `negated-operand-printed-without-grouping`), and empty names (finding
`empty-identifier-not-printed`): for those the single-statement round trip is not proved either. The "out
of fuel" alternative of the family theorems is discharged by C04 (`parseQueryText_total`). -/
theorem parseQuery_printed_exprs_partial (qs : List QStmt) (hok : ∀ q ∈ qs, q.OK) (text : Str)
    (params : List (Str × BoundValue)) (tbl : List (Char × Char))
    (hfold : foldCR text = printStatements (qs.map QStmt.stmt)) :
    parseQueryText text params tbl = .ok (qs.map QStmt.stmt) :=
  parseQueryText_printed_qstmts C04.gen_dispatch_depth qs hok text params tbl hfold

open PrintedQuery RenderPrinted in
/-- **`ParseQuery(Statements.String())` = the statements**, for the printed query itself. The hypothesis
"no carriage return in the printed text" is decidable and only says that the reader delivers the text
unchanged (names and strings the parser produces never contain CR: the reader folds CR and CRLF to LF
before the scanner sees them). -/
theorem parseQuery_printed_exprs_text_partial (qs : List QStmt) (hok : ∀ q ∈ qs, q.OK)
    (hcr : ∀ c ∈ printStatements (qs.map QStmt.stmt), c ≠ '\r') (params : List (Str × BoundValue))
    (tbl : List (Char × Char)) :
    parseQueryText (printStatements (qs.map QStmt.stmt)) params tbl = .ok (qs.map QStmt.stmt) :=
  parseQuery_printed_exprs_partial qs hok _ params tbl (foldCR_of_noCR _ hcr)

open PrintedQuery RenderPrinted in
/-- **Each statement alone.** Every statement of such a query, printed alone, parses — as a query and
through `ParseStatement`'s loop — to itself: together with `parseQuery_printed_exprs_partial` "each
identical to the result of parsing it alone". -/
theorem parseQuery_printed_exprs_single_partial (q : QStmt) (hok : q.OK) (text : Str)
    (params : List (Str × BoundValue)) (tbl : List (Char × Char)) (hfold : foldCR text = q.stmt.print) :
    parseQueryText text params tbl = .ok [q.stmt] :=
  parseQuery_printed_exprs_partial [q] (by intro q' h; simp at h; rw [h]; exact hok) text params tbl
    (by rw [hfold]; rfl)

section printedExamples
open PrintedQuery RenderPrinted

/-- `host = 'a'`, `host = 'b'`. -/
def exCondA : Option Expr := some (.binary .EQ (.varRef "host".toList .Unknown) (.string ['a']))
def exCondB : Option Expr := some (.binary .EQ (.varRef "host".toList .Unknown) (.string ['b']))

/-- `SELECT value FROM cpu WHERE host = 'a' LIMIT 3`, `DROP SERIES FROM cpu WHERE host = 'b'`, `SHOW DATABASES`. -/
def exQuery : List QStmt :=
  [.expr (selectPS ⟨.varRef "value".toList .Unknown, []⟩ [] "cpu".toList [] exCondA 3 0 0 0),
   .expr (dropSeriesPS ["cpu".toList] exCondB),
   .plain (.zeroArg ([.SHOW, .DATABASES], .parseShowDatabasesStatement, .showDatabases) (by simp [C01.zeroArgFamily]))]

/-- Non-vacuity, through the theorem: the printed query
`SELECT value FROM cpu WHERE host = 'a' LIMIT 3;⏎DROP SERIES FROM cpu WHERE host = 'b';⏎SHOW DATABASES`
parses to its three statements. -/
example : printStatements (exQuery.map QStmt.stmt) =
      "SELECT value FROM cpu WHERE host = 'a' LIMIT 3;\nDROP SERIES FROM cpu WHERE host = 'b';\nSHOW DATABASES".toList ∧
    parseQueryText
      "SELECT value FROM cpu WHERE host = 'a' LIMIT 3;\nDROP SERIES FROM cpu WHERE host = 'b';\nSHOW DATABASES".toList [] [] =
      .ok (exQuery.map QStmt.stmt) := by
  refine ⟨by decide +kernel, ?_⟩
  refine parseQuery_printed_exprs_partial exQuery ?_ _ [] [] (by decide +kernel)
  intro q hq
  simp only [exQuery, List.mem_cons, List.not_mem_nil, or_false] at hq
  rcases hq with rfl | rfl | rfl
  · exact selectPS_ok _ _ _ _ _ _ _ _ _ (by decide +kernel)
  · exact dropSeriesPS_ok _ _ (by decide +kernel)
  · trivial

/-- … and the middle statement alone. -/
example : parseQueryText "DROP SERIES FROM cpu WHERE host = 'b'".toList [] [] =
    .ok [.dropSeries (["cpu".toList].map nameSrc) exCondB] := by
  have := parseQuery_printed_exprs_single_partial (.expr (dropSeriesPS ["cpu".toList] exCondB))
    (dropSeriesPS_ok _ _ (by decide +kernel)) "DROP SERIES FROM cpu WHERE host = 'b'".toList [] [] (by decide +kernel)
  exact this

end printedExamples

/-! ## Printed queries, second part: the wide class, subqueries, EXPLAIN, CREATE CONTINUOUS QUERY -/

/-- **`;` directly after a printed expression of the wide class.** As `parseExpr_before_semicolon_partial`,
for C03's wide class relative to the lower-casing table of the state (`RT.wOK s.lowerTbl`): number and
duration literals of either sign, wildcards, `DISTINCT x`, typed references `x::type` and calls (`mean(value)`,
`now()`, `time(5m)`) — the steps of the call specification (`wspecA_step`, `wspecC_step`) restated for
separators that may be a `;` (Lemmas/ExprSemiWide.lean). Partial: the class (excluded as in C03: call names
that need quotes or are changed by the table, negated-operand trees, non-canonical decimals). -/
theorem parseExpr_before_semicolon_wide_partial (F : Nat) (s : PState) (e : Expr) (t : Str)
    (he : RT.wOK s.lowerTbl e = true) (hat : RT.AtW s (e.print ++ ';' :: t)) :
    wp (parseExpr F) s (fun e' s' => e' = e ∧ RT.Stand s' (';' :: t) ∧ RT.Same s s') RT.IsFuel :=
  C02.Semi.RT.parseExprW_semi F s e t he hat

open PrintedQuery in
/-- Obligation on the regenerated tables, as `gen_exprPaths`, for the keyword paths with EXPLAIN and CREATE
CONTINUOUS QUERY added. -/
theorem gen_exprPathsT : ∀ p ∈ exprPathsT,
    (∀ t ∈ p.1, t.isKw = true) ∧ C01.dispatchPath 0 p.1 = some p.2 ∧ p.1.length ≤ Gen.dispatch.length + 1 ∧
      (match p.1 with
       | [] => false
       | t :: _ => t != .EOF && t != .SEMICOLON) = true := PrintedQuery.gen_exprPathsT

open PrintedQuery RenderPrinted in
/-- **C16 (a) for printed queries, all instantiated kinds.** `qs` is any list of printed statements:
`QStmtT.plain p` and `QStmtT.expr x` as in `parseQuery_printed_exprs_partial` (`QStmt.toT` embeds the older sum
type), or `QStmtT.wide N x` with `x.OKT tbl N` — a family whose class is relative to the lower-casing table
`tbl` shipped with the input:

* `selectSubPS st`, `selOKB tbl n st` (`N = n + 3`): SELECT with fields / condition / dimensions of C03's wide
  class (`mean(value)`, `time > now() - 1h`, numbers, durations, wildcards), `INTO`, qualified measurements and
  **subqueries nested less than `n` deep** as sources, `GROUP BY` tags / `time(5m)` / `time(5m, 1m)` / `*`,
  `fill(none|previous|linear|<integer>|<number>)`, `ORDER BY [time] ASC|DESC`, the four limits, `TZ('…')`;
* `explainPS st analyze verbose`: `EXPLAIN [ANALYZE] [VERBOSE]` of such a SELECT;
* `cqPS name db ev fo st`, `CQOK tbl n …`: `CREATE CONTINUOUS QUERY … ON … [RESAMPLE …] BEGIN SELECT … INTO … END`
  (the statement ends in the keyword `END`; the `;` behind it only has to end a word).

A raw text whose delivered form is `Statements.String()` of them parses with table `tbl` to exactly these
statements, in order. The table is the same in front of every statement (frame property of `ScanIgnoreWhitespace`,
the dispatch and the handlers of all these families; Lemmas/PrintedQueryT.lean).

Partial: the classes (exclusions as in `C02.selectSub_print_parse_partial`, `explain_…`, `createContinuousQuery_…`),
and `hfuel`: the expression fuel `parseQueryText` grants (`fuelFor text = 4·|text| + 100`) is at least `depth + 3` for
every statement with subqueries — decidable, and true whenever the nesting is less than 98 deep. -/
theorem parseQuery_printed_all_partial (qs : List QStmtT) (text : Str) (params : List (Str × BoundValue))
    (tbl : List (Char × Char)) (hok : ∀ q ∈ qs, q.OK tbl) (hfuel : ∀ q ∈ qs, q.minFuel ≤ fuelFor text)
    (hfold : foldCR text = printStatements (qs.map QStmtT.stmt)) :
    parseQueryText text params tbl = .ok (qs.map QStmtT.stmt) :=
  parseQueryText_printed_qstmtsT C04.gen_dispatch_depth qs text params tbl hok hfuel hfold

open PrintedQuery RenderPrinted in
/-- The same for nesting depths up to 97: no hypothesis on the fuel is left. -/
theorem parseQuery_printed_all_shallow_partial (qs : List QStmtT) (text : Str) (params : List (Str × BoundValue))
    (tbl : List (Char × Char)) (hok : ∀ q ∈ qs, q.OK tbl) (hdepth : ∀ q ∈ qs, q.minFuel ≤ 100)
    (hfold : foldCR text = printStatements (qs.map QStmtT.stmt)) :
    parseQueryText text params tbl = .ok (qs.map QStmtT.stmt) :=
  parseQuery_printed_all_partial qs text params tbl hok
    (fun q hq => Nat.le_trans (hdepth q hq) (by unfold fuelFor; omega)) hfold

open PrintedQuery RenderPrinted in
/-- **`ParseQuery(Statements.String())` = the statements**, all instantiated kinds, for the printed query itself
(hypothesis: it contains no CR — decidable; see `parseQuery_printed_exprs_text_partial`). -/
theorem parseQuery_printed_all_text_partial (qs : List QStmtT) (params : List (Str × BoundValue))
    (tbl : List (Char × Char)) (hok : ∀ q ∈ qs, q.OK tbl) (hdepth : ∀ q ∈ qs, q.minFuel ≤ 100)
    (hcr : ∀ c ∈ printStatements (qs.map QStmtT.stmt), c ≠ '\r') :
    parseQueryText (printStatements (qs.map QStmtT.stmt)) params tbl = .ok (qs.map QStmtT.stmt) :=
  parseQuery_printed_all_shallow_partial qs _ params tbl hok hdepth (foldCR_of_noCR _ hcr)

section printedExamplesT
open PrintedQuery RenderPrinted

/-- `SELECT mean(value) FROM cpu WHERE time > now() - 1h GROUP BY time(5m) fill(none)`. -/
def exSelWide : SelectStmt :=
  wideSelect ⟨.call "mean".toList [.varRef "value".toList .Unknown], []⟩ [] none [qualSrc ([], [], "cpu".toList)]
    (some (.binary .GT (.varRef "time".toList .Unknown) (.binary .SUB (.call "now".toList []) (.duration 3600000000000))))
    [.call "time".toList [.duration 300000000000]] .none .none [] 0 0 0 0 none

/-- `SELECT max(v) FROM (SELECT v FROM m)`. -/
def exSelSub : SelectStmt :=
  wideSelect ⟨.call "max".toList [.varRef ['v'] .Unknown], []⟩ [] none
    [.subquery (wideSelect ⟨.varRef ['v'] .Unknown, []⟩ [] none [qualSrc ([], [], ['m'])] none [] .null .none [] 0 0 0 0 none)]
    none [] .null .none [] 0 0 0 0 none

def exQueryT : List QStmtT :=
  [.wide 4 (selectSubPS exSelWide), .wide 5 (selectSubPS exSelSub),
   .plain (.zeroArg ([.SHOW, .DATABASES], .parseShowDatabasesStatement, .showDatabases) (by simp [C01.zeroArgFamily]))]

/-- Non-vacuity, through the theorem: the printed query
`SELECT mean(value) FROM cpu WHERE time > now() - 1h GROUP BY time(5m) fill(none);⏎SELECT max(v) FROM (SELECT v FROM m);⏎SHOW DATABASES`
parses to its three statements. -/
example : printStatements (exQueryT.map QStmtT.stmt) =
      ("SELECT mean(value) FROM cpu WHERE time > now() - 1h GROUP BY time(5m) fill(none);\n" ++
        "SELECT max(v) FROM (SELECT v FROM m);\nSHOW DATABASES").toList ∧
    parseQueryText
      ("SELECT mean(value) FROM cpu WHERE time > now() - 1h GROUP BY time(5m) fill(none);\n" ++
        "SELECT max(v) FROM (SELECT v FROM m);\nSHOW DATABASES").toList [] [] = .ok (exQueryT.map QStmtT.stmt) := by
  refine ⟨by decide +kernel, ?_⟩
  refine parseQuery_printed_all_shallow_partial exQueryT _ [] [] ?_ ?_ (by decide +kernel)
  · intro q hq
    simp only [exQueryT, List.mem_cons, List.not_mem_nil, or_false] at hq
    rcases hq with rfl | rfl | rfl
    · exact selectSubPS_ok [] 1 _ (by decide +kernel)
    · exact selectSubPS_ok [] 2 _ (by decide +kernel)
    · trivial
  · intro q hq
    simp only [exQueryT, List.mem_cons, List.not_mem_nil, or_false] at hq
    rcases hq with rfl | rfl | rfl <;> decide

/-- `EXPLAIN ANALYZE SELECT max(v) FROM (SELECT v FROM m);⏎CREATE CONTINUOUS QUERY cq ON db BEGIN SELECT mean(value)
INTO tgt FROM cpu GROUP BY time(5m) END;⏎DELETE WHERE host = 'b'`: the other two new kinds followed by `;`. -/
def exCQSelT : SelectStmt :=
  wideSelect ⟨.call "mean".toList [.varRef "value".toList .Unknown], []⟩ [] (some ([], [], "tgt".toList))
    [qualSrc ([], [], "cpu".toList)] none [.call "time".toList [.duration 300000000000]] .null .none [] 0 0 0 0 none

def exQueryT2 : List QStmtT :=
  [.wide 5 (explainPS exSelSub true false), .wide 4 (cqPS "cq".toList "db".toList 0 0 exCQSelT),
   .expr (deletePS [] exCondB)]

example : printStatements (exQueryT2.map QStmtT.stmt) =
      ("EXPLAIN ANALYZE SELECT max(v) FROM (SELECT v FROM m);\n" ++
        "CREATE CONTINUOUS QUERY cq ON db BEGIN SELECT mean(value) INTO tgt FROM cpu GROUP BY time(5m) END;\n" ++
        "DELETE WHERE host = 'b'").toList ∧
    parseQueryText (printStatements (exQueryT2.map QStmtT.stmt)) [] [] = .ok (exQueryT2.map QStmtT.stmt) := by
  refine ⟨by decide +kernel, ?_⟩
  refine parseQuery_printed_all_text_partial exQueryT2 [] [] ?_ ?_ (by decide +kernel)
  · intro q hq
    simp only [exQueryT2, List.mem_cons, List.not_mem_nil, or_false] at hq
    rcases hq with rfl | rfl | rfl
    · exact explainPS_ok [] 2 _ _ _ (by decide +kernel)
    · exact cqPS_ok [] 1 _ _ _ _ _ (by decide +kernel)
    · exact deletePS_ok _ _ (by decide +kernel)
  · intro q hq
    simp only [exQueryT2, List.mem_cons, List.not_mem_nil, or_false] at hq
    rcases hq with rfl | rfl | rfl <;> decide

end printedExamplesT

/-! ## Negative examples: where the side conditions bite (kernel-checked) -/

/-- Inside a string literal the gap is not at a token boundary, and indeed replacing the
space by a line feed changes the tokens (`'a b'` is a STRING, `'a⏎b'` is a BADSTRING). -/
theorem inside_string_counterexample :
    sigTokens (Cursor.ofRunes ['\'', 'a', ' ', 'b', '\'']) ≠
      sigTokens (Cursor.ofRunes ['\'', 'a', '\n', 'b', '\'']) := by decide

/-- Without whitespace on its left a `--` comment is not neutral: `1- 2` vs `1---c⏎ 2` (the
first two `-` of `---c` open the comment, the subtraction is gone). -/
theorem unflanked_comment_counterexample :
    sigTokens (Cursor.ofRunes ['1', '-', ' ', '2']) ≠
      sigTokens (Cursor.ofRunes ['1', '-', '-', '-', 'c', '\n', ' ', '2']) := by decide

-- non-vacuity: the hypotheses are met by `a  b` / `a⏎/*c*/⇥b`
example : IsComment ['/', '*', 'c', '*', '/'] := IsComment.block ['c'] (by decide)
example : IsComment ['-', '-', ' ', 'c', '\n'] := IsComment.line [' ', 'c'] (by decide)
example : WsRun [' ', '\n', '\t'] := ⟨by decide, by decide⟩
example : (scanN 1 (Cursor.ofRunes ['a', ' ', 'b'])).rest.length = ([' '] ++ ['b']).length + 1 := by decide
example : sigTokens (Cursor.ofRunes ['a', ' ', 'b']) =
    sigTokens (Cursor.ofRunes ['a', '\n', '/', '*', 'c', '*', '/', '\t', 'b']) := by decide

/-! ## Printed queries, third part: no carriage return in the printed text, from the class predicates -/

open PrintedQuery RenderPrinted in
/-- **A printed query of statements of the instantiated families contains no carriage return.** `qs` is a list
of statements given by the data their class predicates speak about (`QFam`: the 14 plain printed kinds, DELETE,
DROP SERIES, SHOW SERIES / TAG KEYS / FIELD KEYS / MEASUREMENTS, SELECT in `SimpleSelect` / `IntoSelect` / `selOKB tbl n`,
EXPLAIN, CREATE CONTINUOUS QUERY), `QFam.OK tbl` the decidable class predicate of the family. Every class implies
CR-freeness: names, aliases, database / policy / zone names are `Expressible` (no NUL, no CR), expressions print
without CR (`RT.print_noCR`, `RT.printW_noCR`), keywords, digits, durations and punctuation contain none; subqueries
by induction on the depth index of `selOKB`.

The statement is over `QFam`, not over `QStmtT`: `QStmtT.OK tbl` is the *interface* ("the handler reads the body
back"), stated for an arbitrary keyword path / body / statement, and says nothing about the characters of the
text; `QFam.toT_ok` turns the class predicate into the interface. -/
theorem printStatements_no_cr (qs : List QFam) (tbl : List (Char × Char)) (hok : ∀ q ∈ qs, q.OK tbl) :
    ∀ c ∈ printStatements (qs.map QFam.stmt), c ≠ '\r' :=
  noCR_printStatements_fam tbl qs hok

open PrintedQuery RenderPrinted in
/-- **`ParseQuery(Statements.String())` = the statements**, for the printed query itself, with no hypothesis about
carriage returns left: the printed text of statements of the instantiated families — each in the class of its
family (`QFam.OK tbl`) — parses with table `tbl` to exactly these statements, in order.

Partial: the classes of the families (as in `parseQuery_printed_all_partial`), and `hdepth`: subqueries nested
less than 98 deep (the expression fuel `parseQueryText` grants covers `depth + 3`; decidable). -/
theorem parseQuery_printed_all_text_nocr_partial (qs : List QFam) (params : List (Str × BoundValue))
    (tbl : List (Char × Char)) (hok : ∀ q ∈ qs, q.OK tbl) (hdepth : ∀ q ∈ qs, q.depth ≤ 97) :
    parseQueryText (printStatements (qs.map QFam.stmt)) params tbl = .ok (qs.map QFam.stmt) := by
  have h := parseQuery_printed_all_text_partial (qs.map QFam.toT) params tbl
    (by
      intro q hq
      obtain ⟨f, hf, rfl⟩ := List.mem_map.mp hq
      exact f.toT_ok tbl (hok f hf))
    (by
      intro q hq
      obtain ⟨f, hf, rfl⟩ := List.mem_map.mp hq
      exact Nat.le_trans f.toT_minFuel_le (by have := hdepth f hf; omega))
    (by rw [QFam.map_toT_stmt]; exact printStatements_no_cr qs tbl hok)
  rw [QFam.map_toT_stmt] at h
  exact h

section printedExamplesNoCR
open PrintedQuery RenderPrinted

/-- `EXPLAIN ANALYZE SELECT max(v) FROM (SELECT v FROM m);⏎CREATE CONTINUOUS QUERY cq ON db BEGIN SELECT mean(value)
INTO tgt FROM cpu GROUP BY time(5m) END;⏎DELETE WHERE host = 'b';⏎SELECT mean(value) FROM cpu WHERE time > now() - 1h
GROUP BY time(5m) fill(none);⏎SHOW DATABASES`, by the data of the classes. -/
def exQueryF : List QFam :=
  [.explain 2 exSelSub true false, .cq 1 "cq".toList "db".toList 0 0 exCQSelT, .delete [] exCondB,
   .selectSub 1 exSelWide,
   .plain (.zeroArg ([.SHOW, .DATABASES], .parseShowDatabasesStatement, .showDatabases) (by simp [C01.zeroArgFamily]))]

/-- Non-vacuity, through the theorem: nothing but the (decidable) class predicates and the depths is checked. -/
example : printStatements (exQueryF.map QFam.stmt) =
      ("EXPLAIN ANALYZE SELECT max(v) FROM (SELECT v FROM m);\n" ++
        "CREATE CONTINUOUS QUERY cq ON db BEGIN SELECT mean(value) INTO tgt FROM cpu GROUP BY time(5m) END;\n" ++
        "DELETE WHERE host = 'b';\n" ++
        "SELECT mean(value) FROM cpu WHERE time > now() - 1h GROUP BY time(5m) fill(none);\nSHOW DATABASES").toList ∧
    parseQueryText (printStatements (exQueryF.map QFam.stmt)) [] [] = .ok (exQueryF.map QFam.stmt) := by
  refine ⟨by decide +kernel, ?_⟩
  refine parseQuery_printed_all_text_nocr_partial exQueryF [] [] ?_ ?_
  · intro q hq
    simp only [exQueryF, List.mem_cons, List.not_mem_nil, or_false] at hq
    rcases hq with rfl | rfl | rfl | rfl | rfl
    · exact (by decide +kernel : selOKB [] 2 exSelSub = true)
    · exact (by decide +kernel : CQOK [] 1 "cq".toList "db".toList 0 0 exCQSelT)
    · exact (by decide +kernel : DeleteLikeOK [] exCondB)
    · exact (by decide +kernel : selOKB [] 1 exSelWide = true)
    · trivial
  · intro q hq
    simp only [exQueryF, List.mem_cons, List.not_mem_nil, or_false] at hq
    rcases hq with rfl | rfl | rfl | rfl | rfl <;> decide

/-- The classes do exclude carriage returns: a measurement name with a CR is outside `DeleteLikeOK` (and the parser
never produces one: the reader folds CR to LF). -/
example : ¬ (QFam.delete [['a', '\r', 'b']] none).OK [] :=
  (by decide +kernel : ¬ DeleteLikeOK [['a', '\r', 'b']] none)

end printedExamplesNoCR

/-! ## Printed statements separated by `;` and arbitrary gaps behind it -/

open PrintedQuery RenderPrinted in
/-- **C16 (a) with free layout behind the separator.** `qs` is a list of printed statements of the instantiated
kinds (`QStmtT`, as in `parseQuery_printed_all_partial`), each with a gap in front of it: any sequence of whitespace
runes, `/* … */` and `-- …⏎` comments (`Render.Gap`, well-formed: `gapOK`), possibly empty. A raw text whose delivered
form is `gap₀ stmt₀;gap₁ stmt₁;gap₂ stmt₂ …` (`gapSepText`) parses with table `tbl` to exactly these statements, in
order: the layout between `;` and the next statement — none, blanks, line feeds, comments — changes nothing, no
statement swallows the next one, none is cut short. The printer's `;⏎` is the instance `gapᵢ = [⏎]`.

Partial: the classes of the families; `hdepth` (subqueries nested less than 98 deep); and the `;` stands directly
behind the last token of its statement, nothing follows the last statement — a gap *before* the `;` (and a trailing
`;`) is not covered: every family theorem would have to be given a continuation `gap ;…` (`Follow` / `Ends` for
`gapText g ++ ';' :: t`); only a single blank there is inside the proved continuation class. -/
theorem parseQuery_gap_after_semicolon_partial (qs : List (Render.Gap × QStmtT)) (text : Str)
    (params : List (Str × BoundValue)) (tbl : List (Char × Char)) (hok : ∀ z ∈ qs, z.2.OK tbl)
    (hgap : ∀ z ∈ qs, Render.gapOK z.1 = true) (hdepth : ∀ z ∈ qs, z.2.minFuel ≤ 100)
    (hfold : foldCR text = gapSepText (gItems qs)) :
    parseQueryText text params tbl = .ok (qs.map (·.2.stmt)) :=
  parseQueryText_gapsep_qstmtsT C04.gen_dispatch_depth qs text params tbl hok hgap
    (fun z hz => Nat.le_trans (hdepth z hz) (by unfold fuelFor; omega)) hfold

section gapSepExamples
open PrintedQuery RenderPrinted Render

/-- `SELECT … fill(none); /* c */⏎SELECT max(v) FROM (SELECT v FROM m);-- x⏎⇥SHOW DATABASES;DELETE WHERE host = 'b'`. -/
def exQueryG : List (Render.Gap × QStmtT) :=
  [([], .wide 4 (selectSubPS exSelWide)),
   ([.ws ' ', .block [' ', 'c', ' '], .ws '\n'], .wide 5 (selectSubPS exSelSub)),
   ([.line [' ', 'x'], .ws '\t'],
     .plain (.zeroArg ([.SHOW, .DATABASES], .parseShowDatabasesStatement, .showDatabases) (by simp [C01.zeroArgFamily]))),
   ([], .expr (deletePS [] exCondB))]

/-- Non-vacuity, through the theorem: a block comment, a line comment, a tab and no gap at all behind the `;`. -/
example : parseQueryText
      ("SELECT mean(value) FROM cpu WHERE time > now() - 1h GROUP BY time(5m) fill(none); /* c */\n" ++
        "SELECT max(v) FROM (SELECT v FROM m);-- x\n\tSHOW DATABASES;DELETE WHERE host = 'b'").toList [] [] =
      .ok (exQueryG.map (·.2.stmt)) := by
  refine parseQuery_gap_after_semicolon_partial exQueryG _ [] [] ?_ ?_ ?_ (by decide +kernel)
  · intro z hz
    simp only [exQueryG, List.mem_cons, List.not_mem_nil, or_false] at hz
    rcases hz with rfl | rfl | rfl | rfl
    · exact selectSubPS_ok [] 1 _ (by decide +kernel)
    · exact selectSubPS_ok [] 2 _ (by decide +kernel)
    · trivial
    · exact deletePS_ok _ _ (by decide +kernel)
  · intro z hz
    simp only [exQueryG, List.mem_cons, List.not_mem_nil, or_false] at hz
    rcases hz with rfl | rfl | rfl | rfl <;> decide
  · intro z hz
    simp only [exQueryG, List.mem_cons, List.not_mem_nil, or_false] at hz
    rcases hz with rfl | rfl | rfl | rfl <;> decide

end gapSepExamples

end InfluxQL.C16

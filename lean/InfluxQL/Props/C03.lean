import InfluxQL.Lemmas.Prec
import InfluxQL.Model.ParserCore
import InfluxQL.Lemmas.ExprRoundTrip
import InfluxQL.Lemmas.ExprRoundTripWide
import InfluxQL.Lemmas.StmtExprPiecesWide
/-!
# C03 — binary operators group by precedence and associate to the left

`Prec.insertT` / `Prec.parseChain` are the insertion loop of `ParseExpr` on trees whose atoms
are opaque; `insertOp` (Model/ParserCore.lean) is the same loop on `Expr`, where the atoms are
whatever `parseUnaryExpr` returns. `emb_insertT` ties the two.
-/
namespace InfluxQL.C03
open InfluxQL Gen Prec

/-! ## The generated precedence table is the five levels of the property -/

theorem gen_precedence_levels :
    ([Token.MUL, .DIV, .MOD, .BITWISE_AND].all (·.precedence == 5)) ∧
    ([Token.ADD, .SUB, .BITWISE_OR, .BITWISE_XOR].all (·.precedence == 4)) ∧
    ([Token.EQ, .NEQ, .LT, .LTE, .GT, .GTE, .EQREGEX, .NEQREGEX].all (·.precedence == 3)) ∧
    Token.AND.precedence = 2 ∧ Token.OR.precedence = 1 := by decide

/-- Operators are exactly the tokens with a precedence, and no precedence exceeds 5. -/
theorem gen_operators_have_levels :
    ∀ t ∈ Token.all, (t.isOperator = decide (1 ≤ t.precedence)) ∧ t.precedence ≤ 5 := by decide +kernel

theorem precedence_le_five (t : Token) : t.precedence ≤ 5 := by
  cases t <;> decide

/-- Both spellings of "not equal" are the same operator. -/
theorem neq_spellings :
    (scan (Cursor.ofRunes ['<', '>', ' '])).1.tok = .NEQ ∧ (scan (Cursor.ofRunes ['!', '=', ' '])).1.tok = .NEQ := by
  decide

/-! ## Chains -/

/-- **C03 (yield).** Parsing a chain loses and reorders nothing. -/
theorem chain_yield {α : Type} (first : α) (rest : List (Token × α)) :
    firstAtom (parseChain first rest) = first ∧ yieldOps (parseChain first rest) = rest :=
  yield_parseChain first rest

/-- **C03 (grouping).** The result is grouped by the five levels, left-associatively: an
unparenthesised left operand binds at least as tightly as its parent, a right one strictly
tighter. -/
theorem chain_wellGrouped {α : Type} (first : α) (rest : List (Token × α)) :
    WellGrouped (parseChain first rest) :=
  wellGrouped_parseChain first rest

/-- **C03 (uniqueness).** It is the only tree over that token sequence with this property. -/
theorem chain_unique {α : Type} (first : α) (rest : List (Token × α)) (t : T α) (h : WellGrouped t)
    (hf : firstAtom t = first) (hy : yieldOps t = rest) : t = parseChain first rest := by
  obtain ⟨h1, h2⟩ := yield_parseChain first rest
  exact wellGrouped_unique t _ h (wellGrouped_parseChain first rest) (by rw [hf, h1]) (by rw [hy, h2])

/-- **C03 (re-parsing).** Writing a well-grouped tree out as its token sequence and parsing that
again gives the same grouping. -/
theorem chain_reparse {α : Type} (t : T α) (h : WellGrouped t) : parseChain (firstAtom t) (yieldOps t) = t :=
  reparse t h

theorem topGe_one_parseChain {α : Type} (first : α) (rest : List (Token × α))
    (hops : ∀ p ∈ rest, 1 ≤ p.1.precedence) : TopGe 1 (parseChain first rest) := by
  unfold parseChain
  suffices h : ∀ (t : T α), TopGe 1 t → TopGe 1 (rest.foldl (fun t p => insertT t p.1 p.2) t) from h _ trivial
  induction rest with
  | nil => intro t h; exact h
  | cons p rest ih =>
    intro t h
    exact ih (fun q hq => hops q (by simp [hq])) _ (topGe_insertT 1 t p.1 p.2 (hops p (by simp)) h)

/-- **C03 (linear time).** Inserting one more operator walks down at most four nodes of the
right spine, whatever the length of the chain. -/
theorem spine_le_four {α : Type} (first : α) (rest : List (Token × α)) (op : Token)
    (hops : ∀ p ∈ rest, 1 ≤ p.1.precedence) : descentDepth (parseChain first rest) op ≤ 4 := by
  have := descentDepth_le (parseChain first rest) op 1 (wellGrouped_parseChain first rest)
    (topGe_one_parseChain first rest hops)
  have := precedence_le_five op
  omega

/-! ## The same loop on `Expr` -/

/-- What `parseUnaryExpr` can return: anything that is not an operator node of lower precedence
(the only binary node it returns is the `±1 * x` of a unary sign). -/
def IsAtomExpr (e : Expr) : Prop := ∀ op l r, e = .binary op l r → 5 ≤ op.precedence

def AtomsOK : T Expr → Prop
  | .atom e => IsAtomExpr e
  | .node _ l r => AtomsOK l ∧ AtomsOK r

def emb : T Expr → Expr
  | .atom e => e
  | .node op l r => .binary op (emb l) (emb r)

/-- The model's `insertOp` is `insertT` with the results of `parseUnaryExpr` as atoms. -/
theorem emb_insertT (t : T Expr) (op : Token) (a : Expr) (h : AtomsOK t) :
    emb (insertT t op a) = insertOp (emb t) op a := by
  induction t with
  | atom x =>
    simp only [insertT, emb]
    cases x with
    | binary o l r =>
      have h5 : 5 ≤ o.precedence := h o l r rfl
      have := precedence_le_five op
      simp only [insertOp]
      have : o.precedence ≥ op.precedence := by omega
      simp [this]
    | _ => rfl
  | node o l r _ ihr =>
    simp only [insertT, emb, insertOp]
    split
    · rfl
    · simp [emb, ihr h.2]

/-- The `±1 * x` node of a unary sign is an atom in this sense. -/
example (x : Expr) : IsAtomExpr (.binary .MUL (.integer (-1)) x) := by
  intro op l r h; cases h; decide

/-- **C03 fails for printing on the current tree** (known finding, shared with C02): the
unparenthesised `-1 * a` that `b / -a` parses to is printed as the three tokens `-1 * a`, and
`b / -1 * a` groups as `(b / -1) * a`. -/
theorem negated_operand_counterexample :
    -- `b / -a` as parsed
    insertOp (.varRef ['b'] .Unknown) .DIV (.binary .MUL (.integer (-1)) (.varRef ['a'] .Unknown)) =
      .binary .DIV (.varRef ['b'] .Unknown) (.binary .MUL (.integer (-1)) (.varRef ['a'] .Unknown)) ∧
    -- its printed form
    Expr.print (.binary .DIV (.varRef ['b'] .Unknown) (.binary .MUL (.integer (-1)) (.varRef ['a'] .Unknown))) =
      ['b', ' ', '/', ' ', '-', '1', ' ', '*', ' ', 'a'] ∧
    -- `b / -1 * a` as parsed
    insertOp (insertOp (.varRef ['b'] .Unknown) .DIV (.integer (-1))) .MUL (.varRef ['a'] .Unknown) =
      .binary .MUL (.binary .DIV (.varRef ['b'] .Unknown) (.integer (-1))) (.varRef ['a'] .Unknown) ∧
    (Expr.binary .DIV (.varRef ['b'] .Unknown) (.binary .MUL (.integer (-1)) (.varRef ['a'] .Unknown)) ≠
      .binary .MUL (.binary .DIV (.varRef ['b'] .Unknown) (.integer (-1))) (.varRef ['a'] .Unknown)) := by
  refine ⟨rfl, by decide, rfl, ?_⟩
  intro h
  cases h

-- non-vacuity: a concrete chain meets the hypotheses
example : parseChain 'a' [(.ADD, 'b'), (.MUL, 'c'), (.SUB, 'd')] =
    .node .SUB (.node .ADD (.atom 'a') (.node .MUL (.atom 'b') (.atom 'c'))) (.atom 'd') := by rfl
example : ∀ p ∈ [(Token.ADD, 'b'), (Token.MUL, 'c')], 1 ≤ p.1.precedence := by decide


/-! ## Printing and parsing again, on the parser and the printer themselves -/

/-- The decidable class of expressions the round trip is proved for (`RT.rtOK`, see there). -/
def Printable (e : Expr) : Prop := RT.rtOK false e = true

instance (e : Expr) : Decidable (Printable e) := inferInstanceAs (Decidable (RT.rtOK false e = true))

/-- **C03 (re-parsing, on the real printer and parser).** For every printable expression `e` —
any depth, any names and literal values — `ParseExpr(e.String())` returns exactly `e`: the text
`Expr.print` writes carries the grouping, whatever parameters are bound. -/
theorem expr_print_parse (e : Expr) (h : Printable e) (params : List (Str × BoundValue))
    (lower : List (Char × Char)) : parseExprText e.print params lower = .ok e :=
  RT.parseExprText_print e h params lower (fun h => by cases h)

/-- The same from any parser state (the state-level form): `ParseExpr` started before
`e.String()` followed by `)`, `,` or the end of the input returns `e`, stands before that
separator with its token pushed back — or the fuel given was too small. -/
theorem expr_print_parse_state (fuel : Nat) (s : PState) (e : Expr) (k : List Char) (h : Printable e)
    (hk : RT.SepC k) (hs : RT.AtW s (e.print ++ k)) :
    wp (parseExpr fuel) s (fun e' s' => e' = e ∧ RT.At s' k ∧ RT.Same s s') (· = .fuel) :=
  (RT.rt_specs false fuel).1 s e k (fun h => by cases h) h hk hs

/-- The extended class: additionally variable references with a type cast (`::float`, `::integer`,
`::unsigned`, `::string`, `::boolean`, `::field`, `::tag`) and calls `f(arg, …)` whose name is a
lower-case non-keyword identifier (what is printed without quotes and not changed by
`strings.ToLower`), with arguments of the class or regex literals (`RT.rtOK true`). -/
def PrintableX (e : Expr) : Prop := RT.rtOK true e = true

instance (e : Expr) : Decidable (PrintableX e) := inferInstanceAs (Decidable (RT.rtOK true e = true))

/-- **C03 (re-parsing, with calls).** The same for the extended class. Partial in one respect: the
lower-casing table shipped with the input (the model's stand-in for `unicode.ToLower`) must have
entries for non-ASCII runes only — which is what the harness sends; the parser lower-cases every
call name and type name through it. Still excluded from the class (see notes/C03.md): call names
that need quotes or contain capitals (known finding / normalisation), `distinct`, wildcards, number
and duration literals, and the ungrouped `-1 * x` operand of the known finding. -/
theorem expr_print_parse_partial (e : Expr) (h : PrintableX e) (params : List (Str × BoundValue))
    (lower : List (Char × Char)) (hl : ∀ p ∈ lower, 128 ≤ p.1.toNat) :
    parseExprText e.print params lower = .ok e :=
  RT.parseExprText_print e h params lower (fun _ => hl)

-- non-vacuity: `a + b * (c - 1) AND d = 'x'`
example : Printable
    (.binary .AND
      (.binary .ADD (.varRef ['a'] .Unknown)
        (.binary .MUL (.varRef ['b'] .Unknown)
          (.paren (.binary .SUB (.varRef ['c'] .Unknown) (.integer 1)))))
      (.binary .EQ (.varRef ['d'] .Unknown) (.string ['x']))) := by decide

example : Expr.print
    (.binary .AND
      (.binary .ADD (.varRef ['a'] .Unknown)
        (.binary .MUL (.varRef ['b'] .Unknown)
          (.paren (.binary .SUB (.varRef ['c'] .Unknown) (.integer 1)))))
      (.binary .EQ (.varRef ['d'] .Unknown) (.string ['x']))) =
    "a + b * (c - 1) AND d = 'x'".toList := by decide

-- a quoted name, a keyword as a name, an escaped string
example : Printable (.binary .OR (.varRef "my field".toList .Unknown)
    (.binary .LT (.varRef "select".toList .Unknown) (.string "it's".toList))) := by decide

-- all sign cases of integers, an unsigned literal, booleans, a regex operand
example : Printable (.binary .OR
    (.binary .AND (.binary .GT (.varRef ['a'] .Unknown) (.integer (-9223372036854775808)))
      (.binary .EQREGEX (.varRef "host".toList .Unknown) (.regex "^a/b\\.c$".toList)))
    (.binary .NEQ (.paren (.binary .ADD (.unsigned 18446744073709551615) (.integer (-7)))) (.boolean true))) := by
  decide

-- nested calls, a regex argument, an empty argument list, an expression argument
example : PrintableX (.binary .GT
    (.call "percentile".toList [.call "mean".toList [.varRef "value".toList .Unknown], .integer 95])
    (.binary .ADD (.call "count".toList [.regex "^cpu.*".toList]) (.call "now".toList []))) := by decide

example : Expr.print (.binary .GT
    (.call "percentile".toList [.call "mean".toList [.varRef "value".toList .Unknown], .integer 95])
    (.binary .ADD (.call "count".toList [.regex "^cpu.*".toList]) (.call "now".toList []))) =
    "percentile(mean(value), 95) > count(/^cpu.*/) + now()".toList := by decide

example : ∀ p ∈ [('Ä', 'ä')], 128 ≤ p.1.toNat := by decide

-- typed references
example : PrintableX (.binary .LT (.call "max".toList [.varRef "v".toList .Float, .varRef "t 1".toList .Tag])
    (.varRef "n".toList .AnyField)) := by decide
example : Expr.print (.binary .LT (.call "max".toList [.varRef "v".toList .Float, .varRef "t 1".toList .Tag])
    (.varRef "n".toList .AnyField)) = "max(v::float, \"t 1\"::tag) < n::field".toList := by decide

-- the excluded region: the tree of the known finding is not printable
example : ¬ Printable (.binary .DIV (.varRef ['b'] .Unknown) (.binary .MUL (.integer (-1)) (.varRef ['a'] .Unknown))) := by
  decide

/-! ## The wide class: durations, numbers, wildcards, `DISTINCT`, negative literals, call names by the table -/

/-- **The wide printable class**, relative to the lower-casing table `lower` of the input
(`RT.wOK`, decidable). On top of `PrintableX`:
* `DurationLiteral` of every value except `MinInt64` (`-1h30m` is read as `-` and `90m`, negated);
* `NumberLiteral` of either sign (`-0.0` included) in canonical form (`Dec.canonical`: at least one
  decimal, no trailing zero but the one of `x.0` — in the model `1.50` and `1.5` are distinct trees
  that print alike) and below the `float64` overflow bound (`Dec.finite`);
* `Wildcard` `*`, `*::field`, `*::tag` in any operand position (`parseUnaryExpr` accepts them everywhere);
* `DISTINCT name` and calls of `distinct(…)`;
* `Call` names and cast type names characterised by the table itself: a bare non-keyword
  identifier (or `distinct`) with `lowerStr lower name = name` — exactly the names `parseCall`
  returns among those printed readably; no hypothesis on the table is left. -/
def Wide (lower : List (Char × Char)) (e : Expr) : Prop := RT.wOK lower e = true

instance (lower : List (Char × Char)) (e : Expr) : Decidable (Wide lower e) :=
  inferInstanceAs (Decidable (RT.wOK lower e = true))

/-- **C03 (re-parsing, wide class).** For every expression of the wide class
`ParseExpr(e.String())` returns exactly `e`, whatever parameters are bound, for every lower-casing
table. -/
theorem expr_print_parse_wide (e : Expr) (params : List (Str × BoundValue)) (lower : List (Char × Char))
    (h : Wide lower e) : parseExprText e.print params lower = .ok e :=
  RT.parseExprText_printW e params lower h

/-- The state-level form for the wide class, with the continuations of a statement: `ParseExpr`
started before `e.String()` followed by an `ExprEnd` (`)`, `,`, the end of the input, or one blank
and a token that is no binary operator — `LIMIT`, `GROUP`, `AS`, …) returns `e` and stands
before the continuation (`RT.Stand`) — or the fuel given was too small. -/
theorem expr_print_parse_wide_state (fuel : Nat) (s : PState) (e : Expr) (k : List Char)
    (h : Wide s.lowerTbl e) (hk : RT.ExprEnd k) (hs : RT.AtW s (e.print ++ k)) :
    wp (parseExpr fuel) s (fun e' s' => e' = e ∧ RT.Stand s' k ∧ RT.Same s s') (· = .fuel) :=
  (RT.w_specs s.lowerTbl fuel).1 s e k rfl h hk hs

/-- The wide class contains the extended class whenever the table has non-ASCII entries only
(the hypothesis of `expr_print_parse_partial`): the wide theorem subsumes both older ones. -/
theorem printableX_wide (e : Expr) (h : PrintableX e) (lower : List (Char × Char))
    (hl : ∀ p ∈ lower, 128 ≤ p.1.toNat) : Wide lower e :=
  RT.rtOK_wOK true hl e h

theorem printable_wide (e : Expr) (h : Printable e) (lower : List (Char × Char))
    (hl : ∀ p ∈ lower, 128 ≤ p.1.toNat) : Wide lower e :=
  RT.rtOK_wOK false hl e h

/-- **Number literals.** `parse (print d) = d` for every canonical decimal below the bound, of
either sign, as a whole expression. -/
theorem number_print_parse_canonical (d : Dec) (hc : d.canonical = true) (hf : d.finite = true)
    (params : List (Str × BoundValue)) (lower : List (Char × Char)) :
    parseExprText d.print params lower = .ok (.number d) :=
  expr_print_parse_wide (.number d) params lower (by
    show RT.wOK lower (.number d) = true
    rw [RT.wOK, hc, hf]; rfl)

/-- **Duration literals.** `parse (print d) = d` for every duration but `MinInt64` (negative ones
through the sign path of `parseUnaryExpr`). -/
theorem duration_print_parse_expr (d : Int) (h1 : minInt64 < d) (h2 : d ≤ maxInt64)
    (params : List (Str × BoundValue)) (lower : List (Char × Char)) :
    parseExprText (formatDuration d) params lower = .ok (.duration d) :=
  expr_print_parse_wide (.duration d) params lower (by
    show RT.wOK lower (.duration d) = true
    rw [RT.wOK]; simp [h1, h2])

/-- **Call names.** A name containing an ASCII capital is changed by the parser's
`strings.ToLower`, whatever the table: such a `Call` node is never returned by `ParseExpr` and is
not in the class. -/
theorem call_capital_not_wide (lower : List (Char × Char)) (name : Str) (args : List Expr) (c : Char)
    (hc : c ∈ name) (h1 : 65 ≤ c.toNat) (h2 : c.toNat ≤ 90) : ¬ Wide lower (.call name args) := by
  intro h
  have h' : RT.wOK lower (.call name args) = true := h
  rw [RT.wOK] at h'
  simp only [Bool.and_eq_true] at h'
  exact RT.lowerStr_ascii_capital lower name c hc h1 h2 (RT.callNameW_facts h'.1).1

/-- Kernel-checked witnesses of what stays outside, each kept out by the class predicate:
`F(x)` is read as `f(x)`; the non-canonical `1.50` (mantissa 150, scale 2) prints `1.5` and is
read with mantissa 15, scale 1 (same value: a distinction of the model only, `float64` has one
`1.5`); the printed form of the duration `MinInt64` is rejected; a wildcard carrying any other
token prints as `*`. -/
theorem wide_counterexamples :
    (match parseExprText "F(x)".toList [] [] with
      | .ok (.call n [.varRef v t]) => n == ['f'] && v == ['x'] && t == .Unknown
      | _ => false) = true ∧
    ¬ Wide [] (.call ['F'] [.varRef ['x'] .Unknown]) ∧
    (Expr.number ⟨false, 150, 2⟩).print = "1.5".toList ∧
    (match parseExprText (Expr.number ⟨false, 150, 2⟩).print [] [] with
      | .ok (.number d) => d == ⟨false, 15, 1⟩
      | _ => false) = true ∧
    ¬ Wide [] (.number ⟨false, 150, 2⟩) ∧
    (match parseExprText (Expr.duration minInt64).print [] [] with | .ok _ => false | .error _ => true) = true ∧
    ¬ Wide [] (.duration minInt64) ∧
    (match parseExprText (Expr.wildcard .MUL).print [] [] with
      | .ok (.wildcard t) => t == .ILLEGAL
      | _ => false) = true ∧
    ¬ Wide [] (.wildcard .MUL) ∧
    ¬ Wide [] (.binary .DIV (.varRef ['b'] .Unknown) (.binary .MUL (.integer (-1)) (.varRef ['a'] .Unknown))) := by
  refine ⟨by decide +kernel, by decide, by decide, by decide +kernel, by decide, by decide +kernel, by decide,
    by decide +kernel, by decide, by decide⟩

-- non-vacuity: `time > now() - 1h30m AND value >= 1.5` (the duration prints normalised)
example : Wide [] (.binary .AND
    (.binary .GT (.varRef "time".toList .Unknown)
      (.binary .SUB (.call "now".toList []) (.duration 5400000000000)))
    (.binary .GTE (.varRef "value".toList .Unknown) (.number ⟨false, 15, 1⟩))) := by decide
example : Expr.print (.binary .AND
    (.binary .GT (.varRef "time".toList .Unknown)
      (.binary .SUB (.call "now".toList []) (.duration 5400000000000)))
    (.binary .GTE (.varRef "value".toList .Unknown) (.number ⟨false, 15, 1⟩))) =
    "time > now() - 90m AND value >= 1.5".toList := by decide

-- `mean(*)`, `count(distinct(host))`, `count(DISTINCT host)`, `a - -1`, `a * -2.5`, `-1h`
example : Wide [] (.call "mean".toList [.wildcard .ILLEGAL]) := by decide
example : Expr.print (.call "mean".toList [.wildcard .ILLEGAL]) = "mean(*)".toList := by decide
example : Wide [] (.call "count".toList [.call "distinct".toList [.varRef "host".toList .Unknown]]) := by decide
example : Expr.print (.call "count".toList [.call "distinct".toList [.varRef "host".toList .Unknown]]) =
    "count(distinct(host))".toList := by decide
example : Wide [] (.call "count".toList [.distinct "host".toList]) := by decide
example : Expr.print (.call "count".toList [.distinct "host".toList]) = "count(DISTINCT host)".toList := by decide
example : Wide [] (.binary .SUB (.varRef ['a'] .Unknown) (.integer (-1))) := by decide
example : Expr.print (.binary .SUB (.varRef ['a'] .Unknown) (.integer (-1))) = "a - -1".toList := by decide
example : Wide [] (.binary .MUL (.varRef ['a'] .Unknown) (.number ⟨true, 25, 1⟩)) := by decide
example : Expr.print (.binary .MUL (.varRef ['a'] .Unknown) (.number ⟨true, 25, 1⟩)) = "a * -2.5".toList := by decide
example : Wide [] (.binary .GT (.varRef ['t'] .Unknown) (.duration (-3600000000000))) := by decide
example : Expr.print (.binary .GT (.varRef ['t'] .Unknown) (.duration (-3600000000000))) = "t > -1h".toList := by decide
-- typed wildcards, a typed reference, a table with a non-ASCII entry, `-0.0`
example : Wide [('Ä', 'ä')] (.call "max".toList
    [.wildcard .FIELD, .wildcard .TAG, .varRef ['v'] .Float, .number ⟨true, 0, 1⟩]) := by decide
example : Expr.print (.call "max".toList
    [.wildcard .FIELD, .wildcard .TAG, .varRef ['v'] .Float, .number ⟨true, 0, 1⟩]) =
    "max(*::field, *::tag, v::float, -0.0)".toList := by decide
-- the literal of the first example is canonical and finite
example : (Dec.canonical ⟨false, 15, 1⟩ && Dec.finite ⟨false, 15, 1⟩) = true := by decide

/-- **Use inside statements** (the WHERE clause of the C02 statement families over the wide class):
`parseCondition` on the printed clause ` WHERE <cond>` (or nothing) followed by a continuation whose
first token is no operator and not `WHERE` returns the condition — which may now contain number
and duration literals, calls and typed references (`time > now() - 90m AND value >= 1.5`) — and
stands before the continuation, or the fuel was too small. -/
theorem condition_print_parse_wide (fuel : Nat) (s : PState) (c : Option Expr) (k : Str)
    (hc : CondOKW s.lowerTbl c) (hk : Follow k [.WHERE]) (hs : RT.Stand s (whereText c ++ k)) :
    wp (parseCondition fuel) s (fun c' s' => c' = c ∧ RT.Stand s' k ∧ RT.Same s s') (· = .fuel) :=
  parseCondition_printW fuel s c k hc hk hs

example : CondOKW [] (some (.binary .AND
    (.binary .GT (.varRef "time".toList .Unknown)
      (.binary .SUB (.call "now".toList []) (.duration 5400000000000)))
    (.binary .GTE (.varRef "value".toList .Unknown) (.number ⟨false, 15, 1⟩)))) := by decide

end InfluxQL.C03

import InfluxQL.Lemmas.Prec
import InfluxQL.Model.ParserCore
import InfluxQL.Lemmas.ExprRoundTrip
/-!
# C03 — binary operators group by precedence and associate to the left

`Prec.insertT` / `Prec.parseChain` are the insertion loop of `ParseExpr` on trees whose atoms
are opaque; `insertOp` (Model/ParserCore.lean) is the same loop on `Expr`, where the atoms are
whatever `parseUnaryExpr` returns. `emb_insertT` ties the two.
-/
namespace InfluxQL.C03
open InfluxQL Gen Prec

/-! ## The generated precedence table is the five levels of the property -/

theorem gen_precedence_levels :
    ([Token.MUL, .DIV, .MOD, .BITWISE_AND].all (·.precedence == 5)) ∧
    ([Token.ADD, .SUB, .BITWISE_OR, .BITWISE_XOR].all (·.precedence == 4)) ∧
    ([Token.EQ, .NEQ, .LT, .LTE, .GT, .GTE, .EQREGEX, .NEQREGEX].all (·.precedence == 3)) ∧
    Token.AND.precedence = 2 ∧ Token.OR.precedence = 1 := by decide

/-- Operators are exactly the tokens with a precedence, and no precedence exceeds 5. -/
theorem gen_operators_have_levels :
    ∀ t ∈ Token.all, (t.isOperator = decide (1 ≤ t.precedence)) ∧ t.precedence ≤ 5 := by decide +kernel

theorem precedence_le_five (t : Token) : t.precedence ≤ 5 := by
  cases t <;> decide

/-- Both spellings of "not equal" are the same operator. -/
theorem neq_spellings :
    (scan (Cursor.ofRunes ['<', '>', ' '])).1.tok = .NEQ ∧ (scan (Cursor.ofRunes ['!', '=', ' '])).1.tok = .NEQ := by
  decide

/-! ## Chains -/

/-- **C03 (yield).** Parsing a chain loses and reorders nothing. -/
theorem chain_yield {α : Type} (first : α) (rest : List (Token × α)) :
    firstAtom (parseChain first rest) = first ∧ yieldOps (parseChain first rest) = rest :=
  yield_parseChain first rest

/-- **C03 (grouping).** The result is grouped by the five levels, left-associatively: an
unparenthesised left operand binds at least as tightly as its parent, a right one strictly
tighter. -/
theorem chain_wellGrouped {α : Type} (first : α) (rest : List (Token × α)) :
    WellGrouped (parseChain first rest) :=
  wellGrouped_parseChain first rest

/-- **C03 (uniqueness).** It is the only tree over that token sequence with this property. -/
theorem chain_unique {α : Type} (first : α) (rest : List (Token × α)) (t : T α) (h : WellGrouped t)
    (hf : firstAtom t = first) (hy : yieldOps t = rest) : t = parseChain first rest := by
  obtain ⟨h1, h2⟩ := yield_parseChain first rest
  exact wellGrouped_unique t _ h (wellGrouped_parseChain first rest) (by rw [hf, h1]) (by rw [hy, h2])

/-- **C03 (re-parsing).** Writing a well-grouped tree out as its token sequence and parsing that
again gives the same grouping. -/
theorem chain_reparse {α : Type} (t : T α) (h : WellGrouped t) : parseChain (firstAtom t) (yieldOps t) = t :=
  reparse t h

theorem topGe_one_parseChain {α : Type} (first : α) (rest : List (Token × α))
    (hops : ∀ p ∈ rest, 1 ≤ p.1.precedence) : TopGe 1 (parseChain first rest) := by
  unfold parseChain
  suffices h : ∀ (t : T α), TopGe 1 t → TopGe 1 (rest.foldl (fun t p => insertT t p.1 p.2) t) from h _ trivial
  induction rest with
  | nil => intro t h; exact h
  | cons p rest ih =>
    intro t h
    exact ih (fun q hq => hops q (by simp [hq])) _ (topGe_insertT 1 t p.1 p.2 (hops p (by simp)) h)

/-- **C03 (linear time).** Inserting one more operator walks down at most four nodes of the
right spine, whatever the length of the chain. -/
theorem spine_le_four {α : Type} (first : α) (rest : List (Token × α)) (op : Token)
    (hops : ∀ p ∈ rest, 1 ≤ p.1.precedence) : descentDepth (parseChain first rest) op ≤ 4 := by
  have := descentDepth_le (parseChain first rest) op 1 (wellGrouped_parseChain first rest)
    (topGe_one_parseChain first rest hops)
  have := precedence_le_five op
  omega

/-! ## The same loop on `Expr` -/

/-- What `parseUnaryExpr` can return: anything that is not an operator node of lower precedence
(the only binary node it returns is the `±1 * x` of a unary sign). -/
def IsAtomExpr (e : Expr) : Prop := ∀ op l r, e = .binary op l r → 5 ≤ op.precedence

def AtomsOK : T Expr → Prop
  | .atom e => IsAtomExpr e
  | .node _ l r => AtomsOK l ∧ AtomsOK r

def emb : T Expr → Expr
  | .atom e => e
  | .node op l r => .binary op (emb l) (emb r)

/-- The model's `insertOp` is `insertT` with the results of `parseUnaryExpr` as atoms. -/
theorem emb_insertT (t : T Expr) (op : Token) (a : Expr) (h : AtomsOK t) :
    emb (insertT t op a) = insertOp (emb t) op a := by
  induction t with
  | atom x =>
    simp only [insertT, emb]
    cases x with
    | binary o l r =>
      have h5 : 5 ≤ o.precedence := h o l r rfl
      have := precedence_le_five op
      simp only [insertOp]
      have : o.precedence ≥ op.precedence := by omega
      simp [this]
    | _ => rfl
  | node o l r _ ihr =>
    simp only [insertT, emb, insertOp]
    split
    · rfl
    · simp [emb, ihr h.2]

/-- The `±1 * x` node of a unary sign is an atom in this sense. -/
example (x : Expr) : IsAtomExpr (.binary .MUL (.integer (-1)) x) := by
  intro op l r h; cases h; decide

/-- **C03 fails for printing on the current tree** (known finding, shared with C02): the
unparenthesised `-1 * a` that `b / -a` parses to is printed as the three tokens `-1 * a`, and
`b / -1 * a` groups as `(b / -1) * a`. -/
theorem negated_operand_counterexample :
    -- `b / -a` as parsed
    insertOp (.varRef ['b'] .Unknown) .DIV (.binary .MUL (.integer (-1)) (.varRef ['a'] .Unknown)) =
      .binary .DIV (.varRef ['b'] .Unknown) (.binary .MUL (.integer (-1)) (.varRef ['a'] .Unknown)) ∧
    -- its printed form
    Expr.print (.binary .DIV (.varRef ['b'] .Unknown) (.binary .MUL (.integer (-1)) (.varRef ['a'] .Unknown))) =
      ['b', ' ', '/', ' ', '-', '1', ' ', '*', ' ', 'a'] ∧
    -- `b / -1 * a` as parsed
    insertOp (insertOp (.varRef ['b'] .Unknown) .DIV (.integer (-1))) .MUL (.varRef ['a'] .Unknown) =
      .binary .MUL (.binary .DIV (.varRef ['b'] .Unknown) (.integer (-1))) (.varRef ['a'] .Unknown) ∧
    (Expr.binary .DIV (.varRef ['b'] .Unknown) (.binary .MUL (.integer (-1)) (.varRef ['a'] .Unknown)) ≠
      .binary .MUL (.binary .DIV (.varRef ['b'] .Unknown) (.integer (-1))) (.varRef ['a'] .Unknown)) := by
  refine ⟨rfl, by decide, rfl, ?_⟩
  intro h
  cases h

-- non-vacuity: a concrete chain meets the hypotheses
example : parseChain 'a' [(.ADD, 'b'), (.MUL, 'c'), (.SUB, 'd')] =
    .node .SUB (.node .ADD (.atom 'a') (.node .MUL (.atom 'b') (.atom 'c'))) (.atom 'd') := by rfl
example : ∀ p ∈ [(Token.ADD, 'b'), (Token.MUL, 'c')], 1 ≤ p.1.precedence := by decide


/-! ## Printing and parsing again, on the parser and the printer themselves -/

/-- The decidable class of expressions the round trip is proved for (`RT.rtOK`, see there). -/
def Printable (e : Expr) : Prop := RT.rtOK false e = true

instance (e : Expr) : Decidable (Printable e) := inferInstanceAs (Decidable (RT.rtOK false e = true))

/-- **C03 (re-parsing, on the real printer and parser).** For every printable expression `e` —
any depth, any names and literal values — `ParseExpr(e.String())` returns exactly `e`: the text
`Expr.print` writes carries the grouping, whatever parameters are bound. -/
theorem expr_print_parse (e : Expr) (h : Printable e) (params : List (Str × BoundValue))
    (lower : List (Char × Char)) : parseExprText e.print params lower = .ok e :=
  RT.parseExprText_print e h params lower (fun h => by cases h)

/-- The same from any parser state (the state-level form): `ParseExpr` started before
`e.String()` followed by `)`, `,` or the end of the input returns `e`, stands before that
separator with its token pushed back — or the fuel given was too small. -/
theorem expr_print_parse_state (fuel : Nat) (s : PState) (e : Expr) (k : List Char) (h : Printable e)
    (hk : RT.SepC k) (hs : RT.AtW s (e.print ++ k)) :
    wp (parseExpr fuel) s (fun e' s' => e' = e ∧ RT.At s' k ∧ RT.Same s s') (· = .fuel) :=
  (RT.rt_specs false fuel).1 s e k (fun h => by cases h) h hk hs

/-- The extended class: additionally variable references with a type cast (`::float`, `::integer`,
`::unsigned`, `::string`, `::boolean`, `::field`, `::tag`) and calls `f(arg, …)` whose name is a
lower-case non-keyword identifier (what is printed without quotes and not changed by
`strings.ToLower`), with arguments of the class or regex literals (`RT.rtOK true`). -/
def PrintableX (e : Expr) : Prop := RT.rtOK true e = true

instance (e : Expr) : Decidable (PrintableX e) := inferInstanceAs (Decidable (RT.rtOK true e = true))

/-- **C03 (re-parsing, with calls).** The same for the extended class. Partial in one respect: the
lower-casing table shipped with the input (the model's stand-in for `unicode.ToLower`) must have
entries for non-ASCII runes only — which is what the harness sends; the parser lower-cases every
call name and type name through it. Still excluded from the class (see notes/C03.md): call names
that need quotes or contain capitals (known finding / normalisation), `distinct`, wildcards, number
and duration literals, and the ungrouped `-1 * x` operand of the known finding. -/
theorem expr_print_parse_partial (e : Expr) (h : PrintableX e) (params : List (Str × BoundValue))
    (lower : List (Char × Char)) (hl : ∀ p ∈ lower, 128 ≤ p.1.toNat) :
    parseExprText e.print params lower = .ok e :=
  RT.parseExprText_print e h params lower (fun _ => hl)

-- non-vacuity: `a + b * (c - 1) AND d = 'x'`
example : Printable
    (.binary .AND
      (.binary .ADD (.varRef ['a'] .Unknown)
        (.binary .MUL (.varRef ['b'] .Unknown)
          (.paren (.binary .SUB (.varRef ['c'] .Unknown) (.integer 1)))))
      (.binary .EQ (.varRef ['d'] .Unknown) (.string ['x']))) := by decide

example : Expr.print
    (.binary .AND
      (.binary .ADD (.varRef ['a'] .Unknown)
        (.binary .MUL (.varRef ['b'] .Unknown)
          (.paren (.binary .SUB (.varRef ['c'] .Unknown) (.integer 1)))))
      (.binary .EQ (.varRef ['d'] .Unknown) (.string ['x']))) =
    "a + b * (c - 1) AND d = 'x'".toList := by decide

-- a quoted name, a keyword as a name, an escaped string
example : Printable (.binary .OR (.varRef "my field".toList .Unknown)
    (.binary .LT (.varRef "select".toList .Unknown) (.string "it's".toList))) := by decide

-- all sign cases of integers, an unsigned literal, booleans, a regex operand
example : Printable (.binary .OR
    (.binary .AND (.binary .GT (.varRef ['a'] .Unknown) (.integer (-9223372036854775808)))
      (.binary .EQREGEX (.varRef "host".toList .Unknown) (.regex "^a/b\\.c$".toList)))
    (.binary .NEQ (.paren (.binary .ADD (.unsigned 18446744073709551615) (.integer (-7)))) (.boolean true))) := by
  decide

-- nested calls, a regex argument, an empty argument list, an expression argument
example : PrintableX (.binary .GT
    (.call "percentile".toList [.call "mean".toList [.varRef "value".toList .Unknown], .integer 95])
    (.binary .ADD (.call "count".toList [.regex "^cpu.*".toList]) (.call "now".toList []))) := by decide

example : Expr.print (.binary .GT
    (.call "percentile".toList [.call "mean".toList [.varRef "value".toList .Unknown], .integer 95])
    (.binary .ADD (.call "count".toList [.regex "^cpu.*".toList]) (.call "now".toList []))) =
    "percentile(mean(value), 95) > count(/^cpu.*/) + now()".toList := by decide

example : ∀ p ∈ [('Ä', 'ä')], 128 ≤ p.1.toNat := by decide

-- typed references
example : PrintableX (.binary .LT (.call "max".toList [.varRef "v".toList .Float, .varRef "t 1".toList .Tag])
    (.varRef "n".toList .AnyField)) := by decide
example : Expr.print (.binary .LT (.call "max".toList [.varRef "v".toList .Float, .varRef "t 1".toList .Tag])
    (.varRef "n".toList .AnyField)) = "max(v::float, \"t 1\"::tag) < n::field".toList := by decide

-- the excluded region: the tree of the known finding is not printable
example : ¬ Printable (.binary .DIV (.varRef ['b'] .Unknown) (.binary .MUL (.integer (-1)) (.varRef ['a'] .Unknown))) := by
  decide

end InfluxQL.C03

import InfluxQL.Lemmas.Fields
import InfluxQL.Model.FieldsOfStmt
/-!
# C12 — wildcard expansion yields exactly the schema's columns, deterministically

Model: `InfluxQL.rewriteFields` (Model/Fields.lean), the code-shaped mirror of
`SelectStatement.RewriteFields` with its helpers (`FieldDimensions`, `EvalType`, `Field.Name`,
`FieldExprByName`, `sort.Sort(VarRefs)`), over the regenerated `Gen.Types` (`DataType` constants,
`LessThan`, `VarRefs.Less`, the per-function type filter).  The schema is data: a `FieldMapper`
returns the field columns and tag keys of a measurement as lists in arbitrary order.
`rewriteSpec` is the declarative specification (same recursion, `specBody` instead of the mirror).
-/
namespace InfluxQL.C12
open InfluxQL Gen

/-! ## Obligations on the regenerated tables -/

/-- The `DataType` constants of ast.go are the constructors of the model's `DataType`, with the
values `DataType.toNat` gives them. -/
theorem gen_dataType_consts :
    dataTypeConsts =
      [("Unknown".toList, DataType.Unknown.toNat), ("Float".toList, DataType.Float.toNat),
       ("Integer".toList, DataType.Integer.toNat), ("String".toList, DataType.String.toNat),
       ("Boolean".toList, DataType.Boolean.toNat), ("Time".toList, DataType.Time.toNat),
       ("Duration".toList, DataType.Duration.toNat), ("Tag".toList, DataType.Tag.toNat),
       ("AnyField".toList, DataType.AnyField.toNat), ("Unsigned".toList, DataType.Unsigned.toNat)] := by
  decide

/-- `DataType.String()` as extracted is the hand-written `DataType.str` of the model. -/
theorem gen_dataType_string (d : DataType) : dataTypeString d.toNat = d.str := by
  cases d <;> decide

/-- Every type a call may expand to is one of the five field types, and float and integer are
always among them ("All types that can expand wildcards support float, integer"). -/
theorem gen_call_types :
    (callBaseTypes :: callTypeCases.map (fun c => c.2)).all
      (fun ts => ts.all (fun t => [1, 2, 3, 4, 9].contains t) && ts.contains 1 && ts.contains 2) = true := by
  decide

/-- No function name is listed in two cases of `switch call.Name`. -/
theorem gen_call_cases_disjoint :
    (callTypeCases.flatMap (fun c => c.1)).Nodup := by
  decide

/-! ## Type precedence (`DataType.LessThan`, generated) -/

/-- The precedence order, highest first. -/
def precedenceOrder : List DataType :=
  [.Float, .Integer, .Unsigned, .String, .Boolean, .Time, .Duration, .Tag, .AnyField, .Unknown]

/-- **Type precedence.** `LessThan` is exactly the strict order
Float > Integer > Unsigned > String > Boolean > Time > Duration > Tag > AnyField > Unknown
(`a.LessThan(b)` iff `b` comes strictly earlier), with the one exception the code documents:
`Unknown` is below everything *including itself*. -/
theorem type_precedence (a b : DataType) :
    a.lessThan b = (decide (precedenceOrder.idxOf b < precedenceOrder.idxOf a) || a == .Unknown) := by
  cases a <;> cases b <;> decide

theorem type_precedence_irrefl (a : DataType) (h : a ≠ .Unknown) : a.lessThan a = false := by
  cases a <;> first | rfl | exact absurd rfl h

theorem type_precedence_asymm (a b : DataType) (h1 : a.lessThan b = true) (h2 : b.lessThan a = true) :
    a = .Unknown ∧ b = .Unknown := by
  cases a <;> cases b <;> first | exact ⟨rfl, rfl⟩ | (revert h1 h2; decide)

theorem type_precedence_trans (a b c : DataType) (h1 : a.lessThan b = true) (h2 : b.lessThan c = true) :
    a.lessThan c = true := by
  cases a <;> cases b <;> cases c <;> first | rfl | (revert h1 h2; decide)

theorem type_precedence_total (a b : DataType) (h : a ≠ b) : a.lessThan b = true ∨ b.lessThan a = true := by
  cases a <;> cases b <;> first | exact absurd rfl h | decide

/-- All five field types outrank `Tag`: a name that is a field in one measurement and a tag in
another is typed as the field. -/
theorem type_precedence_fields_over_tag :
    ∀ t ∈ [DataType.Float, .Integer, .Unsigned, .String, .Boolean], DataType.Tag.lessThan t = true := by
  decide

/-- "Same or lower precedence". -/
def precLe (a b : DataType) : Prop := a = b ∨ a.lessThan b = true

theorem raiseTo_ge_left (a b : DataType) : precLe a (raiseTo a b) := by
  cases a <;> cases b <;> first | exact Or.inl rfl | exact Or.inr rfl

theorem raiseTo_ge_right (a b : DataType) : precLe b (raiseTo a b) := by
  cases a <;> cases b <;> first | exact Or.inl rfl | exact Or.inr rfl

theorem precLe_trans {a b c : DataType} (h1 : precLe a b) (h2 : precLe b c) : precLe a c := by
  rcases h1 with rfl | h1
  · exact h2
  · rcases h2 with rfl | h2
    · exact Or.inr h1
    · exact Or.inr (type_precedence_trans a b c h1 h2)

theorem foldl_raiseTo_ge_init (l : List DataType) : ∀ init, precLe init (l.foldl raiseTo init) := by
  induction l with
  | nil => intro init; exact Or.inl rfl
  | cons t l ih => intro init; exact precLe_trans (raiseTo_ge_left init t) (ih _)

theorem foldl_raiseTo_ge_mem (l : List DataType) : ∀ init, ∀ t ∈ l, precLe t (l.foldl raiseTo init) := by
  induction l with
  | nil => intro _ t ht; cases ht
  | cons t0 l ih =>
    intro init t ht
    rcases List.mem_cons.mp ht with rfl | ht
    · exact precLe_trans (raiseTo_ge_right init t) (foldl_raiseTo_ge_init l _)
    · exact ih _ t ht

theorem foldl_raiseTo_mem (l : List DataType) : ∀ init, l.foldl raiseTo init = init ∨ l.foldl raiseTo init ∈ l := by
  induction l with
  | nil => intro init; exact Or.inl rfl
  | cons t l ih =>
    intro init
    rcases ih (raiseTo init t) with h | h
    · have : raiseTo init t = init ∨ raiseTo init t = t := by
        unfold raiseTo; split
        · exact Or.inr rfl
        · exact Or.inl rfl
      rcases this with h' | h'
      · left; simp only [List.foldl_cons]; rw [h, h']
      · right; simp only [List.foldl_cons]; rw [h, h']; exact List.mem_cons_self
    · right; exact List.mem_cons_of_mem _ h

/-- **Types by precedence.** The type a column name gets is the type of one of the schema columns
of that name, and no column of that name has a higher precedence. -/
theorem colType_is_max (cols : List (Str × DataType)) (n : Str) (hn : n ∈ cols.map (fun c => c.1)) :
    (n, colType cols n) ∈ cols ∧ ∀ t, (n, t) ∈ cols → precLe t (colType cols n) := by
  have hmem : ∀ t, (n, t) ∈ cols ↔ t ∈ (cols.filter (fun c => c.1 = n)).map (fun c => c.2) := by
    intro t
    simp only [List.mem_map, List.mem_filter, decide_eq_true_eq]
    constructor
    · intro h; exact ⟨(n, t), ⟨h, rfl⟩, rfl⟩
    · rintro ⟨⟨k, t'⟩, ⟨h, hk⟩, ht⟩
      simp only at hk ht
      subst hk; subst ht; exact h
  constructor
  · rw [hmem]
    unfold colType
    rcases foldl_raiseTo_mem ((cols.filter (fun c => c.1 = n)).map (fun c => c.2)) .Unknown with h | h
    · -- the fold stayed at Unknown: then some column of that name is Unknown
      rw [h]
      rw [List.mem_map] at hn
      obtain ⟨⟨k, t⟩, hkt, hk⟩ := hn
      simp only at hk
      subst hk
      have ht := (hmem t).mp hkt
      have hge := foldl_raiseTo_ge_mem _ .Unknown t ht
      rw [h] at hge
      rcases hge with rfl | hlt
      · exact ht
      · cases t <;> first | exact ht | exact absurd hlt (by decide)
    · exact h
  · intro t ht
    exact foldl_raiseTo_ge_mem _ .Unknown t ((hmem t).mp ht)

/-! ## The mirror is the specification; the order of the schema lists is irrelevant -/

/-- **Mirror = specification.** The code-shaped model of `RewriteFields` (Go maps as association
lists in insertion order, the code's control flow) computes exactly what the declarative
specification says (`rewriteSpec`: concatenate the columns of the sources, one field column per
distinct name with the highest-precedence type, tag keys once minus those named in GROUP BY,
sorted by `VarRefs.Less`), for every statement, schema and regex oracle, errors included.
Both run the same recursion (subqueries first); their bodies are equal as functions. -/
theorem rewriteFields_eq_spec (m : FieldMapper) (re : Str → Str → Bool) (s : SelectStmt) :
    rewriteFields m re s = rewriteSpec m re s := by
  unfold rewriteFields rewriteSpec
  rw [rewriteBody_eq_specBody]

/-- **Never on map iteration order.** Two schemas that differ only in the order in which the
field columns and the tag keys of each measurement are listed (what a `range` over the two Go
maps returned by `FieldDimensions` may produce) give the same rewritten statement, or the same
error; at every nesting depth. -/
theorem rewriteFields_perm_invariant (m m' : FieldMapper) (h : MapperPerm m m') (re : Str → Str → Bool)
    (s : SelectStmt) : rewriteFields m re s = rewriteFields m' re s := by
  rw [rewriteFields_eq_spec, rewriteFields_eq_spec]
  unfold rewriteSpec
  rw [specBody_perm h]

/-- The maps built *inside* `RewriteFields` are ranged over as well (`for name, typ := range
fieldSet`, `for name := range dimensionSet`): whatever order those loops take, the sorted slice is
the same. -/
theorem internal_iteration_order_irrelevant (fieldSet fieldSet' : TypeMap) (dimSet dimSet' : StrSet)
    (hf : fieldSet.Perm fieldSet') (hd : dimSet.Perm dimSet') (hasDW : Bool) :
    wildcardRefs fieldSet dimSet hasDW = wildcardRefs fieldSet' dimSet' hasDW ∧
    wildcardDims fieldSet dimSet hasDW = wildcardDims fieldSet' dimSet' hasDW := by
  unfold wildcardRefs wildcardDims
  rw [hf.length_eq]
  constructor
  · split
    · apply sortRefs_eq_of_perm
      apply (hf.map _).append
      cases hasDW
      · exact hd.map _
      · exact List.Perm.refl _
    · rfl
  · split
    · rfl
    · exact sortStrs_eq_of_perm hd

/-! ## What the expansion contains -/

/-- **Sorted by name.** The expansion of `*` is sorted by `VarRefs.Less`: by name (Go string
order), a field and a tag of the same name by type constant. -/
theorem expansion_sorted (cols : List (Str × DataType)) (tags : List Str) (dims : List Expr) (hasDW : Bool) :
    (expandSpec cols tags dims hasDW).Pairwise (fun a b => b.less a = false) := by
  unfold expandSpec
  split
  · exact List.Pairwise.nil
  · have := sortRefs_sorted (specFieldCols cols ++ if hasDW = true then [] else specTagCols tags dims)
    refine this.imp ?_
    intro a b h
    unfold refLe at h
    simpa using h

/-- **Exactly the schema's columns.** What is in the expansion of `*`: a field column `(n, t)` iff
some source has a column called `n` and `t` is the highest-precedence type among them; a tag
column iff it is a tag key of some source, GROUP BY has no wildcard, and the statement does not
group by it.  Nothing else.  (And nothing at all if the sources have no field column.) -/
theorem expansion_mem (cols : List (Str × DataType)) (tags : List Str) (dims : List Expr) (hasDW : Bool)
    (r : ColRef) :
    r ∈ expandSpec cols tags dims hasDW ↔
      cols ≠ [] ∧
      ((r.name ∈ cols.map (fun c => c.1) ∧ r.type = colType cols r.name) ∨
       (hasDW = false ∧ r.type = .Tag ∧ r.name ∈ tags ∧ r.name ∉ dimRefs dims)) := by
  have hnil : specFieldCols cols = [] ↔ cols = [] := by
    unfold specFieldCols
    rw [List.map_eq_nil_iff]
    constructor
    · intro h
      cases cols with
      | nil => rfl
      | cons c rest =>
        have : c.1 ∈ dedup ((c :: rest).map (fun c => c.1)) := mem_dedup.mpr List.mem_cons_self
        rw [h] at this; cases this
    · rintro rfl; rfl
  have hF : r ∈ specFieldCols cols ↔ r.name ∈ cols.map (fun c => c.1) ∧ r.type = colType cols r.name := by
    unfold specFieldCols
    rw [List.mem_map]
    constructor
    · rintro ⟨n, hn, rfl⟩
      exact ⟨mem_dedup.mp hn, rfl⟩
    · rintro ⟨hn, ht⟩
      refine ⟨r.name, mem_dedup.mpr hn, ?_⟩
      cases r; simp only at ht; rw [ht]
  have hT : r ∈ specTagCols tags dims ↔ r.type = .Tag ∧ r.name ∈ tags ∧ r.name ∉ dimRefs dims := by
    unfold specTagCols
    rw [List.mem_map]
    constructor
    · rintro ⟨t, ht, rfl⟩
      rw [List.mem_filter, mem_dedup] at ht
      exact ⟨rfl, ht.1, by simpa using ht.2⟩
    · rintro ⟨h1, h2, h3⟩
      refine ⟨r.name, ?_, ?_⟩
      · rw [List.mem_filter, mem_dedup]; exact ⟨h2, by simpa using h3⟩
      · cases r; simp only at h1; rw [h1]
  unfold expandSpec
  split
  · rename_i hz
    have := hnil.mp hz
    simp [this]
  · rename_i hz
    have hne : cols ≠ [] := fun e => hz (hnil.mpr e)
    rw [(sortRefs_perm _).mem_iff, List.mem_append, hF]
    cases hasDW
    · simp only [Bool.false_eq_true, ↓reduceIte, hT, true_and]
      exact ⟨fun h => ⟨hne, h⟩, fun h => h.2⟩
    · simp only [↓reduceIte, List.not_mem_nil, or_false, Bool.true_eq_false, false_and]
      exact ⟨fun h => ⟨hne, h⟩, fun h => h.2⟩

/-- Each field column is listed once. -/
theorem expansion_field_columns_once (cols : List (Str × DataType)) :
    ((specFieldCols cols).map (fun r => r.name)).Nodup := by
  unfold specFieldCols
  rw [List.map_map]
  have : ((fun r : ColRef => r.name) ∘ fun n => (⟨n, colType cols n⟩ : ColRef)) = id := rfl
  rw [this, List.map_id]
  exact nodup_dedup _

/-- **Grouped tags are removed.** A tag the statement names in GROUP BY is not among the expanded
fields as a tag key; if it shows up with type `tag` it is because a source exposes a *column* of
that name and type (a subquery that selects the tag). -/
theorem grouped_tags_removed (cols : List (Str × DataType)) (tags : List Str) (dims : List Expr) (hasDW : Bool)
    (r : ColRef) (hr : r ∈ expandSpec cols tags dims hasDW) (ht : r.type = .Tag) (hg : r.name ∈ dimRefs dims) :
    (r.name, DataType.Tag) ∈ cols := by
  rw [expansion_mem] at hr
  rcases hr.2 with ⟨hn, hty⟩ | ⟨_, _, _, hng⟩
  · have := (colType_is_max cols r.name hn).1
    rw [← hty, ht] at this
    exact this
  · exact absurd hg hng

/-- With a wildcard or regex in GROUP BY no tag key is expanded among the fields at all. -/
theorem dim_wildcard_no_tag_fields (cols : List (Str × DataType)) (tags : List Str) (dims : List Expr)
    (r : ColRef) (hr : r ∈ expandSpec cols tags dims true) :
    r.name ∈ cols.map (fun c => c.1) ∧ r.type = colType cols r.name := by
  rw [expansion_mem] at hr
  rcases hr.2 with h | ⟨h, _⟩
  · exact h
  · cases h

/-- **GROUP BY `*`** stands for every tag key of the sources, once, sorted. -/
theorem dim_expansion (tags : List Str) :
    (dimSpec tags).Pairwise (fun a b => strLt b a = false) ∧ (dimSpec tags).Nodup ∧
    ∀ t, t ∈ dimSpec tags ↔ t ∈ tags := by
  unfold dimSpec
  refine ⟨?_, ?_, ?_⟩
  · refine (sortStrs_sorted _).imp ?_
    intro a b h
    unfold strLe at h
    simpa using h
  · exact ((sortStrs_perm _).nodup_iff).mpr (nodup_dedup _)
  · intro t
    rw [(sortStrs_perm _).mem_iff, mem_dedup]

/-! ## Function calls -/

/-- What happens to a field that is a call, by the first argument `arg` of the innermost call
`iname` along the first arguments: `*` / `*::field` / a regex expand, `*::tag` is an error,
anything else (or no argument) leaves the field alone. -/
theorem expandField_call (re : Str → Str → Bool) (refs : List ColRef) (f : Field) (cname : Str)
    (cargs : List Expr) (hf : f.expr = .call cname cargs) :
    expandField re refs f =
      match innerCall (.call cname cargs) with
      | some (iname, some (.wildcard wt)) =>
        if wt = .TAG then .error (errTagWildcard ++ iname ++ ['(', ')'])
        else .ok (callFields refs f.rfName (.call cname cargs) iname (fun _ => true))
      | some (iname, some (.regex src)) =>
        .ok (callFields refs f.rfName (.call cname cargs) iname (fun r => re src r.name))
      | _ => .ok [f] := by
  unfold expandField
  rw [hf]
  simp only
  cases innerCall (.call cname cargs) with
  | none => rfl
  | some p =>
    obtain ⟨iname, arg⟩ := p
    cases arg with
    | none => rfl
    | some a => cases a <;> rfl

/-- **Tags are left out of function calls.** Every field a call with a wildcard or regex first
argument expands to comes from a column of the expansion that is not a tag, has a type the
function supports, and matches the regex; the column, with its schema type, is substituted for
the wildcard and the field is aliased `<name>_<column>`. -/
theorem tags_not_in_calls (refs : List ColRef) (fname : Str) (e : Expr) (iname : Str) (keep : ColRef → Bool)
    (g : Field) (hg : g ∈ callFields refs fname e iname keep) :
    ∃ r ∈ refs, r.type ≠ .Tag ∧ r.type.toNat ∈ callSupportedTypes iname ∧ keep r = true ∧
      g = { expr := substInner (.varRef r.name r.type) e, alias := fname ++ ['_'] ++ r.name } := by
  unfold callFields at hg
  rw [List.mem_map] at hg
  obtain ⟨r, hr, rfl⟩ := hg
  rw [List.mem_filter] at hr
  simp only [ne_eq, Bool.and_eq_true, decide_eq_true_eq, List.contains_eq_mem] at hr
  exact ⟨r, hr.1, by simpa using hr.2.1.1, hr.2.1.2, hr.2.2, rfl⟩

/-- ... and conversely every such column yields a field, in the order of the expansion. -/
theorem call_expansion_complete (refs : List ColRef) (fname : Str) (e : Expr) (iname : Str) (keep : ColRef → Bool) :
    (callFields refs fname e iname keep).map (fun g => g.alias) =
      (refs.filter (fun r => r.type ≠ .Tag && (callSupportedTypes iname).contains r.type.toNat && keep r)).map
        (fun r => fname ++ ['_'] ++ r.name) := by
  unfold callFields
  rw [List.map_map]
  rfl

/-- The types a call expands over are field types (never `Tag`, `Unknown`, `AnyField`, `Time`,
`Duration`), whatever the function. -/
theorem call_expansion_types (iname : Str) (t : Nat) (h : t ∈ callSupportedTypes iname) :
    t ∈ [DataType.Float.toNat, DataType.Integer.toNat, DataType.String.toNat, DataType.Boolean.toNat,
         DataType.Unsigned.toNat] := by
  have hb : ∀ t ∈ callBaseTypes, t ∈ [1, 2, 3, 4, 9] := by decide
  have hc : ∀ c ∈ callTypeCases, ∀ t ∈ c.2, t ∈ [1, 2, 3, 4, 9] := by decide
  unfold callSupportedTypes at h
  split at h
  · rename_i c hfind
    exact hc c (List.mem_of_find?_eq_some hfind) t h
  · exact hb t h

theorem innerArgs_isSome (name : Str) (args : List Expr) : ∃ p, innerArgs name args = some p := by
  cases args with
  | nil => exact ⟨_, by rw [innerArgs]⟩
  | cons x rest =>
    rw [innerArgs]
    cases innerCall x <;> exact ⟨_, rfl⟩

mutual
  /-- The substitution lands exactly on the first argument of the innermost call. -/
  theorem innerCall_substInner (r : Expr) (hr : innerCall r = none) :
      ∀ (e : Expr) (iname : Str) (a : Expr), innerCall e = some (iname, some a) →
        innerCall (substInner r e) = some (iname, some r)
    | .call name args, iname, a, h => by
      rw [substInner, innerCall]
      rw [innerCall] at h
      exact innerArgs_substInner r hr args name iname a h
    | .binary .., _, _, h | .paren .., _, _, h | .varRef .., _, _, h | .distinct .., _, _, h
    | .wildcard .., _, _, h | .regex .., _, _, h | .string .., _, _, h | .number .., _, _, h
    | .integer .., _, _, h | .unsigned .., _, _, h | .boolean .., _, _, h | .duration .., _, _, h
    | .time .., _, _, h | .nil, _, _, h | .list .., _, _, h | .boundParam .., _, _, h => by
      simp [innerCall] at h
  theorem innerArgs_substInner (r : Expr) (hr : innerCall r = none) :
      ∀ (args : List Expr) (name iname : Str) (a : Expr), innerArgs name args = some (iname, some a) →
        innerArgs name (substInnerArgs r args) = some (iname, some r)
    | [], name, iname, a, h => by simp [innerArgs] at h
    | x :: rest, name, iname, a, h => by
      have ih := innerCall_substInner r hr x
      rw [innerArgs] at h
      cases hx : innerCall x with
      | some p =>
        rw [hx] at h
        simp only [Option.some.injEq] at h
        subst h
        have hcall : ∃ n as, x = .call n as := by
          cases x <;> first | exact ⟨_, _, rfl⟩ | simp [innerCall] at hx
        obtain ⟨n, as, rfl⟩ := hcall
        rw [substInnerArgs, innerArgs, ih iname a hx]
      | none =>
        rw [hx] at h
        simp only [Option.some.injEq, Prod.mk.injEq] at h
        obtain ⟨rfl, rfl⟩ := h
        have hsub : substInnerArgs r (x :: rest) = r :: rest := by
          cases x <;> first | rfl | skip
          rename_i n as
          rw [innerCall] at hx
          obtain ⟨p, hp⟩ := innerArgs_isSome n as
          rw [hp] at hx
          cases hx
        rw [hsub, innerArgs, hr]
end

/-! ## All other fields stay in place -/

/-- Does the field stand for a set of columns: a whole-field `*` / regex, or a call whose
innermost first argument is one? -/
def expands (f : Field) : Bool :=
  match f.expr with
  | .wildcard _ => true
  | .regex _ => true
  | .call n a =>
    match innerCall (.call n a) with
    | some (_, some (.wildcard _)) => true
    | some (_, some (.regex _)) => true
    | _ => false
  | _ => false

/-- A field that does not stand for a set of columns is kept as it is (or, for a binary
expression that contains a wildcard or regex somewhere, the whole rewrite fails). -/
theorem other_field_kept (re : Str → Str → Bool) (refs : List ColRef) (f : Field) (out : List Field)
    (h : expandField re refs f = .ok out) (hne : expands f = false) : out = [f] := by
  unfold expands at hne
  unfold expandField at h
  split at h
  · simp_all
  · simp_all
  · rename_i cname cargs heq
    rw [heq] at hne
    simp only at hne h
    cases hic : innerCall (.call cname cargs) with
    | none => rw [hic] at h; simp only [Except.ok.injEq] at h; exact h.symm
    | some p =>
      obtain ⟨iname, arg⟩ := p
      rw [hic] at h hne
      cases arg with
      | none => simp only [Except.ok.injEq] at h; exact h.symm
      | some a =>
        cases a <;> simp only [Except.ok.injEq] at h hne <;> first | exact h.symm | cases hne
  · split at h
    · cases h
    · split at h
      · cases h
      · simp only [Except.ok.injEq] at h; exact h.symm
  · simp only [Except.ok.injEq] at h; exact h.symm

/-- `expandFields` is the concatenation, in field order, of what each field expands to. -/
theorem expandFields_split (re : Str → Str → Bool) (refs : List ColRef) :
    ∀ (pre : List Field) (f : Field) (post : List Field) (out : List Field),
      expandFields re refs (pre ++ f :: post) = .ok out →
      ∃ o1 o2 o3, expandFields re refs pre = .ok o1 ∧ expandField re refs f = .ok o2 ∧
        expandFields re refs post = .ok o3 ∧ out = o1 ++ o2 ++ o3
  | [], f, post, out, h => by
    simp only [List.nil_append] at h
    unfold expandFields at h
    cases hf : expandField re refs f with
    | error e => rw [hf] at h; cases h
    | ok o2 =>
      rw [hf] at h
      simp only at h
      cases hp : expandFields re refs post with
      | error e => rw [hp] at h; cases h
      | ok o3 =>
        rw [hp] at h
        simp only [Except.ok.injEq] at h
        exact ⟨[], o2, o3, rfl, rfl, rfl, by rw [← h]; rfl⟩
  | g :: pre, f, post, out, h => by
    rw [List.cons_append] at h
    unfold expandFields at h
    cases hg : expandField re refs g with
    | error e => rw [hg] at h; cases h
    | ok og =>
      rw [hg] at h
      simp only at h
      cases hr : expandFields re refs (pre ++ f :: post) with
      | error e => rw [hr] at h; cases h
      | ok orest =>
        rw [hr] at h
        simp only [Except.ok.injEq] at h
        obtain ⟨o1, o2, o3, h1, h2, h3, h4⟩ := expandFields_split re refs pre f post orest hr
        refine ⟨og ++ o1, o2, o3, ?_, h2, h3, ?_⟩
        · unfold expandFields; rw [hg, h1]
        · rw [← h, h4]; simp only [List.append_assoc]

/-- **All other fields stay in place.** A field that is not a wildcard, regex or call over one
appears unchanged in the result, after everything the fields before it expand to and before
everything the fields after it expand to. -/
theorem others_in_place (re : Str → Str → Bool) (refs : List ColRef) (pre : List Field) (f : Field)
    (post out : List Field) (h : expandFields re refs (pre ++ f :: post) = .ok out) (hne : expands f = false) :
    ∃ o1 o3, expandFields re refs pre = .ok o1 ∧ expandFields re refs post = .ok o3 ∧
      out = o1 ++ f :: o3 := by
  obtain ⟨o1, o2, o3, h1, h2, h3, h4⟩ := expandFields_split re refs pre f post out h
  have := other_field_kept re refs f o2 h2 hne
  subst this
  exact ⟨o1, o3, h1, h3, by rw [h4]; simp⟩

/-- The same for GROUP BY: a dimension that is not a wildcard or regex stays where it is. -/
theorem other_dims_in_place (re : Str → Str → Bool) (names : List Str) (pre : List Expr) (d : Expr)
    (post : List Expr) (hd : d.isWildOrRegex = false) :
    expandDims re names (pre ++ d :: post) = expandDims re names pre ++ d :: expandDims re names post := by
  induction pre with
  | nil =>
    simp only [List.nil_append, expandDims]
    have : expandDim re names d = [d] := by
      cases d <;> first | rfl | cases hd
    rw [this]; rfl
  | cons g pre ih =>
    rw [List.cons_append]
    simp only [expandDims]
    rw [ih, List.append_assoc]

/-- Nothing but fields, dimensions, the condition and the subqueries is touched. -/
theorem rest_of_statement_kept (body : RewriteBody) (s s' : SelectStmt) (h : rewriteWith body s = .ok s') :
    s'.target = s.target ∧ s'.sortFields = s.sortFields ∧ s'.limit = s.limit ∧ s'.offset = s.offset ∧
    s'.slimit = s.slimit ∧ s'.soffset = s.soffset ∧ s'.isRawQuery = s.isRawQuery ∧ s'.fill = s.fill ∧
    s'.fillValue = s.fillValue ∧ s'.location = s.location ∧ s'.timeAlias = s.timeAlias ∧
    s'.omitTime = s.omitTime ∧ s'.stripName = s.stripName ∧ s'.emitName = s.emitName ∧
    s'.dedupe = s.dedupe := by
  cases s with
  | mk fields target dims sources cond sortFields limit offset slimit soffset isRaw fill fillValue
      location timeAlias omitTime stripName emitName dedupe =>
    rw [rewriteWith] at h
    split at h
    · cases h
    · split at h
      · cases h
      · simp only [Except.ok.injEq] at h
        subst h
        exact ⟨rfl, rfl, rfl, rfl, rfl, rfl, rfl, rfl, rfl, rfl, rfl, rfl, rfl, rfl, rfl⟩

/-! ## Untyped references receive their schema type -/

/-- **Untyped references receive their schema type**: an untyped reference gets the type
`EvalType` finds in the sources (`Unknown` if none, or on a type error). -/
theorem untyped_get_schema_type (ρ : Str → Option DataType) (v : Str) :
    typeRef ρ v .Unknown = .varRef v ((ρ v).getD .Unknown) := by
  unfold typeRef
  simp

/-- A `::field` reference gets the schema type too, unless the schema says it is a tag: then it
is left as written. -/
theorem anyfield_gets_schema_type (ρ : Str → Option DataType) (v : Str) :
    typeRef ρ v .AnyField =
      if (ρ v).getD .Unknown = .Tag then .varRef v .AnyField else .varRef v ((ρ v).getD .Unknown) := by
  unfold typeRef
  simp

/-- A reference that was written with a type keeps it. -/
theorem typed_refs_kept (ρ : Str → Option DataType) (v : Str) (t : DataType) (h1 : t ≠ .Unknown)
    (h2 : t ≠ .AnyField) : typeRef ρ v t = .varRef v t := by
  unfold typeRef
  simp [h1, h2]

/-- Against measurements the schema type of a name is the highest-precedence `MapType` answer
over the sources (so a field in one measurement wins over a tag of the same name in another). -/
theorem schema_type_over_measurements (tm : TypeMapper) (name : Str) :
    ∀ (ms : List Measurement) (typ : DataType),
      resolveSources tm (ms.map Source.measurement) name typ =
        some ((ms.map (fun m => tm.mapType m name)).foldl raiseTo typ)
  | [], _ => by simp [resolveSources]
  | m :: ms, typ => by
    simp only [List.map_cons, resolveSources, resolveSource, List.foldl_cons]
    exact schema_type_over_measurements tm name ms _

/-- Typing references changes nothing but the types: the names stay. -/
theorem typeRef_name (ρ : Str → Option DataType) (v : Str) (t : DataType) :
    ∃ t', typeRef ρ v t = .varRef v t' := by
  unfold typeRef
  split
  · exact ⟨_, rfl⟩
  · simp only
    split <;> exact ⟨_, rfl⟩

/-! ## Subqueries: by induction on the nesting depth -/

mutual
  /-- No field that is just `*` or a regex and no such GROUP BY dimension, at any depth. -/
  def noWholeWild : SelectStmt → Bool
    | .mk fields _ dims sources _ _ _ _ _ _ _ _ _ _ _ _ _ _ _ =>
      fields.all (fun f => !f.expr.isWildOrRegex) && dims.all (fun d => !d.isWildOrRegex) &&
        sourcesNoWholeWild sources
  def sourcesNoWholeWild : List Source → Bool
    | [] => true
    | s :: rest => sourceNoWholeWild s && sourcesNoWholeWild rest
  def sourceNoWholeWild : Source → Bool
    | .measurement _ => true
    | .subquery st => noWholeWild st
end

theorem isWildOrRegex_hasWild (e : Expr) (h : e.hasWild = false) : e.isWildOrRegex = false := by
  cases e <;> first | rfl | (simp [Expr.hasWild] at h)

theorem expandField_no_whole_wild (re : Str → Str → Bool) (refs : List ColRef) (f : Field) (out : List Field)
    (h : expandField re refs f = .ok out) : ∀ g ∈ out, g.expr.isWildOrRegex = false := by
  intro g hg
  cases hfe : f.expr with
  | wildcard wt =>
    unfold expandField at h
    rw [hfe] at h
    simp only [Except.ok.injEq] at h
    subst h
    rw [List.mem_map] at hg
    obtain ⟨r, _, rfl⟩ := hg
    rfl
  | regex src =>
    unfold expandField at h
    rw [hfe] at h
    simp only [Except.ok.injEq] at h
    subst h
    rw [List.mem_map] at hg
    obtain ⟨r, _, rfl⟩ := hg
    rfl
  | call cname cargs =>
    rw [expandField_call re refs f cname cargs hfe] at h
    have hkeep : out = [f] → g.expr.isWildOrRegex = false := by
      intro e; subst e
      simp only [List.mem_singleton] at hg
      subst hg
      rw [hfe]; rfl
    have hcf : ∀ iname keep, out = callFields refs f.rfName (.call cname cargs) iname keep →
        g.expr.isWildOrRegex = false := by
      intro iname keep e
      subst e
      obtain ⟨r, _, _, _, _, rfl⟩ := tags_not_in_calls _ _ _ _ _ g hg
      simp only [substInner]
      rfl
    split at h
    · split at h
      · cases h
      · simp only [Except.ok.injEq] at h; exact hcf _ _ h.symm
    · simp only [Except.ok.injEq] at h; exact hcf _ _ h.symm
    · simp only [Except.ok.injEq] at h; exact hkeep h.symm
  | binary op l r =>
    unfold expandField at h
    rw [hfe] at h
    simp only at h
    split at h
    · cases h
    · split at h
      · cases h
      · simp only [Except.ok.injEq] at h
        subst h
        simp only [List.mem_singleton] at hg
        subst hg
        rw [hfe]; rfl
  | paren _ | varRef _ _ | distinct _ | string _ | number _ | integer _ | unsigned _ | boolean _
  | duration _ | time _ | nil | list _ | boundParam _ =>
    unfold expandField at h
    rw [hfe] at h
    simp only [Except.ok.injEq] at h
    subst h
    simp only [List.mem_singleton] at hg
    subst hg
    rw [hfe]; rfl

theorem expandFields_no_whole_wild (re : Str → Str → Bool) (refs : List ColRef) :
    ∀ (fields out : List Field), expandFields re refs fields = .ok out →
      ∀ g ∈ out, g.expr.isWildOrRegex = false
  | [], out, h => by
    simp only [expandFields, Except.ok.injEq] at h
    subst h
    intro g hg; cases hg
  | f :: rest, out, h => by
    unfold expandFields at h
    cases hf : expandField re refs f with
    | error e => rw [hf] at h; cases h
    | ok o1 =>
      rw [hf] at h
      simp only at h
      cases hr : expandFields re refs rest with
      | error e => rw [hr] at h; cases h
      | ok o2 =>
        rw [hr] at h
        simp only [Except.ok.injEq] at h
        subst h
        intro g hg
        rcases List.mem_append.mp hg with hg | hg
        · exact expandField_no_whole_wild re refs f o1 hf g hg
        · exact expandFields_no_whole_wild re refs rest o2 hr g hg

theorem expandDims_no_whole_wild (re : Str → Str → Bool) (names : List Str) :
    ∀ (dims : List Expr), ∀ d ∈ expandDims re names dims, d.isWildOrRegex = false
  | [], d, hd => by cases hd
  | x :: rest, d, hd => by
    simp only [expandDims, List.mem_append] at hd
    rcases hd with hd | hd
    · cases x <;> simp only [expandDim, List.mem_map, List.mem_singleton] at hd <;>
        first
        | (obtain ⟨n, _, rfl⟩ := hd; rfl)
        | (subst hd; rfl)
    · exact expandDims_no_whole_wild re names rest d hd

/-- After `rewriteBody` no field is a bare wildcard or regex, and no dimension is. -/
theorem rewriteBody_no_whole_wild (m : FieldMapper) (re : Str → Str → Bool) (fields : List Field)
    (dims : List Expr) (sources : List Source) (cond : Option Expr) (f' : List Field) (d' : List Expr)
    (c' : Option Expr) (h : rewriteBody m re fields dims sources cond = .ok (f', d', c')) :
    (∀ g ∈ f', g.expr.isWildOrRegex = false) ∧ (∀ d ∈ d', d.isWildOrRegex = false) := by
  have hnoF : ∀ fs : List Field, hasFieldWildcard fs = false → ∀ g ∈ fs, g.expr.isWildOrRegex = false := by
    intro fs hfs g hg
    unfold hasFieldWildcard at hfs
    rw [List.any_eq_false] at hfs
    exact isWildOrRegex_hasWild _ (by simpa using hfs g hg)
  have hnoD : hasDimensionWildcard dims = false → ∀ d ∈ dims, d.isWildOrRegex = false := by
    intro hds d hd
    unfold hasDimensionWildcard at hds
    rw [List.any_eq_false] at hds
    simpa using hds d hd
  unfold rewriteBody at h
  simp only at h
  split at h
  · rename_i hc
    simp only [Except.ok.injEq, Prod.mk.injEq] at h
    obtain ⟨rfl, rfl, _⟩ := h
    simp only [Bool.and_eq_true, Bool.not_eq_eq_eq_not, Bool.not_true] at hc
    exact ⟨hnoF _ hc.1, hnoD hc.2⟩
  · split at h
    · cases h
    · split at h
      · cases h
      · rename_i fields2 hf2
        simp only [Except.ok.injEq, Prod.mk.injEq] at h
        obtain ⟨rfl, rfl, _⟩ := h
        constructor
        · split at hf2
          · exact expandFields_no_whole_wild re _ _ _ hf2
          · rename_i hfw
            simp only [Except.ok.injEq] at hf2
            subst hf2
            exact hnoF _ (by simpa using hfw)
        · split
          · exact expandDims_no_whole_wild re _ dims
          · rename_i hdw
            exact hnoD (by simpa using hdw)

mutual
  /-- **Subqueries, by induction on the nesting depth.** After `RewriteFields` no statement at any
  depth has a field that is a bare `*` / regex or such a GROUP BY dimension: all of them have been
  replaced (subqueries first, then the statements that select from them). -/
  theorem rewrite_removes_wildcards (m : FieldMapper) (re : Str → Str → Bool) :
      ∀ (s s' : SelectStmt), rewriteFields m re s = .ok s' → noWholeWild s' = true
    | .mk fields target dims sources cond sortFields limit offset slimit soffset isRaw fill fillValue
        location timeAlias omitTime stripName emitName dedupe, s', h => by
      unfold rewriteFields at h
      rw [rewriteWith] at h
      cases hs : rewriteSourcesWith (rewriteBody m re) sources with
      | error e => rw [hs] at h; cases h
      | ok sources' =>
        rw [hs] at h
        simp only at h
        cases hb : rewriteBody m re fields dims sources' cond with
        | error e => rw [hb] at h; cases h
        | ok r =>
          obtain ⟨f', d', c'⟩ := r
          rw [hb] at h
          simp only [Except.ok.injEq] at h
          subst h
          have h1 := rewriteBody_no_whole_wild m re fields dims sources' cond f' d' c' hb
          have h2 := rewriteSources_remove_wildcards m re sources sources' hs
          rw [noWholeWild]
          simp only [Bool.and_eq_true, List.all_eq_true, Bool.not_eq_eq_eq_not, Bool.not_true]
          exact ⟨⟨h1.1, h1.2⟩, h2⟩
  theorem rewriteSources_remove_wildcards (m : FieldMapper) (re : Str → Str → Bool) :
      ∀ (srcs srcs' : List Source), rewriteSourcesWith (rewriteBody m re) srcs = .ok srcs' →
        sourcesNoWholeWild srcs' = true
    | [], srcs', h => by
      simp only [rewriteSourcesWith, Except.ok.injEq] at h
      subst h; rfl
    | src :: rest, srcs', h => by
      rw [rewriteSourcesWith] at h
      cases h1 : rewriteSourceWith (rewriteBody m re) src with
      | error e => rw [h1] at h; cases h
      | ok src' =>
        rw [h1] at h
        simp only at h
        cases h2 : rewriteSourcesWith (rewriteBody m re) rest with
        | error e => rw [h2] at h; cases h
        | ok rest' =>
          rw [h2] at h
          simp only [Except.ok.injEq] at h
          subst h
          rw [sourcesNoWholeWild, rewriteSource_removes_wildcards m re src src' h1,
            rewriteSources_remove_wildcards m re rest rest' h2]
          rfl
  theorem rewriteSource_removes_wildcards (m : FieldMapper) (re : Str → Str → Bool) :
      ∀ (src src' : Source), rewriteSourceWith (rewriteBody m re) src = .ok src' →
        sourceNoWholeWild src' = true
    | .measurement ms, src', h => by
      simp only [rewriteSourceWith, Except.ok.injEq] at h
      subst h; rfl
    | .subquery st, src', h => by
      rw [rewriteSourceWith] at h
      cases h1 : rewriteWith (rewriteBody m re) st with
      | error e => rw [h1] at h; cases h
      | ok st' =>
        rw [h1] at h
        simp only [Except.ok.injEq] at h
        subst h
        rw [sourceNoWholeWild]
        exact rewrite_removes_wildcards m re st st' h1
end

/-- The rewrite of a statement contains the rewrites of its subqueries: the sources of the result
are the sources rewritten one by one, in order, before the statement itself is looked at. -/
theorem subqueries_first (m : FieldMapper) (re : Str → Str → Bool) (s s' : SelectStmt)
    (h : rewriteFields m re s = .ok s') :
    rewriteSourcesWith (rewriteBody m re) s.sources = .ok s'.sources ∧
    rewriteBody m re s.fields s.dimensions s'.sources s.condition =
      .ok (s'.fields, s'.dimensions, s'.condition) := by
  cases s with
  | mk fields target dims sources cond sortFields limit offset slimit soffset isRaw fill fillValue
      location timeAlias omitTime stripName emitName dedupe =>
    unfold rewriteFields at h
    rw [rewriteWith] at h
    cases hs : rewriteSourcesWith (rewriteBody m re) sources with
    | error e => rw [hs] at h; cases h
    | ok sources' =>
      rw [hs] at h
      simp only at h
      cases hb : rewriteBody m re fields dims sources' cond with
      | error e => rw [hb] at h; cases h
      | ok r =>
        obtain ⟨f', d', c'⟩ := r
        rw [hb] at h
        simp only [Except.ok.injEq] at h
        subst h
        exact ⟨hs, hb⟩

/-! ## The property text read literally: where the code deviates

The text says tags are left out of the fields "when the statement already groups by them".
Read literally, a whole-field `*` should list every field column and every tag key the statement
does not group by (`expandLiteral`).  The code agrees except in two regions, both long-standing
upstream behaviour (recorded as known findings `C12-no-fields-drops-tags`,
`C12-regex-groupby-drops-ungrouped-tags`). -/

/-- Does the statement group by tag `t`: named in GROUP BY, or GROUP BY `*`, or a GROUP BY regex
that matches it? -/
def groupedBy (re : Str → Str → Bool) (dims : List Expr) (t : Str) : Bool :=
  dims.any (fun d => match d with
    | .varRef v _ => v = t
    | .wildcard _ => true
    | .regex src => re src t
    | _ => false)

/-- The expansion of `*` by the letter of the property. -/
def expandLiteral (re : Str → Str → Bool) (cols : List (Str × DataType)) (tags : List Str) (dims : List Expr) :
    List ColRef :=
  sortRefs (specFieldCols cols ++
    ((dedup tags).filter (fun t => !groupedBy re dims t)).map (fun t => ⟨t, .Tag⟩))

theorem groupedBy_no_dim_wildcard (re : Str → Str → Bool) (t : Str) :
    ∀ (dims : List Expr), hasDimensionWildcard dims = false →
      groupedBy re dims t = decide (t ∈ dimRefs dims)
  | [], _ => by simp [groupedBy, dimRefs]
  | d :: rest, h => by
    unfold hasDimensionWildcard at h
    rw [List.any_cons, Bool.or_eq_false_iff] at h
    have ih := groupedBy_no_dim_wildcard re t rest h.2
    unfold groupedBy at ih ⊢
    rw [List.any_cons, ih]
    cases d with
    | varRef v ty =>
      simp only [dimRefs, List.mem_cons]
      by_cases hv : v = t
      · subst hv; simp
      · have hv' : ¬ t = v := fun e => hv e.symm
        simp [hv, hv']
    | wildcard _ => simp [Expr.isWildOrRegex] at h
    | regex _ => simp [Expr.isWildOrRegex] at h
    | _ => simp only [dimRefs, Bool.false_or]; exact decide_eq_decide.mpr Iff.rfl

/-- **Exactly the schema's columns (literal reading), `_partial`.**  Outside the two recorded
regions the expansion of `*` is the literal one: provided (1) the sources have at least one field
column, or no tag key is left ungrouped; and (2) GROUP BY has no wildcard or regex, or every tag
key is grouped.  What is missing for full strength: without (1) the code expands `*` to nothing
although ungrouped tag keys exist; without (2) it leaves out tag keys that no GROUP BY regex
matches (`*_counterexample` below). -/
theorem expansion_literal_partial (re : Str → Str → Bool) (cols : List (Str × DataType)) (tags : List Str)
    (dims : List Expr)
    (h1 : specFieldCols cols ≠ [] ∨ ∀ t ∈ tags, groupedBy re dims t = true)
    (h2 : hasDimensionWildcard dims = false ∨ ∀ t ∈ tags, groupedBy re dims t = true) :
    expandSpec cols tags dims (hasDimensionWildcard dims) = expandLiteral re cols tags dims := by
  have hall : (∀ t ∈ tags, groupedBy re dims t = true) →
      ((dedup tags).filter (fun t => !groupedBy re dims t)) = [] := by
    intro h
    rw [List.filter_eq_nil_iff]
    intro t ht
    rw [mem_dedup] at ht
    simp [h t ht]
  unfold expandSpec expandLiteral
  cases hdw : hasDimensionWildcard dims
  · -- no wildcard in GROUP BY: grouped = named
    have hfilter : ((dedup tags).filter (fun t => !groupedBy re dims t)) =
        ((dedup tags).filter (fun t => decide (t ∉ dimRefs dims))) := by
      apply List.filter_congr
      intro t _
      rw [groupedBy_no_dim_wildcard re t dims hdw]
      simp
    by_cases hz : specFieldCols cols = []
    · rw [if_pos hz]
      rcases h1 with h1 | h1
      · exact absurd hz h1
      · rw [hall h1, hz]; rfl
    · rw [if_neg hz]
      simp only [Bool.false_eq_true, ↓reduceIte]
      unfold specTagCols
      rw [hfilter]
  · rcases h2 with h2 | h2
    · rw [hdw] at h2; cases h2
    · rw [hall h2]
      by_cases hz : specFieldCols cols = []
      · rw [if_pos hz, hz]; rfl
      · rw [if_neg hz]; rfl

/-! ### Kernel-checked witnesses -/

def cpu : Measurement := { name := ['c', 'p', 'u'] }
def tagsonly : Measurement := { name := ['t', 'o'] }
def sValue1 : Str := ['v', 'a', 'l', 'u', 'e', '1']
def sHost : Str := ['h', 'o', 's', 't']
def sRegion : Str := ['r', 'e', 'g', 'i', 'o', 'n']
def sDc : Str := ['d', 'c']

/-- `cpu`: field `value1` float, tags `region`, `host` (listed in that order);
`tagsonly`: no fields, tags `host`, `dc`; `MapType` answers from the same data. -/
def demoMapper : FieldMapper where
  mapType := fun ms n =>
    if ms.name = cpu.name then
      (if n = sValue1 then .Float else if n = sHost ∨ n = sRegion then .Tag else .Unknown)
    else if ms.name = tagsonly.name then (if n = sHost ∨ n = sDc then .Tag else .Unknown)
    else .Unknown
  callType := none
  fieldDimensions := fun ms =>
    if ms.name = cpu.name then .ok ([(sValue1, .Float)], [sRegion, sHost])
    else if ms.name = tagsonly.name then .ok ([], [sHost, sDc])
    else .ok ([], [])

/-- The same schema with the lists in another order. -/
def demoMapper' : FieldMapper :=
  { demoMapper with
    fieldDimensions := fun ms =>
      if ms.name = cpu.name then .ok ([(sValue1, .Float)], [sHost, sRegion])
      else if ms.name = tagsonly.name then .ok ([], [sDc, sHost])
      else .ok ([], []) }

/-- The regex oracle for `/^h/`. -/
def demoRe (src name : Str) : Bool := src = ['^', 'h'] && name.head? = some 'h'

def select (fields : List Field) (dims : List Expr) (sources : List Source) : SelectStmt :=
  .mk fields none dims sources none [] 0 0 0 0 true .null .none none [] false false [] false

def star : Field := { expr := .wildcard .ILLEGAL }

/-- The references a rewritten statement selects / groups by (`none`: not a plain reference). -/
def asRef : Expr → Option ColRef
  | .varRef v t => some ⟨v, t⟩
  | _ => none

def outFields (r : Except Str SelectStmt) : Option (List (Option ColRef)) :=
  match r with
  | .ok s => some (s.fields.map (fun f => asRef f.expr))
  | .error _ => none

def outDims (r : Except Str SelectStmt) : Option (List (Option ColRef)) :=
  match r with
  | .ok s => some (s.dimensions.map asRef)
  | .error _ => none

/-- **Counterexample 1** (`C12-no-fields-drops-tags`).  Schema: `tagsonly` has tag keys `host`,
`dc` and no field.  `SELECT * FROM tagsonly` is rewritten to a statement with an *empty* field list
(`if len(fieldSet) > 0` in `RewriteFields`), whereas by the letter of the property `*` stands for
`dc::tag, host::tag`.  Hypothesis (1) of `expansion_literal_partial` fails. -/
theorem no_fields_drops_tags_counterexample :
    outFields (rewriteFields demoMapper demoRe (select [star] [] [.measurement tagsonly])) = some [] ∧
    expandLiteral demoRe [] [sHost, sDc] [] = [⟨sDc, .Tag⟩, ⟨sHost, .Tag⟩] ∧
    ¬ (specFieldCols [] ≠ [] ∨ ∀ t ∈ [sHost, sDc], groupedBy demoRe [] t = true) := by
  decide

/-- **Counterexample 2** (`C12-regex-groupby-drops-ungrouped-tags`).  Schema: `cpu` has field
`value1` and tag keys `host`, `region`.  `SELECT * FROM cpu GROUP BY /^h/` is rewritten to
`SELECT value1::float FROM cpu GROUP BY host`: `region` is neither grouped by nor selected,
whereas by the letter of the property `*` stands for `region::tag, value1::float`.
Hypothesis (2) of `expansion_literal_partial` fails. -/
theorem regex_groupby_drops_ungrouped_tags_counterexample :
    outFields (rewriteFields demoMapper demoRe
      (select [star] [.regex ['^', 'h']] [.measurement cpu])) = some [some ⟨sValue1, .Float⟩] ∧
    outDims (rewriteFields demoMapper demoRe
      (select [star] [.regex ['^', 'h']] [.measurement cpu])) = some [some ⟨sHost, .Unknown⟩] ∧
    expandLiteral demoRe [(sValue1, .Float)] [sRegion, sHost] [.regex ['^', 'h']] =
      [⟨sRegion, .Tag⟩, ⟨sValue1, .Float⟩] ∧
    ¬ (hasDimensionWildcard [.regex ['^', 'h']] = false ∨
        ∀ t ∈ [sRegion, sHost], groupedBy demoRe [.regex ['^', 'h']] t = true) := by
  decide

/-! ## End to end from the statement text (`rewriteFieldsOfText` = `ParseStatement` then `RewriteFields`)

Executed against the implementation by the stream `fields.text`: the statement (fields, aliases,
GROUP BY, sources and subqueries, condition) is built by the statement parser model from the text. -/

/-- **C12 end to end (= specification).** When the text parses to a SELECT `s`, what is computed from
the text is the declarative specification applied to `s`, errors included. -/
theorem fields_text_eq_spec (m : FieldMapper) (re : Str → Str → Bool) (text : Str)
    (params : List (Str × BoundValue)) (tbl : List (Char × Char)) (s : SelectStmt)
    (hp : parseStatementText text params tbl = .ok (.select s)) :
    rewriteFieldsOfText m re text params tbl = .rewritten (rewriteSpec m re s) := by
  unfold rewriteFieldsOfText
  rw [hp]
  simp only [rewriteFields_eq_spec]

/-- **C12 end to end (never on map iteration order), for every text** — no hypothesis on the text: two
schemas that list the field columns and tag keys of each measurement in different orders give the same
outcome for the same statement text, be it the parse error, the rewritten statement, or the error of
`RewriteFields`. -/
theorem fields_text_perm_invariant (m m' : FieldMapper) (h : MapperPerm m m') (re : Str → Str → Bool)
    (text : Str) (params : List (Str × BoundValue)) (tbl : List (Char × Char)) :
    rewriteFieldsOfText m re text params tbl = rewriteFieldsOfText m' re text params tbl := by
  unfold rewriteFieldsOfText
  cases parseStatementText text params tbl with
  | error f => rfl
  | ok st =>
    cases st <;> try rfl
    simp only [rewriteFields_perm_invariant m m' h re]

/-- **C12 end to end (no wildcard left).** When the text parses to a SELECT and the rewrite succeeds, no
statement at any nesting depth of the result has a bare `*` / regex field or GROUP BY dimension. -/
theorem fields_text_removes_wildcards (m : FieldMapper) (re : Str → Str → Bool) (text : Str)
    (params : List (Str × BoundValue)) (tbl : List (Char × Char)) (s' : SelectStmt)
    (h : rewriteFieldsOfText m re text params tbl = .rewritten (.ok s')) : noWholeWild s' = true := by
  unfold rewriteFieldsOfText at h
  cases hp : parseStatementText text params tbl with
  | error f => rw [hp] at h; cases h
  | ok st =>
    rw [hp] at h
    cases st <;> try (cases h; done)
    rename_i s
    simp only [FieldsTextResult.rewritten.injEq] at h
    exact rewrite_removes_wildcards m re s s' h

/-! ## Non-vacuity -/

/-- `SELECT * FROM cpu`: tags and fields, sorted by name, with their types. -/
example : outFields (rewriteFields demoMapper demoRe (select [star] [] [.measurement cpu])) =
    some [some ⟨sHost, .Tag⟩, some ⟨sRegion, .Tag⟩, some ⟨sValue1, .Float⟩] := by decide

/-- The other listing order gives the same answer (an instance of `rewriteFields_perm_invariant`). -/
example : outFields (rewriteFields demoMapper' demoRe (select [star] [] [.measurement cpu])) =
    some [some ⟨sHost, .Tag⟩, some ⟨sRegion, .Tag⟩, some ⟨sValue1, .Float⟩] := by decide

/-- `SELECT * FROM cpu GROUP BY host`: the grouped tag is left out. -/
example : outFields (rewriteFields demoMapper demoRe
    (select [star] [.varRef sHost .Unknown] [.measurement cpu])) =
    some [some ⟨sRegion, .Tag⟩, some ⟨sValue1, .Float⟩] := by decide

/-- `SELECT value1, host FROM cpu GROUP BY *`: untyped references get their types, `*` becomes the
tag keys. -/
example :
    let r := rewriteFields demoMapper demoRe
      (select [{ expr := .varRef sValue1 .Unknown }, { expr := .varRef sHost .Unknown }] [.wildcard .ILLEGAL]
        [.measurement cpu])
    outFields r = some [some ⟨sValue1, .Float⟩, some ⟨sHost, .Tag⟩] ∧
    outDims r = some [some ⟨sHost, .Unknown⟩, some ⟨sRegion, .Unknown⟩] := by decide

/-- `SELECT mean(*) FROM cpu`: one call per non-tag column, aliased. -/
example : (match rewriteFields demoMapper demoRe
      (select [{ expr := .call ['m', 'e', 'a', 'n'] [.wildcard .ILLEGAL] }] [] [.measurement cpu]) with
    | .ok s => s.fields.map (fun f => f.alias)
    | .error _ => []) = [['m', 'e', 'a', 'n', '_'] ++ sValue1] := by decide

/-- A subquery that selects a tag exposes it as a column of type tag *and* as a dimension; the outer
`*` lists both (specified behaviour: the columns of the schema, one per source column name and
one per ungrouped tag key).  `SELECT * FROM (SELECT region FROM cpu GROUP BY region)`. -/
example : outFields (rewriteFields demoMapper demoRe
    (select [star] [] [.subquery (select [{ expr := .varRef sRegion .Unknown }] [.varRef sRegion .Unknown]
      [.measurement cpu])])) =
    some [some ⟨sRegion, .Tag⟩, some ⟨sRegion, .Tag⟩] := by decide

/-- The hypothesis of `rewriteFields_perm_invariant` is satisfiable by different mappers. -/
example : MapperPerm demoMapper demoMapper' := by
  refine ⟨rfl, ?_⟩
  intro ms
  simp only [demoMapper, demoMapper']
  by_cases h1 : ms.name = cpu.name
  · rw [if_pos h1, if_pos h1]
    exact ⟨List.Perm.refl _, List.Perm.swap _ _ _⟩
  · rw [if_neg h1, if_neg h1]
    by_cases h2 : ms.name = tagsonly.name
    · rw [if_pos h2, if_pos h2]
      exact ⟨List.Perm.refl _, List.Perm.swap _ _ _⟩
    · rw [if_neg h2, if_neg h2]
      exact ⟨List.Perm.refl _, List.Perm.refl _⟩

end InfluxQL.C12

import InfluxQL.Lemmas.Fields
/-!
# C12 — wildcard expansion yields exactly the schema's columns, deterministically

Model: `InfluxQL.rewriteFields` (Model/Fields.lean), the code-shaped mirror of
`SelectStatement.RewriteFields` with its helpers (`FieldDimensions`, `EvalType`, `Field.Name`,
`FieldExprByName`, `sort.Sort(VarRefs)`), over the regenerated `Gen.Types` (`DataType` constants,
`LessThan`, `VarRefs.Less`, the per-function type filter).  The schema is data: a `FieldMapper`
returns the field columns and tag keys of a measurement as lists in arbitrary order.
`rewriteSpec` is the declarative specification (same recursion, `specBody` instead of the mirror).
-/
namespace InfluxQL.C12
open InfluxQL Gen

/-! ## Obligations on the regenerated tables -/

/-- The `DataType` constants of ast.go are the constructors of the model's `DataType`, with the
values `DataType.toNat` gives them. -/
theorem gen_dataType_consts :
    dataTypeConsts =
      [("Unknown".toList, DataType.Unknown.toNat), ("Float".toList, DataType.Float.toNat),
       ("Integer".toList, DataType.Integer.toNat), ("String".toList, DataType.String.toNat),
       ("Boolean".toList, DataType.Boolean.toNat), ("Time".toList, DataType.Time.toNat),
       ("Duration".toList, DataType.Duration.toNat), ("Tag".toList, DataType.Tag.toNat),
       ("AnyField".toList, DataType.AnyField.toNat), ("Unsigned".toList, DataType.Unsigned.toNat)] := by
  decide

/-- `DataType.String()` as extracted is the hand-written `DataType.str` of the model. -/
theorem gen_dataType_string (d : DataType) : dataTypeString d.toNat = d.str := by
  cases d <;> decide

/-- Every type a call may expand to is one of the five field types, and float and integer are
always among them ("All types that can expand wildcards support float, integer"). -/
theorem gen_call_types :
    (callBaseTypes :: callTypeCases.map (fun c => c.2)).all
      (fun ts => ts.all (fun t => [1, 2, 3, 4, 9].contains t) && ts.contains 1 && ts.contains 2) = true := by
  decide

/-- No function name is listed in two cases of `switch call.Name`. -/
theorem gen_call_cases_disjoint :
    (callTypeCases.flatMap (fun c => c.1)).Nodup := by
  decide

/-! ## Type precedence (`DataType.LessThan`, generated) -/

/-- The precedence order, highest first. -/
def precedenceOrder : List DataType :=
  [.Float, .Integer, .Unsigned, .String, .Boolean, .Time, .Duration, .Tag, .AnyField, .Unknown]

/-- **Type precedence.** `LessThan` is exactly the strict order
Float > Integer > Unsigned > String > Boolean > Time > Duration > Tag > AnyField > Unknown
(`a.LessThan(b)` iff `b` comes strictly earlier), with the one exception the code documents:
`Unknown` is below everything *including itself*. -/
theorem type_precedence (a b : DataType) :
    a.lessThan b = (decide (precedenceOrder.idxOf b < precedenceOrder.idxOf a) || a == .Unknown) := by
  cases a <;> cases b <;> decide

theorem type_precedence_irrefl (a : DataType) (h : a ≠ .Unknown) : a.lessThan a = false := by
  cases a <;> first | rfl | exact absurd rfl h

theorem type_precedence_asymm (a b : DataType) (h1 : a.lessThan b = true) (h2 : b.lessThan a = true) :
    a = .Unknown ∧ b = .Unknown := by
  cases a <;> cases b <;> first | exact ⟨rfl, rfl⟩ | (revert h1 h2; decide)

theorem type_precedence_trans (a b c : DataType) (h1 : a.lessThan b = true) (h2 : b.lessThan c = true) :
    a.lessThan c = true := by
  cases a <;> cases b <;> cases c <;> first | rfl | (revert h1 h2; decide)

theorem type_precedence_total (a b : DataType) (h : a ≠ b) : a.lessThan b = true ∨ b.lessThan a = true := by
  cases a <;> cases b <;> first | exact absurd rfl h | decide

/-- All five field types outrank `Tag`: a name that is a field in one measurement and a tag in
another is typed as the field. -/
theorem type_precedence_fields_over_tag :
    ∀ t ∈ [DataType.Float, .Integer, .Unsigned, .String, .Boolean], DataType.Tag.lessThan t = true := by
  decide

/-- "Same or lower precedence". -/
def precLe (a b : DataType) : Prop := a = b ∨ a.lessThan b = true

theorem raiseTo_ge_left (a b : DataType) : precLe a (raiseTo a b) := by
  cases a <;> cases b <;> first | exact Or.inl rfl | exact Or.inr rfl

theorem raiseTo_ge_right (a b : DataType) : precLe b (raiseTo a b) := by
  cases a <;> cases b <;> first | exact Or.inl rfl | exact Or.inr rfl

theorem precLe_trans {a b c : DataType} (h1 : precLe a b) (h2 : precLe b c) : precLe a c := by
  rcases h1 with rfl | h1
  · exact h2
  · rcases h2 with rfl | h2
    · exact Or.inr h1
    · exact Or.inr (type_precedence_trans a b c h1 h2)

theorem foldl_raiseTo_ge_init (l : List DataType) : ∀ init, precLe init (l.foldl raiseTo init) := by
  induction l with
  | nil => intro init; exact Or.inl rfl
  | cons t l ih => intro init; exact precLe_trans (raiseTo_ge_left init t) (ih _)

theorem foldl_raiseTo_ge_mem (l : List DataType) : ∀ init, ∀ t ∈ l, precLe t (l.foldl raiseTo init) := by
  induction l with
  | nil => intro _ t ht; cases ht
  | cons t0 l ih =>
    intro init t ht
    rcases List.mem_cons.mp ht with rfl | ht
    · exact precLe_trans (raiseTo_ge_right init t) (foldl_raiseTo_ge_init l _)
    · exact ih _ t ht

theorem foldl_raiseTo_mem (l : List DataType) : ∀ init, l.foldl raiseTo init = init ∨ l.foldl raiseTo init ∈ l := by
  induction l with
  | nil => intro init; exact Or.inl rfl
  | cons t l ih =>
    intro init
    rcases ih (raiseTo init t) with h | h
    · have : raiseTo init t = init ∨ raiseTo init t = t := by
        unfold raiseTo; split
        · exact Or.inr rfl
        · exact Or.inl rfl
      rcases this with h' | h'
      · left; simp only [List.foldl_cons]; rw [h, h']
      · right; simp only [List.foldl_cons]; rw [h, h']; exact List.mem_cons_self
    · right; exact List.mem_cons_of_mem _ h

/-- **Types by precedence.** The type a column name gets is the type of one of the schema columns
of that name, and no column of that name has a higher precedence. -/
theorem colType_is_max (cols : List (Str × DataType)) (n : Str) (hn : n ∈ cols.map (fun c => c.1)) :
    (n, colType cols n) ∈ cols ∧ ∀ t, (n, t) ∈ cols → precLe t (colType cols n) := by
  have hmem : ∀ t, (n, t) ∈ cols ↔ t ∈ (cols.filter (fun c => c.1 = n)).map (fun c => c.2) := by
    intro t
    simp only [List.mem_map, List.mem_filter, decide_eq_true_eq]
    constructor
    · intro h; exact ⟨(n, t), ⟨h, rfl⟩, rfl⟩
    · rintro ⟨⟨k, t'⟩, ⟨h, hk⟩, ht⟩
      simp only at hk ht
      subst hk; subst ht; exact h
  constructor
  · rw [hmem]
    unfold colType
    rcases foldl_raiseTo_mem ((cols.filter (fun c => c.1 = n)).map (fun c => c.2)) .Unknown with h | h
    · -- the fold stayed at Unknown: then some column of that name is Unknown
      rw [h]
      rw [List.mem_map] at hn
      obtain ⟨⟨k, t⟩, hkt, hk⟩ := hn
      simp only at hk
      subst hk
      have ht := (hmem t).mp hkt
      have hge := foldl_raiseTo_ge_mem _ .Unknown t ht
      rw [h] at hge
      rcases hge with rfl | hlt
      · exact ht
      · cases t <;> first | exact ht | exact absurd hlt (by decide)
    · exact h
  · intro t ht
    exact foldl_raiseTo_ge_mem _ .Unknown t ((hmem t).mp ht)

/-! ## The mirror is the specification; the order of the schema lists is irrelevant -/

/-- **Mirror = specification.** The code-shaped model of `RewriteFields` (Go maps as association
lists in insertion order, the code's control flow) computes exactly what the declarative
specification says (`rewriteSpec`: concatenate the columns of the sources, one field column per
distinct name with the highest-precedence type, tag keys once minus those named in GROUP BY,
sorted by `VarRefs.Less`), for every statement, schema and regex oracle, errors included.
Both run the same recursion (subqueries first); their bodies are equal as functions. -/
theorem rewriteFields_eq_spec (m : FieldMapper) (re : Str → Str → Bool) (s : SelectStmt) :
    rewriteFields m re s = rewriteSpec m re s := by
  unfold rewriteFields rewriteSpec
  rw [rewriteBody_eq_specBody]

/-- **Never on map iteration order.** Two schemas that differ only in the order in which the
field columns and the tag keys of each measurement are listed (what a `range` over the two Go
maps returned by `FieldDimensions` may produce) give the same rewritten statement, or the same
error; at every nesting depth. -/
theorem rewriteFields_perm_invariant (m m' : FieldMapper) (h : MapperPerm m m') (re : Str → Str → Bool)
    (s : SelectStmt) : rewriteFields m re s = rewriteFields m' re s := by
  rw [rewriteFields_eq_spec, rewriteFields_eq_spec]
  unfold rewriteSpec
  rw [specBody_perm h]

/-- The maps built *inside* `RewriteFields` are ranged over as well (`for name, typ := range
fieldSet`, `for name := range dimensionSet`): whatever order those loops take, the sorted slice is
the same. -/
theorem internal_iteration_order_irrelevant (fieldSet fieldSet' : TypeMap) (dimSet dimSet' : StrSet)
    (hf : fieldSet.Perm fieldSet') (hd : dimSet.Perm dimSet') (hasDW : Bool) :
    wildcardRefs fieldSet dimSet hasDW = wildcardRefs fieldSet' dimSet' hasDW ∧
    wildcardDims fieldSet dimSet hasDW = wildcardDims fieldSet' dimSet' hasDW := by
  unfold wildcardRefs wildcardDims
  rw [hf.length_eq]
  constructor
  · split
    · apply sortRefs_eq_of_perm
      apply (hf.map _).append
      cases hasDW
      · exact hd.map _
      · exact List.Perm.refl _
    · rfl
  · split
    · rfl
    · exact sortStrs_eq_of_perm hd

/-! ## What the expansion contains -/

/-- **Sorted by name.** The expansion of `*` is sorted by `VarRefs.Less`: by name (Go string
order), a field and a tag of the same name by type constant. -/
theorem expansion_sorted (cols : List (Str × DataType)) (tags : List Str) (dims : List Expr) (hasDW : Bool) :
    (expandSpec cols tags dims hasDW).Pairwise (fun a b => b.less a = false) := by
  unfold expandSpec
  split
  · exact List.Pairwise.nil
  · have := sortRefs_sorted (specFieldCols cols ++ if hasDW = true then [] else specTagCols tags dims)
    refine this.imp ?_
    intro a b h
    unfold refLe at h
    simpa using h

/-- **Exactly the schema's columns.** What is in the expansion of `*`: a field column `(n, t)` iff
some source has a column called `n` and `t` is the highest-precedence type among them; a tag
column iff it is a tag key of some source, GROUP BY has no wildcard, and the statement does not
group by it.  Nothing else.  (And nothing at all if the sources have no field column.) -/
theorem expansion_mem (cols : List (Str × DataType)) (tags : List Str) (dims : List Expr) (hasDW : Bool)
    (r : ColRef) :
    r ∈ expandSpec cols tags dims hasDW ↔
      cols ≠ [] ∧
      ((r.name ∈ cols.map (fun c => c.1) ∧ r.type = colType cols r.name) ∨
       (hasDW = false ∧ r.type = .Tag ∧ r.name ∈ tags ∧ r.name ∉ dimRefs dims)) := by
  have hnil : specFieldCols cols = [] ↔ cols = [] := by
    unfold specFieldCols
    rw [List.map_eq_nil_iff]
    constructor
    · intro h
      cases cols with
      | nil => rfl
      | cons c rest =>
        have : c.1 ∈ dedup ((c :: rest).map (fun c => c.1)) := mem_dedup.mpr List.mem_cons_self
        rw [h] at this; cases this
    · rintro rfl; rfl
  have hF : r ∈ specFieldCols cols ↔ r.name ∈ cols.map (fun c => c.1) ∧ r.type = colType cols r.name := by
    unfold specFieldCols
    rw [List.mem_map]
    constructor
    · rintro ⟨n, hn, rfl⟩
      exact ⟨mem_dedup.mp hn, rfl⟩
    · rintro ⟨hn, ht⟩
      refine ⟨r.name, mem_dedup.mpr hn, ?_⟩
      cases r; simp only at ht; rw [ht]
  have hT : r ∈ specTagCols tags dims ↔ r.type = .Tag ∧ r.name ∈ tags ∧ r.name ∉ dimRefs dims := by
    unfold specTagCols
    rw [List.mem_map]
    constructor
    · rintro ⟨t, ht, rfl⟩
      rw [List.mem_filter, mem_dedup] at ht
      exact ⟨rfl, ht.1, by simpa using ht.2⟩
    · rintro ⟨h1, h2, h3⟩
      refine ⟨r.name, ?_, ?_⟩
      · rw [List.mem_filter, mem_dedup]; exact ⟨h2, by simpa using h3⟩
      · cases r; simp only at h1; rw [h1]
  unfold expandSpec
  split
  · rename_i hz
    have := hnil.mp hz
    simp [this]
  · rename_i hz
    have hne : cols ≠ [] := fun e => hz (hnil.mpr e)
    rw [(sortRefs_perm _).mem_iff, List.mem_append, hF]
    cases hasDW
    · simp only [Bool.false_eq_true, ↓reduceIte, hT, true_and]
      exact ⟨fun h => ⟨hne, h⟩, fun h => h.2⟩
    · simp only [↓reduceIte, List.not_mem_nil, or_false, Bool.true_eq_false, false_and]
      exact ⟨fun h => ⟨hne, h⟩, fun h => h.2⟩

/-- Each field column is listed once. -/
theorem expansion_field_columns_once (cols : List (Str × DataType)) :
    ((specFieldCols cols).map (fun r => r.name)).Nodup := by
  unfold specFieldCols
  rw [List.map_map]
  have : ((fun r : ColRef => r.name) ∘ fun n => (⟨n, colType cols n⟩ : ColRef)) = id := rfl
  rw [this, List.map_id]
  exact nodup_dedup _

/-- **Grouped tags are removed.** A tag the statement names in GROUP BY is not among the expanded
fields as a tag key; if it shows up with type `tag` it is because a source exposes a *column* of
that name and type (a subquery that selects the tag). -/
theorem grouped_tags_removed (cols : List (Str × DataType)) (tags : List Str) (dims : List Expr) (hasDW : Bool)
    (r : ColRef) (hr : r ∈ expandSpec cols tags dims hasDW) (ht : r.type = .Tag) (hg : r.name ∈ dimRefs dims) :
    (r.name, DataType.Tag) ∈ cols := by
  rw [expansion_mem] at hr
  rcases hr.2 with ⟨hn, hty⟩ | ⟨_, _, _, hng⟩
  · have := (colType_is_max cols r.name hn).1
    rw [← hty, ht] at this
    exact this
  · exact absurd hg hng

/-- With a wildcard or regex in GROUP BY no tag key is expanded among the fields at all. -/
theorem dim_wildcard_no_tag_fields (cols : List (Str × DataType)) (tags : List Str) (dims : List Expr)
    (r : ColRef) (hr : r ∈ expandSpec cols tags dims true) :
    r.name ∈ cols.map (fun c => c.1) ∧ r.type = colType cols r.name := by
  rw [expansion_mem] at hr
  rcases hr.2 with h | ⟨h, _⟩
  · exact h
  · cases h

/-- **GROUP BY `*`** stands for every tag key of the sources, once, sorted. -/
theorem dim_expansion (tags : List Str) :
    (dimSpec tags).Pairwise (fun a b => strLt b a = false) ∧ (dimSpec tags).Nodup ∧
    ∀ t, t ∈ dimSpec tags ↔ t ∈ tags := by
  unfold dimSpec
  refine ⟨?_, ?_, ?_⟩
  · refine (sortStrs_sorted _).imp ?_
    intro a b h
    unfold strLe at h
    simpa using h
  · exact ((sortStrs_perm _).nodup_iff).mpr (nodup_dedup _)
  · intro t
    rw [(sortStrs_perm _).mem_iff, mem_dedup]

end InfluxQL.C12

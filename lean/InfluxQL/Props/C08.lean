import InfluxQL.Lemmas.Duration
import InfluxQL.Lemmas.ScanNumber
/-!
# C08 — durations are parsed exactly or rejected; formatting is invertible

Model: `InfluxQL.parseDuration`, `InfluxQL.formatDuration` (Model/Duration.lean),
over the regenerated tables `Gen.durationUnits`, `Gen.formatLadder`.
`lexDuration` is the grammar without arithmetic; `compSum` the exact sum.
-/
namespace InfluxQL.C08
open InfluxQL Gen

/-! ## Obligations on the regenerated tables -/

/-- Every unit multiplier extracted from `ParseDuration` is positive. -/
theorem gen_unitsPos : UnitsPos durationUnits := by decide

/-- The `FormatDuration` ladder is ordered from the largest unit down, each unit a
multiple of the next (so "first that divides" = "largest that divides"), all > 1. -/
def LadderDescending : List (Int × List Char) → Bool
  | [] => true
  | [(x, _)] => decide (1 < x)
  | (x, _) :: (y, s) :: rest => decide (y < x) && decide (x % y = 0) && LadderDescending ((y, s) :: rest)

theorem gen_ladder_descending : LadderDescending formatLadder = true := by decide

/-- The units the property names, with their nanosecond values, are exactly the table. -/
theorem gen_units_are_the_documented_ones :
    durationUnits.map (fun e => (e.1, e.2.2)) =
      [('n', none), ('u', some 1000), ('µ', some 1000), ('m', some 60000000000), ('s', some 1000000000),
       ('h', some 3600000000000), ('d', some 86400000000000), ('w', some 604800000000000)] ∧
    durationUnits.filterMap (fun e => e.2.1.map (fun m => (e.1, m))) = [('n', 1), ('m', 1000000)] := by
  decide

theorem gen_ladderMatchesUnits : LadderMatchesUnits := by
  intro p hp k
  simp only [formatLadder, formatFallbackSuffix, List.cons_append, List.nil_append, List.mem_cons,
    List.mem_nil_iff, or_false] at hp
  rcases hp with rfl | rfl | rfl | rfl | rfl | rfl | rfl | rfl <;>
    simp [lexLoop, isDigit, lookupUnit, durationUnits]


/-! ## Parsing is exact or rejected -/

def sign (neg : Bool) : Int := if neg then -1 else 1

/-- **C08 (exactness).** Whenever `ParseDuration` succeeds, the text is a sequence of
`<digits><unit>` components with an optional leading `-`, and the result is *exactly* the
signed sum of the written components (which fits in 64-bit nanoseconds). -/
theorem parse_exact (s : List Char) (d : Int) (h : parseDuration s = .ok d) :
    ∃ neg comps, lexDuration s = some (neg, comps) ∧ d = sign neg * compSum comps ∧
      compSum comps ≤ maxInt64 := by
  unfold parseDuration at h
  unfold lexDuration
  split at h
  · simp at h
  · rename_i hlen
    simp only [hlen, if_false]
    split at h
    · rename_i rest
      split at h
      · simp at h
      · rename_i d' hd'
        obtain ⟨comps, hl, hr, h0, h1, _⟩ := durLoop_sound gen_unitsPos rest 0 none d' (by decide) (by decide) hd'
        simp at h; subst h
        refine ⟨true, comps, by simp [hl], ?_, by omega⟩
        rw [wrap64_id (by unfold minInt64; unfold maxInt64 at h1; omega) (by unfold maxInt64; omega)]
        simp [sign]; omega
    · rename_i hnot
      obtain ⟨comps, hl, hr, h0, h1, _⟩ := durLoop_sound gen_unitsPos s 0 none d (by decide) (by decide) h
      refine ⟨false, comps, ?_, by simp [sign]; omega, by omega⟩
      split
      · rename_i rest; exact absurd rfl (hnot rest)
      · simp [hl]

/-- **C08 (acceptance).** A well-formed duration whose exact sum fits is accepted with that sum. -/
theorem parse_complete (s : List Char) (neg : Bool) (comps : List (Nat × Int))
    (hl : lexDuration s = some (neg, comps)) (hfit : compSum comps ≤ maxInt64) :
    parseDuration s = .ok (sign neg * compSum comps) := by
  unfold lexDuration at hl
  unfold parseDuration
  split at hl
  · simp at hl
  · rename_i hlen
    simp only [hlen, if_false]
    split at hl
    · rename_i rest
      simp only [Option.map_eq_some_iff] at hl
      obtain ⟨c, hc, heq⟩ := hl
      simp at heq; obtain ⟨rfl, rfl⟩ := heq
      have := durLoop_complete gen_unitsPos rest 0 none c (by decide) hc (by omega)
      have hpos := compSum_nonneg_of (lexLoop_pos gen_unitsPos _ _ c hc)
      simp only [this]
      rw [wrap64_id (by unfold minInt64; unfold maxInt64 at hfit; omega) (by unfold maxInt64; omega)]
      simp [sign]
    · rename_i hnot
      simp only [Option.map_eq_some_iff] at hl
      obtain ⟨c, hc, heq⟩ := hl
      simp at heq; obtain ⟨rfl, rfl⟩ := heq
      have := durLoop_complete gen_unitsPos s 0 none c (by decide) hc (by omega)
      split
      · rename_i rest; exact absurd rfl (hnot rest)
      · rw [this]; simp [sign]

/-- **C08 (overflow).** A total that does not fit in 64-bit nanoseconds is an error,
never a wrapped or truncated value. -/
theorem parse_overflow_rejected (s : List Char) (neg : Bool) (comps : List (Nat × Int))
    (hl : lexDuration s = some (neg, comps)) (hbig : maxInt64 < compSum comps) :
    ∃ e, parseDuration s = .error e := by
  cases h : parseDuration s with
  | error e => exact ⟨e, rfl⟩
  | ok d =>
    obtain ⟨neg', comps', hl', _, hfit⟩ := parse_exact s d h
    rw [hl] at hl'; simp at hl'; obtain ⟨_, rfl⟩ := hl'
    omega

/-- Text outside the grammar is rejected. -/
theorem parse_rejects_non_grammar (s : List Char) (hl : lexDuration s = none) :
    ∃ e, parseDuration s = .error e := by
  cases h : parseDuration s with
  | error e => exact ⟨e, rfl⟩
  | ok d =>
    obtain ⟨neg', comps', hl', _, _⟩ := parse_exact s d h
    rw [hl] at hl'; simp at hl'

-- non-vacuity: a concrete multi-component text meets the hypotheses
example : lexDuration "-1h30m".toList = some (true, [(1, 3600000000000), (30, 60000000000)]) := by
  simp [lexDuration, utf8Len, lexLoop, isDigit, lookupUnit, durationUnits, digitVal, Char.utf8Size]
example : compSum [(1, 3600000000000), (30, 60000000000)] = 5400000000000 := by decide
-- the witness that failed before the repair (wrapped to 25m26.290448384s) is now an overflow
example : maxInt64 < compSum [(5124096, 3600000000000)] := by decide


/-! ## Formatting -/

theorem format_zero : formatDuration 0 = ['0', 's'] := by simp [formatDuration]

/-- What `FormatDuration` writes for `d ≠ 0`: the first ladder unit dividing `d`
(Go's truncated `%`), else nanoseconds. -/
theorem format_unit (d : Int) (hd : d ≠ 0) :
    formatDuration d =
      match formatLadder.find? (fun p => Int.tmod d p.1 = 0) with
      | some (x, suffix) => intDigits (Int.tdiv d x) ++ suffix
      | none => intDigits d ++ formatFallbackSuffix := by
  simp only [formatDuration, hd, if_false]
  generalize formatLadder = l
  induction l with
  | nil => simp [formatLadderGo]
  | cons p rest ih =>
    obtain ⟨x, suffix⟩ := p
    simp only [formatLadderGo, List.find?]
    by_cases h : Int.tmod d x = 0
    · simp [h]
    · simp [h, ih]

theorem ladder_head_gt (x : Int) (s : List Char) (rest : List (Int × List Char))
    (h : LadderDescending ((x, s) :: rest) = true) : ∀ p ∈ rest, p.1 < x := by
  induction rest generalizing x s with
  | nil => simp
  | cons q rest ih =>
    obtain ⟨y, t⟩ := q
    simp only [LadderDescending, Bool.and_eq_true, decide_eq_true_eq] at h
    intro p hp
    simp at hp
    rcases hp with rfl | hp
    · exact h.1.1
    · have := ih y t h.2 p hp; omega

/-- **C08 (largest unit).** The unit `FormatDuration` chooses is the largest ladder unit that
divides `d`: every other dividing unit is smaller. -/
theorem format_largest_unit (d : Int) (p0 : Int × List Char)
    (h : formatLadder.find? (fun p => Int.tmod d p.1 = 0) = some p0) :
    ∀ p ∈ formatLadder, Int.tmod d p.1 = 0 → p.1 ≤ p0.1 := by
  have hdesc := gen_ladder_descending
  revert h hdesc
  generalize formatLadder = l
  induction l with
  | nil => simp
  | cons q rest ih =>
    obtain ⟨x, s⟩ := q
    intro h hdesc p hp hdiv
    simp only [List.find?] at h
    by_cases hx : Int.tmod d x = 0
    · simp [hx] at h; subst h
      simp at hp
      rcases hp with rfl | hp
      · exact Int.le_refl _
      · exact Int.le_of_lt (ladder_head_gt x s rest hdesc p hp)
    · simp [hx] at h
      simp at hp
      rcases hp with rfl | hp
      · exact absurd hdiv hx
      · have hdesc' : LadderDescending rest = true := by
          cases rest with
          | nil => rfl
          | cons r rest' =>
            obtain ⟨y, t⟩ := r
            simp only [LadderDescending, Bool.and_eq_true] at hdesc
            exact hdesc.2
        exact ih h hdesc' p hp hdiv

/-- When no ladder unit divides `d`, the value is written in nanoseconds. -/
theorem format_fallback (d : Int) (hd : d ≠ 0)
    (h : formatLadder.find? (fun p => Int.tmod d p.1 = 0) = none) :
    formatDuration d = intDigits d ++ formatFallbackSuffix := by
  rw [format_unit d hd, h]


/-! ## `ParseDuration (FormatDuration d) = d` -/

theorem gen_ladder_entries_ok :
    ∀ p ∈ formatLadder ++ [((1 : Int), formatFallbackSuffix)], 1 ≤ p.1 ∧ p.2 ≠ [] := by decide

theorem utf8Len_ge_length (s : List Char) : s.length ≤ utf8Len s := by
  unfold utf8Len
  suffices h : ∀ n, n + s.length ≤ s.foldl (fun n c => n + c.utf8Size) n by simpa using h 0
  induction s with
  | nil => intro n; simp
  | cons c cs ih =>
    intro n
    simp only [List.foldl, List.length_cons]
    have := ih (n + c.utf8Size)
    have := Char.utf8Size_pos c
    omega

/-- Shape of the output: a signed quotient and one unit suffix with `d = q * unit`. -/
theorem format_shape (d : Int) (hd : d ≠ 0) :
    ∃ x suffix q, (x, suffix) ∈ formatLadder ++ [((1 : Int), formatFallbackSuffix)] ∧
      d = q * x ∧ formatDuration d = intDigits q ++ suffix := by
  rw [format_unit d hd]
  cases h : formatLadder.find? (fun p => Int.tmod d p.1 = 0) with
  | none => exact ⟨1, formatFallbackSuffix, d, by simp, by simp, rfl⟩
  | some p =>
    obtain ⟨x, suffix⟩ := p
    have hmem := List.mem_of_find?_eq_some h
    have hdiv := List.find?_some h
    simp at hdiv
    exact ⟨x, suffix, Int.tdiv d x, by simp [hmem], (Int.tdiv_mul_cancel_of_tmod_eq_zero hdiv).symm, rfl⟩

theorem isDigit_ne_minus (c : Char) (h : isDigit c = true) : c ≠ '-' := by
  intro hc; subst hc; revert h; decide

/-- **C08 (round trip).** For every duration except the single most negative 64-bit value,
`ParseDuration (FormatDuration d) = d`. -/
theorem parse_format (d : Int) (hmin : minInt64 < d) (hmax : d ≤ maxInt64) :
    parseDuration (formatDuration d) = .ok d := by
  by_cases hd : d = 0
  · subst hd
    rw [format_zero]
    have : lexDuration ['0', 's'] = some (false, [(0, 1000000000)]) := by
      simp [lexDuration, utf8Len, lexLoop, isDigit, lookupUnit, durationUnits, digitVal, Char.utf8Size]
    have := parse_complete _ _ _ this (by decide)
    simpa [sign, compSum] using this
  · obtain ⟨x, suffix, q, hmem, hdq, hfmt⟩ := format_shape d hd
    obtain ⟨hx, hsuf⟩ := gen_ladder_entries_ok (x, suffix) hmem
    have hlm := gen_ladderMatchesUnits (x, suffix) hmem
    simp only at hx hsuf hlm
    rw [hfmt]
    have hq0 : q ≠ 0 := by intro h; subst h; simp at hdq; exact hd hdq
    -- the digits written are those of |q|
    have hlen : ∀ (pre : List Char), 2 ≤ utf8Len (pre ++ natDigits q.natAbs ++ suffix) := by
      intro pre
      have h1 := utf8Len_ge_length (pre ++ natDigits q.natAbs ++ suffix)
      have h2 : 1 ≤ (natDigits q.natAbs).length := by
        have := natDigits_ne_nil q.natAbs
        cases hnd : natDigits q.natAbs with
        | nil => exact absurd hnd this
        | cons _ _ => simp
      have h3 : 1 ≤ suffix.length := by
        cases hs : suffix with
        | nil => exact absurd hs hsuf
        | cons _ _ => simp
      simp only [List.length_append] at h1
      omega
    have hlex : lexLoop (natDigits q.natAbs ++ suffix) none = some [(q.natAbs, x)] := by
      rw [lexLoop_natDigits]; exact hlm _
    have hkx : (q.natAbs : Int) * x ≤ maxInt64 := by
      by_cases hneg : q < 0
      · have : (q.natAbs : Int) = -q := Int.ofNat_natAbs_of_nonpos (by omega)
        rw [this]
        have : -q * x = -d := by rw [hdq]; exact Int.neg_mul q x
        unfold maxInt64; unfold minInt64 at hmin; omega
      · have : (q.natAbs : Int) = q := Int.natAbs_of_nonneg (by omega)
        rw [this, ← hdq]; exact hmax
    by_cases hneg : q < 0
    · have hdig : intDigits q = '-' :: natDigits q.natAbs := by simp [intDigits, hneg]
      have hl : lexDuration (intDigits q ++ suffix) = some (true, [(q.natAbs, x)]) := by
        rw [hdig]
        have := hlen ['-']
        simp only [List.cons_append, List.nil_append, List.append_assoc] at this
        simp only [lexDuration, List.cons_append]
        rw [if_neg (by omega)]
        simp [hlex]
      have := parse_complete _ _ _ hl (by simpa [compSum] using hkx)
      rw [this]
      have habs : (q.natAbs : Int) = -q := Int.ofNat_natAbs_of_nonpos (by omega)
      simp only [sign, compSum, if_true, habs]
      have : -q * x = -d := by rw [hdq]; exact Int.neg_mul q x
      congr 1; omega
    · have hdig : intDigits q = natDigits q.natAbs := by simp [intDigits, hneg]
      have hl : lexDuration (intDigits q ++ suffix) = some (false, [(q.natAbs, x)]) := by
        rw [hdig]
        have := hlen []
        simp only [List.nil_append] at this
        simp only [lexDuration]
        rw [if_neg (by omega)]
        cases hnd : natDigits q.natAbs with
        | nil => exact absurd hnd (natDigits_ne_nil _)
        | cons c tl =>
          have hc : isDigit c = true := natDigits_all_digits q.natAbs c (by simp [hnd])
          have hcm := isDigit_ne_minus c hc
          rw [hnd] at hlex
          simp only [List.cons_append] at hlex ⊢
          split
          · rename_i rest heq; simp at heq; exact absurd heq.1 hcm
          · simp [hlex]
      have := parse_complete _ _ _ hl (by simpa [compSum] using hkx)
      rw [this]
      have habs : (q.natAbs : Int) = q := Int.natAbs_of_nonneg (by omega)
      simp only [sign, compSum, habs]
      congr 1; simp; omega

/-! ## Duration literals inside a query -/

/-- Every suffix `FormatDuration` writes starts with a unit letter and continues with letters:
the scanner keeps it in the same token as the digits. -/
def suffixOK : List Char → Bool
  | [] => false
  | c :: tail => isDurChar c && tail.all isDurTailChar

theorem gen_suffixes_are_duration_chars :
    ∀ p ∈ formatLadder ++ [((1 : Int), formatFallbackSuffix)], suffixOK p.2 = true := by
  decide

/-- **C08 (literals in statements).** Wherever the scanner meets the text `FormatDuration` writes
for a positive duration, followed by a character that cannot continue a duration, it produces ONE
`DURATIONVAL` token whose literal `ParseDuration` maps back to exactly that duration. (A negative
literal is a `-` token followed by this one; `parseUnaryExpr` negates the value.) -/
theorem duration_literal_in_query (r : Cursor) (d : Int) (x : Char) (t : List Char)
    (hpos : 0 < d) (hmax : d ≤ maxInt64)
    (h : r.rest.map Prod.fst = formatDuration d ++ x :: t) (hx : isDurTailChar x = false) :
    (scan r).1.tok = .DURATIONVAL ∧ parseDuration (scan r).1.lit = .ok d ∧
      (scan r).2.rest.map Prod.fst = x :: t := by
  obtain ⟨u, suffix, q, hmem, hdq, hfmt⟩ := format_shape d (by omega)
  obtain ⟨hu, _⟩ := gen_ladder_entries_ok (u, suffix) hmem
  have hok := gen_suffixes_are_duration_chars (u, suffix) hmem
  simp only at hu hok
  obtain ⟨c, tail, hsuf, hc, htail⟩ : ∃ c tail, suffix = c :: tail ∧ isDurChar c = true ∧ tail.all isDurTailChar = true := by
    cases suffix with
    | nil => simp [suffixOK] at hok
    | cons c tail =>
      simp only [suffixOK, Bool.and_eq_true] at hok
      exact ⟨c, tail, rfl, hok.1, hok.2⟩
  have hq : 0 < q := by
    rcases Int.lt_trichotomy q 0 with hq | hq | hq
    · exfalso
      have : q * u < 0 := Int.mul_neg_of_neg_of_pos hq (by omega)
      omega
    · subst hq; simp at hdq; omega
    · exact hq
  have hdig : intDigits q = natDigits q.natAbs := by simp [intDigits, show ¬ q < 0 by omega]
  have htext : formatDuration d = natDigits q.natAbs ++ c :: tail := by rw [hfmt, hdig, hsuf]
  rw [htext] at h
  have := scan_duration_token r (natDigits q.natAbs) tail c x t (by simpa using h)
    (natDigits_ne_nil _) (natDigits_all_digits _) hc
    (by simpa [List.all_eq_true] using htail) hx
  refine ⟨this.1, ?_, this.2.2⟩
  rw [this.2.1, ← htext]
  exact parse_format d (by unfold minInt64; omega) hmax

-- non-vacuity
example : minInt64 < (-5400000000000 : Int) ∧ (-5400000000000 : Int) ≤ maxInt64 := by decide

end InfluxQL.C08

import InfluxQL.Model.Duration

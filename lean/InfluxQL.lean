import InfluxQL.Model.Duration
import InfluxQL.Model.Scanner
import InfluxQL.Props.C08

import InfluxQL.Lemmas.Regex
namespace InfluxQL.Rx
open InfluxQL Gen

/-! ## Conditions -/

mutual
  /-- Does a regex operator occur anywhere in the expression (call arguments included)? -/
  def hasRegexOp : Expr → Bool
    | .binary op l r => op == .EQREGEX || op == .NEQREGEX || hasRegexOp l || hasRegexOp r
    | .paren e => hasRegexOp e
    | .call _ args => hasRegexOpArgs args
    | _ => false
  def hasRegexOpArgs : List Expr → Bool
    | [] => false
    | a :: rest => hasRegexOp a || hasRegexOpArgs rest
end

theorem rewriteNode_other (exact : Str → Option (List Str)) {op : Token} (l r : Expr)
    (h1 : op ≠ .EQREGEX) (h2 : op ≠ .NEQREGEX) : rewriteNode exact (.binary op l r) = .binary op l r := by
  cases r <;> first | rfl | (rw [rewriteNode_regex, if_neg h1, if_neg h2])

theorem rewriteExpr_binary (exact : Str → Option (List Str)) (op : Token) (l r : Expr) :
    rewriteExpr exact (.binary op l r) =
      rewriteNode exact (.binary op (rewriteExpr exact l) (rewriteExpr exact r)) := by
  rw [rewriteExpr]

theorem rewriteExpr_paren (exact : Str → Option (List Str)) (e : Expr) :
    rewriteExpr exact (.paren e) = .paren (rewriteExpr exact e) := by
  rw [rewriteExpr]

theorem rewriteExpr_regex (exact : Str → Option (List Str)) (src : Str) :
    rewriteExpr exact (.regex src) = .regex src := by
  unfold rewriteExpr; rfl

mutual
  /-- Without a regex operator nothing changes. -/
  theorem rewriteExpr_noop (exact : Str → Option (List Str)) :
      ∀ e : Expr, hasRegexOp e = false → rewriteExpr exact e = e
    | .binary op l r, h => by
      rw [hasRegexOp] at h
      simp only [Bool.or_eq_false_iff, beq_eq_false_iff_ne, ne_eq] at h
      rw [rewriteExpr_binary, rewriteExpr_noop exact l h.1.2, rewriteExpr_noop exact r h.2,
        rewriteNode_other exact l r h.1.1.1 h.1.1.2]
    | .paren e, h => by
      rw [hasRegexOp] at h
      rw [rewriteExpr_paren, rewriteExpr_noop exact e h]
    | .call name args, h => by
      rw [hasRegexOp] at h
      rw [rewriteExpr, rewriteArgs_noop exact args h]
    | .varRef _ _, _ => by unfold rewriteExpr; rfl
    | .distinct _, _ => by unfold rewriteExpr; rfl
    | .wildcard _, _ => by unfold rewriteExpr; rfl
    | .regex _, _ => by unfold rewriteExpr; rfl
    | .string _, _ => by unfold rewriteExpr; rfl
    | .number _, _ => by unfold rewriteExpr; rfl
    | .integer _, _ => by unfold rewriteExpr; rfl
    | .unsigned _, _ => by unfold rewriteExpr; rfl
    | .boolean _, _ => by unfold rewriteExpr; rfl
    | .duration _, _ => by unfold rewriteExpr; rfl
    | .time _, _ => by unfold rewriteExpr; rfl
    | .nil, _ => by unfold rewriteExpr; rfl
    | .list _, _ => by unfold rewriteExpr; rfl
    | .boundParam _, _ => by unfold rewriteExpr; rfl
  theorem rewriteArgs_noop (exact : Str → Option (List Str)) :
      ∀ args : List Expr, hasRegexOpArgs args = false → rewriteArgs exact args = args
    | [], _ => by rw [rewriteArgs]
    | a :: rest, h => by
      rw [hasRegexOpArgs, Bool.or_eq_false_iff] at h
      rw [rewriteArgs, rewriteExpr_noop exact a h.1, rewriteArgs_noop exact rest h.2]
end

/-- Conditions in which every regex test stands under `AND`, `OR` and parentheses only (its
truth value is what counts there), the tested operand itself being free of regex tests.
Sub-expressions without regex operators are arbitrary. -/
inductive Cond : Expr → Prop
  | atom {e : Expr} : hasRegexOp e = false → Cond e
  | test {op : Token} {lhs : Expr} {src : Str} : hasRegexOp lhs = false → Cond (.binary op lhs (.regex src))
  | and {l r : Expr} : Cond l → Cond r → Cond (.binary .AND l r)
  | or {l r : Expr} : Cond l → Cond r → Cond (.binary .OR l r)
  | paren {e : Expr} : Cond e → Cond (.paren e)

/-- Before and after the rewrite a condition of class `Cond` evaluates to `≈` values. -/
theorem rewriteExpr_rel (matchStr : Str → GoStr → Bool) (atom : Expr → Val)
    {exact : Str → Option (List Str)} (hs : ExactSound matchStr exact) {e : Expr} (hc : Cond e) :
    Rel (eval matchStr atom e) (eval matchStr atom (rewriteExpr exact e)) := by
  induction hc with
  | atom h => rw [rewriteExpr_noop exact _ h]; exact Rel.refl _
  | @test op lhs src h =>
    rw [rewriteExpr_binary, rewriteExpr_noop exact _ h, rewriteExpr_regex]
    exact rewriteNode_rel matchStr atom hs op lhs src
  | and _ _ ihl ihr =>
    rw [rewriteExpr_binary, rewriteNode_other exact _ _ (by decide) (by decide), eval_and, eval_and]
    exact evalLogic_rel false ihl ihr
  | or _ _ ihl ihr =>
    rw [rewriteExpr_binary, rewriteNode_other exact _ _ (by decide) (by decide), eval_or, eval_or]
    exact evalLogic_rel true ihl ihr
  | paren _ ih =>
    rw [rewriteExpr_paren, eval_paren, eval_paren]; exact ih

/-! ## What `matchRegex` accepts -/

mutual
  /-- The node and all its descendants. -/
  def nodes : Regex → List Regex
    | .mk op flags rune sub => .mk op flags rune sub :: nodesAll sub
  def nodesAll : List Regex → List Regex
    | [] => []
    | r :: rest => nodes r ++ nodesAll rest
end

/-- A node `matchRegex` can go through: one of the five operators of its switch, without the
fold-case flag. -/
def acceptedNode (n : Regex) : Bool :=
  !hasFold n.flags && (n.op == .literal || n.op == .capture || n.op == .concat || n.op == .charClass || n.op == .alternate)

theorem nodes_mk (op : Op) (flags : Nat) (rune : List Nat) (sub : List Regex) :
    nodes (.mk op flags rune sub) = .mk op flags rune sub :: nodesAll sub := by rw [nodes]

theorem nodesAll_cons (r : Regex) (rest : List Regex) : nodesAll (r :: rest) = nodes r ++ nodesAll rest := by
  rw [nodesAll]

theorem wf_sub_nil {op : Op} {flags : Nat} {rune : List Nat} {sub : List Regex}
    (hw : (Regex.mk op flags rune sub).wf = true) (h : op = .literal ∨ op = .charClass) : sub = [] := by
  rw [wf_mk, Bool.and_eq_true] at hw
  rcases h with rfl | rfl
  · exact List.isEmpty_iff.mp hw.1
  · simp only [Bool.and_eq_true] at hw; exact List.isEmpty_iff.mp hw.1.2

mutual
  /-- On a well-formed tree an answer of `matchRegex` means every node of the tree is accepted. -/
  theorem regex_nodes : ∀ (re : Regex) (L : List Str), matchRegex re = some L → re.wf = true →
      ∀ n, n ∈ nodes re → acceptedNode n = true
    | .mk op flags rune sub, L, h, hw, n, hn => by
      rw [nodes_mk, List.mem_cons] at hn
      have hw' := hw
      rw [wf_mk, Bool.and_eq_true] at hw'
      cases op with
      | literal =>
        rw [matchRegex] at h
        split at h
        · simp at h
        · rename_i hf
          rw [wf_sub_nil hw (Or.inl rfl)] at hn
          rcases hn with rfl | hn
          · simp only [Bool.not_eq_true] at hf; simp [acceptedNode, Regex.flags, Regex.op, hf]
          · simp [nodesAll] at hn
      | charClass =>
        rw [matchRegex] at h
        split at h
        · simp at h
        · rename_i hf
          rw [wf_sub_nil hw (Or.inr rfl)] at hn
          rcases hn with rfl | hn
          · simp only [Bool.not_eq_true] at hf; simp [acceptedNode, Regex.flags, Regex.op, hf]
          · simp [nodesAll] at hn
      | capture =>
        rw [matchRegex] at h
        split at h
        · simp at h
        · rename_i hf
          rcases hn with rfl | hn
          · simp only [Bool.not_eq_true] at hf; simp [acceptedNode, Regex.flags, Regex.op, hf]
          · have h1 := hw'.1
            simp only [beq_iff_eq] at h1
            exact first_nodes sub L h hw'.2 h1 n hn
      | concat =>
        rw [matchRegex] at h
        split at h
        · simp at h
        · rename_i hf
          rcases hn with rfl | hn
          · simp only [Bool.not_eq_true] at hf; simp [acceptedNode, Regex.flags, Regex.op, hf]
          · exact concat_nodes sub L h hw'.2 n hn
      | alternate =>
        rw [matchRegex] at h
        split at h
        · simp at h
        · rename_i hf
          rcases hn with rfl | hn
          · simp only [Bool.not_eq_true] at hf; simp [acceptedNode, Regex.flags, Regex.op, hf]
          · cases ha : matchAlt sub with
            | none => rw [ha] at h; simp at h
            | some names => exact alt_nodes sub names ha hw'.2 n hn
      | _ => simp [matchRegex] at h
  theorem first_nodes : ∀ (sub : List Regex) (L : List Str), matchFirst sub = some L → wfAll sub = true →
      sub.length = 1 → ∀ n, n ∈ nodesAll sub → acceptedNode n = true
    | [], L, h, _, _, _, _ => by simp [matchFirst] at h
    | r :: rest, L, h, hw, hl, n, hn => by
      rw [matchFirst] at h
      rw [wfAll_cons, Bool.and_eq_true] at hw
      have : rest = [] := by cases rest with | nil => rfl | cons _ _ => simp at hl
      subst this
      rw [nodesAll_cons, nodesAll, List.append_nil] at hn
      exact regex_nodes r L h hw.1 n hn
  theorem concat_nodes : ∀ (sub : List Regex) (L : List Str), matchConcat sub = some L → wfAll sub = true →
      ∀ n, n ∈ nodesAll sub → acceptedNode n = true
    | [], L, h, _, _, _ => by simp [matchConcat] at h
    | r :: rest, L, h, hw, n, hn => by
      rw [matchConcat] at h
      rw [wfAll_cons, Bool.and_eq_true] at hw
      rw [nodesAll_cons, List.mem_append] at hn
      cases hr : matchRegex r with
      | none => rw [hr] at h; simp at h
      | some names =>
        rw [hr] at h
        rcases hn with hn | hn
        · exact regex_nodes r names hr hw.1 n hn
        · exact loop_nodes rest names L h hw.2 n hn
  theorem loop_nodes : ∀ (rest : List Regex) (names L : List Str), concatLoop names rest = some L →
      wfAll rest = true → ∀ n, n ∈ nodesAll rest → acceptedNode n = true
    | [], _, _, _, _, n, hn => by simp [nodesAll] at hn
    | r :: rest, names, L, h, hw, n, hn => by
      rw [concatLoop] at h
      rw [wfAll_cons, Bool.and_eq_true] at hw
      rw [nodesAll_cons, List.mem_append] at hn
      cases hr : matchRegex r with
      | none => rw [hr] at h; simp at h
      | some vals =>
        rw [hr] at h
        simp only at h
        cases hc : concatStep names vals with
        | none => rw [hc] at h; simp at h
        | some names' =>
          rw [hc] at h
          rcases hn with hn | hn
          · exact regex_nodes r vals hr hw.1 n hn
          · exact loop_nodes rest names' L h hw.2 n hn
  theorem alt_nodes : ∀ (sub : List Regex) (L : List Str), matchAlt sub = some L → wfAll sub = true →
      ∀ n, n ∈ nodesAll sub → acceptedNode n = true
    | [], _, _, _, n, hn => by simp [nodesAll] at hn
    | r :: rest, L, h, hw, n, hn => by
      rw [matchAlt] at h
      rw [wfAll_cons, Bool.and_eq_true] at hw
      rw [nodesAll_cons, List.mem_append] at hn
      cases hr : matchRegex r with
      | none => rw [hr] at h; simp at h
      | some vals =>
        rw [hr] at h
        cases ha : matchAlt rest with
        | none => rw [ha] at h; simp at h
        | some more =>
          rcases hn with hn | hn
          · exact regex_nodes r vals hr hw.1 n hn
          · exact alt_nodes rest more ha hw.2 n hn
end

/-- Pigeonhole: a duplicate-free list inside another list is no longer than it. -/
theorem nodup_length_le {ws L : List Str} (hn : ws.Nodup) (hs : ∀ w, w ∈ ws → w ∈ L) : ws.length ≤ L.length := by
  induction ws generalizing L with
  | nil => simp
  | cons w ws ih =>
    rw [List.nodup_cons] at hn
    have hw : w ∈ L := hs w List.mem_cons_self
    have := ih (L := L.erase w) hn.2 (fun x hx => (List.mem_erase_of_ne (fun (e : x = w) => hn.1 (by rw [← e]; exact hx))).mpr (hs x (List.mem_cons_of_mem _ hx)))
    rw [List.length_erase_of_mem hw] at this
    have : 0 < L.length := List.length_pos_of_mem hw
    simp only [List.length_cons]
    omega

end InfluxQL.Rx

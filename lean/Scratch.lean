import InfluxQL.Lemmas.Regex
namespace InfluxQL.Rx
open InfluxQL Gen

/-! ## The induction over the tree -/

/-- All runes of all strings are encodable (valid scalars other than U+FFFD). -/
def EncStrs (L : List Str) : Prop := ∀ l, l ∈ L → ∀ c, c ∈ l → isEncodableRune c.toNat = true

/-- `L` is exactly the language of the context-aware matcher `m`, in every context. -/
def Lang (m : Str → Str → Str → Bool) (L : List Str) : Prop :=
  ∀ pre s post, m pre s post = true ↔ s ∈ L

structure Spec (m : Str → Str → Str → Bool) (L : List Str) : Prop where
  lang : Lang m L
  len : L.length ≤ maxLiterals
  enc : EncStrs L

theorem matchB_mk (op : Op) (flags : Nat) (rune : List Nat) (sub : List Regex) (pre mid post : Str) :
    matchB (.mk op flags rune sub) pre mid post =
      match op with
      | .noMatch => false
      | .emptyMatch => mid.isEmpty
      | .literal => litMatch (hasFold flags) rune mid
      | .charClass => match mid with | [c] => classMem c.toNat rune | _ => false
      | .anyCharNotNL => match mid with | [c] => c != '\n' | _ => false
      | .anyChar => match mid with | [_] => true | _ => false
      | .beginLine => mid.isEmpty && (pre.isEmpty || pre.getLast? == some '\n')
      | .endLine => mid.isEmpty && (post.isEmpty || post.head? == some '\n')
      | .beginText => mid.isEmpty && pre.isEmpty
      | .endText => mid.isEmpty && post.isEmpty
      | .wordBoundary => mid.isEmpty && (lastIsWord pre != headIsWord post)
      | .noWordBoundary => mid.isEmpty && (lastIsWord pre == headIsWord post)
      | .capture => matchFirstB sub pre mid post
      | .star => starB (matchFirstB sub) mid.length pre mid post
      | .plus => (splits mid).any fun p =>
          matchFirstB sub pre p.1 (p.2 ++ post) && starB (matchFirstB sub) p.2.length (pre ++ p.1) p.2 post
      | .quest => mid.isEmpty || matchFirstB sub pre mid post
      | .repeat_ => false
      | .concat => matchConcatB sub pre mid post
      | .alternate => matchAltB sub pre mid post := by
  unfold matchB; rfl

theorem matchConcatB_cons (r : Regex) (rest : List Regex) (pre mid post : Str) :
    matchConcatB (r :: rest) pre mid post =
      (splits mid).any fun p => matchB r pre p.1 (p.2 ++ post) && matchConcatB rest (pre ++ p.1) p.2 post := by
  rw [matchConcatB]

theorem matchConcatB_nil (pre mid post : Str) : matchConcatB [] pre mid post = mid.isEmpty := by
  rw [matchConcatB]

theorem matchAltB_cons (r : Regex) (rest : List Regex) (pre mid post : Str) :
    matchAltB (r :: rest) pre mid post = (matchB r pre mid post || matchAltB rest pre mid post) := by
  rw [matchAltB]

theorem matchAltB_nil (pre mid post : Str) : matchAltB [] pre mid post = false := by
  rw [matchAltB]

theorem matchFirstB_cons (r : Regex) (rest : List Regex) : matchFirstB (r :: rest) = matchB r := by
  rw [matchFirstB]

/-- `matchConcatB (r :: rest)` as a statement about splits. -/
theorem matchConcatB_cons_iff {r : Regex} {rest : List Regex} {pre mid post : Str} :
    matchConcatB (r :: rest) pre mid post = true ↔
      ∃ a b, mid = a ++ b ∧ matchB r pre a (b ++ post) = true ∧ matchConcatB rest (pre ++ a) b post = true := by
  rw [matchConcatB_cons, splits_any]
  simp only [Bool.and_eq_true]

theorem literal_spec {flags : Nat} {rune : List Nat} (sub : List Regex) (hf : hasFold flags = false)
    (he : rune.all isEncodableRune = true) : Spec (matchB (.mk .literal flags rune sub)) [runesToStr rune] := by
  refine ⟨?_, by simp [maxLiterals], ?_⟩
  · intro pre s post
    rw [matchB_mk]
    simp only [hf, litMatch_false, map_toNat_eq_iff he, List.mem_singleton]
  · intro l hl c hc
    simp only [List.mem_singleton] at hl
    subst hl
    simp only [runesToStr, List.mem_map] at hc
    obtain ⟨r, hr, rfl⟩ := hc
    have := List.all_eq_true.mp he r hr
    rw [goChar_toNat this]; exact this

theorem class_spec {flags : Nat} {rune : List Nat} (sub : List Regex) {L : List Str}
    (hs : classSize rune ≤ maxLiterals) (h : classStrs rune = some L) :
    Spec (matchB (.mk .charClass flags rune sub)) L := by
  obtain ⟨h1, h2, h3, h4⟩ := classStrs_spec h
  refine ⟨?_, by omega, h4⟩
  intro pre s post
  rw [matchB_mk]
  match s with
  | [c] => simp only [h3]
  | [] =>
    simp only [Bool.false_eq_true, false_iff]
    intro hm; obtain ⟨c, hc⟩ := h2 _ hm; simp at hc
  | a :: b :: t =>
    simp only [Bool.false_eq_true, false_iff]
    intro hm; obtain ⟨c, hc⟩ := h2 _ hm; simp at hc

mutual
  theorem regex_spec : ∀ (re : Regex) (L : List Str), matchRegex re = some L → Spec (matchB re) L
    | .mk op flags rune sub, L, h => by
      cases op with
      | literal =>
        rw [matchRegex] at h
        split at h
        · simp at h
        · rename_i hf
          simp only [Bool.not_eq_true] at hf
          split at h
          · rename_i he
            simp only [Option.some.injEq] at h; subst h
            exact literal_spec sub hf he
          · simp at h
      | charClass =>
        rw [matchRegex] at h
        split at h
        · simp at h
        · split at h
          · simp at h
          · rename_i hs
            simp only [Bool.or_eq_true, decide_eq_true_eq, beq_iff_eq, not_or] at hs
            exact class_spec sub (by omega) h
      | capture =>
        rw [matchRegex] at h
        split at h
        · simp at h
        · have := first_spec sub L h
          exact ⟨fun pre s post => by rw [matchB_mk]; exact this.lang pre s post, this.len, this.enc⟩
      | concat =>
        rw [matchRegex] at h
        split at h
        · simp at h
        · have := concat_spec sub L h
          exact ⟨fun pre s post => by rw [matchB_mk]; exact this.lang pre s post, this.len, this.enc⟩
      | alternate =>
        rw [matchRegex] at h
        split at h
        · simp at h
        · cases ha : matchAlt sub with
          | none => rw [ha] at h; simp at h
          | some names =>
            rw [ha] at h
            simp only at h
            split at h
            · simp at h
            · rename_i hl
              simp only [Option.some.injEq] at h; subst h
              have := alt_spec sub names ha
              exact ⟨fun pre s post => by rw [matchB_mk]; exact this.1 pre s post, by omega, this.2⟩
      | _ => simp [matchRegex] at h
  theorem first_spec : ∀ (sub : List Regex) (L : List Str), matchFirst sub = some L → Spec (matchFirstB sub) L
    | [], L, h => by simp [matchFirst] at h
    | r :: rest, L, h => by
      rw [matchFirst] at h
      rw [matchFirstB_cons]
      exact regex_spec r L h
  theorem concat_spec : ∀ (sub : List Regex) (L : List Str), matchConcat sub = some L → Spec (matchConcatB sub) L
    | [], L, h => by simp [matchConcat] at h
    | r :: rest, L, h => by
      rw [matchConcat] at h
      cases hr : matchRegex r with
      | none => rw [hr] at h; simp at h
      | some names =>
        rw [hr] at h
        simp only at h
        have sr := regex_spec r names hr
        have sl := loop_spec rest names L h sr.len sr.enc
        refine ⟨?_, sl.2.1, sl.2.2⟩
        intro pre s post
        rw [matchConcatB_cons_iff, ← sl.1 pre s post]
        constructor
        · rintro ⟨a, b, e, h1, h2⟩; exact ⟨a, b, e, (sr.lang _ _ _).mp h1, h2⟩
        · rintro ⟨a, b, e, h1, h2⟩; exact ⟨a, b, e, (sr.lang _ _ _).mpr h1, h2⟩
  theorem loop_spec : ∀ (rest : List Regex) (names L : List Str), concatLoop names rest = some L →
      names.length ≤ maxLiterals → EncStrs names →
      (∀ pre s post, (∃ a b, s = a ++ b ∧ a ∈ names ∧ matchConcatB rest (pre ++ a) b post = true) ↔ s ∈ L) ∧
        L.length ≤ maxLiterals ∧ EncStrs L
    | [], names, L, h, hn, he => by
      rw [concatLoop] at h
      simp only [Option.some.injEq] at h; subst h
      refine ⟨?_, hn, he⟩
      intro pre s post
      simp only [matchConcatB_nil, List.isEmpty_iff]
      constructor
      · rintro ⟨a, b, rfl, ha, rfl⟩; simpa using ha
      · intro hs; exact ⟨s, [], by simp, hs, rfl⟩
    | r :: rest, names, L, h, hn, he => by
      rw [concatLoop] at h
      cases hr : matchRegex r with
      | none => rw [hr] at h; simp at h
      | some vals =>
        rw [hr] at h
        simp only at h
        cases hc : concatStep names vals with
        | none => rw [hc] at h; simp at h
        | some names' =>
          rw [hc] at h
          simp only at h
          have sr := regex_spec r vals hr
          have he' : EncStrs names' := by
            intro l hl c hcm
            obtain ⟨n, hn', v, hv, rfl⟩ := (concatStep_mem hc l).mp hl
            rcases List.mem_append.mp hcm with hcm | hcm
            · exact he n hn' c hcm
            · exact sr.enc v hv c hcm
          have sl := loop_spec rest names' L h (concatStep_len hc hn sr.len) he'
          refine ⟨?_, sl.2.1, sl.2.2⟩
          intro pre s post
          rw [← sl.1 pre s post]
          constructor
          · rintro ⟨a, b, rfl, ha, hm⟩
            obtain ⟨v, b', rfl, h1, h2⟩ := matchConcatB_cons_iff.mp hm
            refine ⟨a ++ v, b', by simp, (concatStep_mem hc _).mpr ⟨a, ha, v, (sr.lang _ _ _).mp h1, rfl⟩, ?_⟩
            rw [← List.append_assoc]; exact h2
          · rintro ⟨x, b', rfl, hx, hm⟩
            obtain ⟨a, ha, v, hv, rfl⟩ := (concatStep_mem hc x).mp hx
            refine ⟨a, v ++ b', by simp, ha, matchConcatB_cons_iff.mpr ⟨v, b', rfl, (sr.lang _ _ _).mpr hv, ?_⟩⟩
            rw [List.append_assoc]; exact hm
  theorem alt_spec : ∀ (sub : List Regex) (L : List Str), matchAlt sub = some L → Lang (matchAltB sub) L ∧ EncStrs L
    | [], L, h => by
      rw [matchAlt] at h
      simp only [Option.some.injEq] at h; subst h
      exact ⟨fun pre s post => by simp [matchAltB_nil], fun l hl => absurd hl List.not_mem_nil⟩
    | r :: rest, L, h => by
      rw [matchAlt] at h
      cases hr : matchRegex r with
      | none => rw [hr] at h; simp at h
      | some vals =>
        rw [hr] at h
        cases ha : matchAlt rest with
        | none => rw [ha] at h; simp at h
        | some more =>
          rw [ha] at h
          simp only [Option.map_some, Option.some.injEq] at h; subst h
          have sr := regex_spec r vals hr
          have sa := alt_spec rest more ha
          refine ⟨?_, ?_⟩
          · intro pre s post
            rw [matchAltB_cons, Bool.or_eq_true, sr.lang, sa.1, List.mem_append]
          · intro l hl
            rcases List.mem_append.mp hl with hl | hl
            · exact sr.enc l hl
            · exact sa.2 l hl
end

end InfluxQL.Rx

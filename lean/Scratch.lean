import InfluxQL.Lemmas.Regex
namespace InfluxQL.Rx
open InfluxQL Gen

/-! ## Evaluation of the rewritten tests -/

/-- `before ≈ after`: equal, or `nil` became `false` (a regex test on a non-string gives nil,
the equality test that replaces it gives false). -/
def Rel (v w : Val) : Prop := v = w ∨ (v = .nil ∧ w = .bool false)

theorem Rel.refl (v : Val) : Rel v v := Or.inl rfl

theorem Rel.truthy {v w : Val} (h : Rel v w) : truthy v = truthy w := by
  rcases h with rfl | ⟨rfl, rfl⟩ <;> rfl

/-- `AND` / `OR` respect `≈` in both operands. -/
theorem evalLogic_rel (isOr : Bool) {a a' b b' : Val} (ha : Rel a a') (hb : Rel b b') :
    Rel (evalLogic isOr a b) (evalLogic isOr a' b') := by
  rcases ha with rfl | ⟨rfl, rfl⟩ <;> rcases hb with rfl | ⟨rfl, rfl⟩
  · exact Rel.refl _
  · cases a <;> cases isOr <;> simp [evalLogic, Rel]
  · cases b <;> cases isOr <;> simp [evalLogic, Rel]
  · cases isOr <;> simp [evalLogic, Rel]

/-- The boolean an equality test against a literal yields. -/
def strCmpB (neg : Bool) (v : Val) (lit : Str) : Bool :=
  match v with
  | .str x => if neg then x ≠ ofStr lit else x = ofStr lit
  | _ => false

theorem evalStrCmp_eq (neg : Bool) (v : Val) (lit : Str) : evalStrCmp neg v lit = .bool (strCmpB neg v lit) := by
  cases v <;> simp [evalStrCmp, strCmpB]

section
variable (matchStr : Str → GoStr → Bool) (atom : Expr → Val)

theorem eval_and (l r : Expr) :
    eval matchStr atom (.binary .AND l r) = evalLogic false (eval matchStr atom l) (eval matchStr atom r) := by
  simp [eval]

theorem eval_or (l r : Expr) :
    eval matchStr atom (.binary .OR l r) = evalLogic true (eval matchStr atom l) (eval matchStr atom r) := by
  simp [eval]

theorem eval_paren (e : Expr) : eval matchStr atom (.paren e) = eval matchStr atom e := by
  simp [eval]

theorem eval_eq_lit (l : Expr) (lit : Str) :
    eval matchStr atom (.binary .EQ l (.string lit)) = .bool (strCmpB false (eval matchStr atom l) lit) := by
  simp [eval, evalStrCmp_eq]

theorem eval_neq_lit (l : Expr) (lit : Str) :
    eval matchStr atom (.binary .NEQ l (.string lit)) = .bool (strCmpB true (eval matchStr atom l) lit) := by
  simp [eval, evalStrCmp_eq]

theorem eval_eqregex (l : Expr) (src : Str) :
    eval matchStr atom (.binary .EQREGEX l (.regex src)) = evalRegexCmp matchStr false (eval matchStr atom l) src := by
  simp [eval]

theorem eval_neqregex (l : Expr) (src : Str) :
    eval matchStr atom (.binary .NEQREGEX l (.regex src)) = evalRegexCmp matchStr true (eval matchStr atom l) src := by
  simp [eval]

theorem eval_stripParen (e : Expr) : eval matchStr atom (stripParen e) = eval matchStr atom e := by
  cases e <;> simp [stripParen, eval_paren]

theorem eval_chain_or (lhs : Expr) (vs : List Str) (acc : Expr) (b : Bool)
    (h : eval matchStr atom acc = .bool b) :
    eval matchStr atom (chain .EQ .OR lhs acc vs) =
      .bool (b || vs.any (strCmpB false (eval matchStr atom lhs))) := by
  induction vs generalizing acc b with
  | nil => simp [chain, h]
  | cons v vs ih =>
    rw [chain, ih _ (b || strCmpB false (eval matchStr atom lhs) v)]
    · simp [Bool.or_assoc]
    · rw [eval_or, h, eval_eq_lit]; simp [evalLogic]

theorem eval_chain_and (lhs : Expr) (vs : List Str) (acc : Expr) (b : Bool)
    (h : eval matchStr atom acc = .bool b) :
    eval matchStr atom (chain .NEQ .AND lhs acc vs) =
      .bool (b && vs.all (strCmpB true (eval matchStr atom lhs))) := by
  induction vs generalizing acc b with
  | nil => simp [chain, h]
  | cons v vs ih =>
    rw [chain, ih _ (b && strCmpB true (eval matchStr atom lhs) v)]
    · simp [Bool.and_assoc]
    · rw [eval_and, h, eval_neq_lit]; simp [evalLogic]

/-- The OR chain is true iff the value equals one of the substituted literals. -/
theorem eval_tests_or (lhs : Expr) (vals : List Str) :
    eval matchStr atom (literalTests .EQ .OR lhs vals) =
      .bool ((rewriteLits vals).any (strCmpB false (eval matchStr atom lhs))) := by
  match vals with
  | [] => simp [literalTests, rewriteLits, eval_eq_lit]
  | [v] => simp [literalTests, rewriteLits, eval_eq_lit]
  | v :: w :: vs =>
    have e : literalTests .EQ .OR lhs (v :: w :: vs) =
        .paren (chain .EQ .OR lhs (.binary .EQ lhs (.string v)) (w :: vs)) := rfl
    rw [e, eval_paren, eval_chain_or matchStr atom lhs (w :: vs) _ _ (eval_eq_lit matchStr atom lhs v)]
    simp [rewriteLits]

/-- The AND chain is true iff the value differs from all the substituted literals. -/
theorem eval_tests_and (lhs : Expr) (vals : List Str) :
    eval matchStr atom (literalTests .NEQ .AND lhs vals) =
      .bool ((rewriteLits vals).all (strCmpB true (eval matchStr atom lhs))) := by
  match vals with
  | [] => simp [literalTests, rewriteLits, eval_neq_lit]
  | [v] => simp [literalTests, rewriteLits, eval_neq_lit]
  | v :: w :: vs =>
    have e : literalTests .NEQ .AND lhs (v :: w :: vs) =
        .paren (chain .NEQ .AND lhs (.binary .NEQ lhs (.string v)) (w :: vs)) := rfl
    rw [e, eval_paren, eval_chain_and matchStr atom lhs (w :: vs) _ _ (eval_neq_lit matchStr atom lhs v)]
    simp [rewriteLits]

/-- `exact` (what `matchExactRegex` answers) is sound for `matchStr` (what `MatchString`
decides): the literals substituted are, byte for byte, the accepted strings. -/
def ExactSound (exact : Str → Option (List Str)) : Prop :=
  ∀ src L, exact src = some L → ∀ x : GoStr, matchStr src x = true ↔ x ∈ (rewriteLits L).map ofStr

theorem any_strCmp_str (x : GoStr) (lits : List Str) :
    lits.any (strCmpB false (.str x)) = true ↔ x ∈ lits.map ofStr := by
  simp only [List.any_eq_true, strCmpB, Bool.false_eq_true, if_false, decide_eq_true_eq, List.mem_map]
  constructor
  · rintro ⟨l, hl, rfl⟩; exact ⟨l, hl, rfl⟩
  · rintro ⟨l, hl, rfl⟩; exact ⟨l, hl, rfl⟩

theorem all_strCmp_str (x : GoStr) (lits : List Str) :
    lits.all (strCmpB true (.str x)) = !(lits.any (strCmpB false (.str x))) := by
  induction lits with
  | nil => rfl
  | cons l ls ih => simp only [List.all_cons, List.any_cons, ih, strCmpB, if_true, Bool.false_eq_true, if_false,
      Bool.not_or]; simp

theorem rewriteNode_regex (exact : Str → Option (List Str)) (op : Token) (lhs : Expr) (src : Str) :
    rewriteNode exact (.binary op lhs (.regex src)) =
      if op = .EQREGEX then
        match exact src with
        | none => .binary op lhs (.regex src)
        | some vals => literalTests .EQ .OR lhs vals
      else if op = .NEQREGEX then
        match exact src with
        | none => .binary op lhs (.regex src)
        | some vals => literalTests .NEQ .AND lhs vals
      else .binary op lhs (.regex src) := rfl

theorem rewriteLits_ne_nil (vals : List Str) : rewriteLits vals ≠ [] := by
  cases vals <;> simp [rewriteLits]

/-- One regex test and what replaces it evaluate to `≈` values, whatever the left operand is. -/
theorem rewriteNode_rel {exact : Str → Option (List Str)} (hs : ExactSound matchStr exact)
    (op : Token) (lhs : Expr) (src : Str) :
    Rel (eval matchStr atom (.binary op lhs (.regex src)))
      (eval matchStr atom (rewriteNode exact (.binary op lhs (.regex src)))) := by
  rw [rewriteNode_regex]
  by_cases h1 : op = .EQREGEX
  · subst h1
    simp only [if_true]
    cases he : exact src with
    | none => exact Rel.refl _
    | some vals =>
      simp only
      rw [eval_tests_or, eval_eqregex]
      cases hv : eval matchStr atom lhs with
      | str x =>
        left
        simp only [evalRegexCmp, Bool.false_eq_true, if_false, Val.bool.injEq]
        rw [Bool.eq_iff_iff, any_strCmp_str]
        exact hs src vals he x
      | nil => right; exact ⟨rfl, by simp [strCmpB]⟩
      | bool b => right; exact ⟨rfl, by simp [strCmpB]⟩
      | other => right; exact ⟨rfl, by simp [strCmpB]⟩
  · rw [if_neg h1]
    by_cases h2 : op = .NEQREGEX
    · subst h2
      simp only [if_true]
      cases he : exact src with
      | none => exact Rel.refl _
      | some vals =>
        simp only
        rw [eval_tests_and, eval_neqregex]
        cases hv : eval matchStr atom lhs with
        | str x =>
          left
          simp only [evalRegexCmp, if_true, Val.bool.injEq]
          rw [all_strCmp_str]
          congr 1
          rw [Bool.eq_iff_iff, any_strCmp_str]
          exact hs src vals he x
        | nil => right; refine ⟨rfl, ?_⟩; obtain ⟨l, ls, e⟩ := List.exists_cons_of_ne_nil (rewriteLits_ne_nil vals); rw [e]; simp [strCmpB]
        | bool b => right; refine ⟨rfl, ?_⟩; obtain ⟨l, ls, e⟩ := List.exists_cons_of_ne_nil (rewriteLits_ne_nil vals); rw [e]; simp [strCmpB]
        | other => right; refine ⟨rfl, ?_⟩; obtain ⟨l, ls, e⟩ := List.exists_cons_of_ne_nil (rewriteLits_ne_nil vals); rw [e]; simp [strCmpB]
    · rw [if_neg h2]; exact Rel.refl _

end

end InfluxQL.Rx

"""Per-property configuration of the check driver (streams, sizes, notes)."""

CHECKS = {
    "C08": {
        "streams": [
            {"name": "dur.parse", "quick": 20000, "thorough": 400000},
            {"name": "dur.format", "quick": 20000, "thorough": 400000},
        ],
        "rule": "dur.parse: unit-boundary sweep (±3 around MaxInt64/unit for all 9 unit spellings, both signs, powers of ten, "
                "leading zeros, over-long digit runs) + malformed corpus + random: 20% character soup over the duration alphabet, "
                "30% multi-component sums steered to the overflow boundary, 50% ordinary; dur.format: boundary values and random "
                "multiples of every unit; a case is non-trivial if its text has more than one rune and distinct if its case line is new",
        "trusted_base": [
            "modelled, not verified: Go int64 arithmetic as Int with explicit wrap64; strconv.ParseInt on a digit run "
            "(error iff value > MaxInt64); fmt %d; []rune(s) decoding (model starts from the rune sequence)"],
        "assumptions": ["len(s) < 2 is taken over the UTF-8 length of the rune sequence (valid UTF-8 inputs)"],
    },
}

"""Per-property configuration: one JSON file per property under config/ (streams, sizes, rule,
trusted base, assumptions, and the MANIFEST texts)."""
import glob
import json
import os

_here = os.path.dirname(os.path.abspath(__file__))
CHECKS = {}
for _p in sorted(glob.glob(os.path.join(_here, "config", "C*.json"))):
    CHECKS[os.path.basename(_p)[:-5]] = json.load(open(_p, encoding="utf-8"))

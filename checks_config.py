"""Per-property configuration of the check driver (streams, sizes, notes)."""

CHECKS = {
    "C03": {
        "streams": [{"name": "parse.expr", "quick": 15000, "thorough": 400000}],
        "rule": "parse.expr: corner-case corpus; every chain a op b and a op b op c over all 19 operator spellings (incl. <> and "
                "regex operators with regex operands) exhaustively; thorough tier additionally k=3 exhaustively and every "
                "parenthesisation of 5-atom chains over one operator per level; random expressions of 0-40 operators with "
                "random-case keywords, parenthesised sub-chains, negated/signed operands, calls (also regex/wildcard arguments), "
                "typed and segmented references, literals of every kind, bound parameters of every bindable and unbindable kind; "
                "10% lexical soup. Compared with the model: the whole AST or the exact error text. Property oracle on the "
                "implementation: simple chains group as an independent precedence-climbing reference says; print -> parse gives the "
                "same tree. non-trivial = text longer than three runes",
        "trusted_base": [
            "modelled, not verified: regexp.Compile (assumed to accept; cases where the implementation reports a regexp syntax error are "
            "not compared), strconv.ParseFloat/FormatFloat (number literals are exact decimals in the model; literals with more "
            "than 15 significant digits are not compared), unicode.ToLower on non-ASCII runes (table shipped by the harness)"],
        "assumptions": ["printing of unparenthesised `±1 * x` operands and of quoted call names are recorded known findings"],
    },
    "C06": {
        "streams": [{"name": "quote.str", "quick": 8000, "thorough": 200000},
                    {"name": "quote.needs", "quick": 8000, "thorough": 200000},
                    {"name": "quote.ident", "quick": 8000, "thorough": 200000}],
        "rule": "quote.*: fixed corpus + sweep of the Basic Multilingual Plane one character at a time in three contexts "
                "(alone, after 'a', before 'a'; quick tier: one eighth of the plane chosen by the seed, thorough: all of it) + random "
                "contents biased to quotes, backslashes, newlines, CR, NUL, keywords in mixed case, digits first; quote.ident with 1-3 "
                "segments incl. empty ones. Compared with the model: the exact output text. Property oracle on the implementation: "
                "the quoted text followed by 13 different continuations scans as one token covering exactly the quoted text; inside "
                "`a = <q> AND b = 2` / `<q> = 1 AND b = 2` / `SELECT f FROM <q> WHERE b = 2` the AST keeps its shape and carries the value; "
                "IdentNeedsQuotes(s)=false iff s bare scans as that identifier before 8 continuations. non-trivial = non-empty input",
        "trusted_base": [
            "modelled, not verified: strings.NewReplacer on single-byte patterns (re-implemented per character); that byte-level "
            "replacement commutes with UTF-8 decoding (exercised by the property oracle, which works on the real Go strings); "
            "strings.ToLower inside Lookup modelled as ASCII lower-casing (result of IdentNeedsQuotes is insensitive to the difference)"],
        "assumptions": ["multi-part names db.rp.m are covered by correspondence and the property oracle; the theorems cover single tokens"],
    },
    "C05": {
        "streams": [{"name": "scan.ops", "quick": 30000, "thorough": 1000000}],
        "rule": "scan.ops: fixed corpus of lexical corner cases + random concatenations of 0-8 token-like fragments "
                "(keywords in random case, bare/quoted identifiers, strings incl. unterminated and bad escapes, numbers, durations, "
                "all operator spellings, both comment forms, $params, /regex/, odd Unicode, invalid UTF-8 or NUL) joined by "
                "nothing or by space/tab/LF/CR/CRLF mixes; one case in five may contain NUL; one in six starts with a random "
                "Scan/ScanRegex prefix; compared: token kind, position, literal and consumed-rune count of every token; "
                "non-trivial = at least three tokens",
        "trusted_base": [
            "modelled, not verified: UTF-8 decoding by bufio.Reader.ReadRune (the model starts from the runes Go decodes); "
            "the 3-slot rings (the model is a pure cursor; the verif hook asserts the push-back depth in the implementation)"],
        "assumptions": ["STRING-family positions and NUL handling are recorded known findings (see known_findings.json)"],
    },
    "C08": {
        "streams": [
            {"name": "dur.parse", "quick": 20000, "thorough": 400000},
            {"name": "dur.format", "quick": 20000, "thorough": 400000},
        ],
        "rule": "dur.parse: unit-boundary sweep (±3 around MaxInt64/unit for all 9 unit spellings, both signs, powers of ten, "
                "leading zeros, over-long digit runs) + malformed corpus + random: 20% character soup over the duration alphabet, "
                "30% multi-component sums steered to the overflow boundary, 50% ordinary; dur.format: boundary values and random "
                "multiples of every unit; a case is non-trivial if its text has more than one rune and distinct if its case line is new",
        "trusted_base": [
            "modelled, not verified: Go int64 arithmetic as Int with explicit wrap64; strconv.ParseInt on a digit run "
            "(error iff value > MaxInt64); fmt %d; []rune(s) decoding (model starts from the rune sequence)"],
        "assumptions": ["len(s) < 2 is taken over the UTF-8 length of the rune sequence (valid UTF-8 inputs)"],
    },
}

"""Per-property configuration of the check driver (streams, sizes, notes)."""

CHECKS = {
    "C05": {
        "streams": [{"name": "scan.ops", "quick": 30000, "thorough": 1000000}],
        "rule": "scan.ops: fixed corpus of lexical corner cases + random concatenations of 0-8 token-like fragments "
                "(keywords in random case, bare/quoted identifiers, strings incl. unterminated and bad escapes, numbers, durations, "
                "all operator spellings, both comment forms, $params, /regex/, odd Unicode, invalid UTF-8 or NUL) joined by "
                "nothing or by space/tab/LF/CR/CRLF mixes; one case in five may contain NUL; one in six starts with a random "
                "Scan/ScanRegex prefix; compared: token kind, position, literal and consumed-rune count of every token; "
                "non-trivial = at least three tokens",
        "trusted_base": [
            "modelled, not verified: UTF-8 decoding by bufio.Reader.ReadRune (the model starts from the runes Go decodes); "
            "the 3-slot rings (the model is a pure cursor; the verif hook asserts the push-back depth in the implementation)"],
        "assumptions": ["STRING-family positions and NUL handling are recorded known findings (see known_findings.json)"],
    },
    "C08": {
        "streams": [
            {"name": "dur.parse", "quick": 20000, "thorough": 400000},
            {"name": "dur.format", "quick": 20000, "thorough": 400000},
        ],
        "rule": "dur.parse: unit-boundary sweep (±3 around MaxInt64/unit for all 9 unit spellings, both signs, powers of ten, "
                "leading zeros, over-long digit runs) + malformed corpus + random: 20% character soup over the duration alphabet, "
                "30% multi-component sums steered to the overflow boundary, 50% ordinary; dur.format: boundary values and random "
                "multiples of every unit; a case is non-trivial if its text has more than one rune and distinct if its case line is new",
        "trusted_base": [
            "modelled, not verified: Go int64 arithmetic as Int with explicit wrap64; strconv.ParseInt on a digit run "
            "(error iff value > MaxInt64); fmt %d; []rune(s) decoding (model starts from the rune sequence)"],
        "assumptions": ["len(s) < 2 is taken over the UTF-8 length of the rune sequence (valid UTF-8 inputs)"],
    },
}
